"""E7: source terms -> sympy, symbolic derivative, normal-form equality.

This rewrites *source terms*; nothing from pyttb is imported or executed.
"""
from __future__ import annotations

import ast
from typing import Callable, Dict, List, Optional, Tuple

import sympy as sp

from .model import dotted


class Untranslatable(Exception):
    pass


_UNARY = {
    "log": sp.log, "exp": sp.exp, "abs": sp.Abs, "absolute": sp.Abs, "fabs": sp.Abs,
    "sign": sp.sign, "sqrt": sp.sqrt, "square": lambda x: x**2,
    "log1p": lambda x: sp.log(1 + x), "expm1": lambda x: sp.exp(x) - 1,
    "negative": lambda x: -x, "reciprocal": lambda x: 1 / x,
    "float": lambda x: x, "asarray": lambda x: x, "array": lambda x: x,
}
_BINARY = {
    "power": lambda a, b: a**b, "multiply": lambda a, b: a * b, "divide": lambda a, b: a / b,
    "true_divide": lambda a, b: a / b, "add": lambda a, b: a + b, "subtract": lambda a, b: a - b,
    "maximum": lambda a, b: sp.Max(a, b), "minimum": lambda a, b: sp.Min(a, b),
}


class Translator:
    """Translate a numpy expression AST to a sympy term.

    env: name -> sympy expression (parameters, inlined locals, module constants).
    Comparison masks become opaque 0/1 symbols keyed by the normalised comparison
    (piecewise-constant: derivative zero); logical_not(B) -> 1 - B.
    hooks: optional callable(node, self) -> expr | None for caller-specific constructs.
    """

    def __init__(self, env: Dict[str, sp.Expr], hooks: Optional[Callable] = None):
        self.env = dict(env)
        self.masks: Dict[str, sp.Symbol] = {}
        self.hooks = hooks

    def mask(self, key: str) -> sp.Symbol:
        if key not in self.masks:
            self.masks[key] = sp.Symbol(f"MASK{len(self.masks)}", real=True)
        return self.masks[key]

    def tr(self, n: ast.AST) -> sp.Expr:
        if self.hooks is not None:
            r = self.hooks(n, self)
            if r is not None:
                return r
        if isinstance(n, ast.Constant):
            if isinstance(n.value, bool):
                return sp.Integer(int(n.value))
            if isinstance(n.value, int):
                return sp.Integer(n.value)
            if isinstance(n.value, float):
                return sp.nsimplify(n.value, rational=True) if n.value == int(n.value) or abs(n.value) >= 1e-6 else sp.Float(n.value)
            raise Untranslatable(f"constant {n.value!r}")
        if isinstance(n, ast.Name):
            if n.id in self.env:
                return self.env[n.id]
            raise Untranslatable(f"free name {n.id}")
        if isinstance(n, ast.Attribute):
            d = dotted(n)
            if d in ("np.pi", "numpy.pi", "math.pi"):
                return sp.pi
            if d in ("np.e", "math.e"):
                return sp.E
            if d in ("np.inf", "numpy.inf", "math.inf"):
                return sp.oo
            if d in self.env:
                return self.env[d]
            raise Untranslatable(f"attribute {d}")
        if isinstance(n, ast.UnaryOp):
            v = self.tr(n.operand)
            if isinstance(n.op, ast.USub):
                return -v
            if isinstance(n.op, ast.UAdd):
                return v
            if isinstance(n.op, (ast.Not, ast.Invert)):
                return 1 - v
            raise Untranslatable("unary op")
        if isinstance(n, ast.BinOp):
            a, b = self.tr(n.left), self.tr(n.right)
            op = n.op
            if isinstance(op, ast.Add):
                return a + b
            if isinstance(op, ast.Sub):
                return a - b
            if isinstance(op, ast.Mult):
                return a * b
            if isinstance(op, ast.Div):
                return a / b
            if isinstance(op, ast.Pow):
                return a**b
            if isinstance(op, ast.BitAnd):
                return a * b
            raise Untranslatable(f"binop {type(op).__name__}")
        if isinstance(n, ast.Compare):
            if len(n.ops) != 1:
                raise Untranslatable("chained comparison")
            a, b = self.tr(n.left), self.tr(n.comparators[0])
            op = n.ops[0]
            # canonical key: difference and comparator class; complements share a symbol
            if isinstance(op, (ast.Lt, ast.LtE)):
                return self.mask(f"{sp.simplify(a - b)}<{'=' if isinstance(op, ast.LtE) else ''}0")
            if isinstance(op, (ast.Gt, ast.GtE)):
                return self.mask(f"{sp.simplify(b - a)}<{'=' if isinstance(op, ast.GtE) else ''}0")
            raise Untranslatable("comparison kind")
        if isinstance(n, ast.Call):
            name = dotted(n.func) or ""
            base = name.split(".")[-1]
            args = n.args
            if name.split(".")[0] in ("np", "numpy", "math") or name in ("abs", "float"):
                if base == "logical_not" and len(args) == 1:
                    return 1 - self.tr(args[0])
                if base == "logical_and" and len(args) == 2:
                    return self.tr(args[0]) * self.tr(args[1])
                if base == "where" and len(args) == 3:
                    c = self.tr(args[0])
                    return c * self.tr(args[1]) + (1 - c) * self.tr(args[2])
                if base in _UNARY and len(args) == 1:
                    return _UNARY[base](self.tr(args[0]))
                if base in _BINARY and len(args) == 2:
                    return _BINARY[base](self.tr(args[0]), self.tr(args[1]))
                if base in ("zeros_like", "zeros") and args:
                    return sp.Integer(0)
                if base in ("ones_like", "ones") and args:
                    return sp.Integer(1)
            raise Untranslatable(f"call {name}")
        if isinstance(n, ast.IfExp):
            raise Untranslatable("conditional expression")
        raise Untranslatable(type(n).__name__)


def inline_single_return(fn: ast.FunctionDef) -> Tuple[ast.expr, Dict[str, ast.expr]]:
    """Body = simple assignments to fresh locals followed by one return."""
    locals_: Dict[str, ast.expr] = {}
    ret = None
    for st in fn.body:
        if isinstance(st, ast.Expr) and isinstance(st.value, ast.Constant):
            continue  # docstring
        if isinstance(st, ast.Assign) and len(st.targets) == 1 and isinstance(st.targets[0], ast.Name):
            locals_[st.targets[0].id] = st.value
            continue
        if isinstance(st, ast.AnnAssign) and isinstance(st.target, ast.Name) and st.value is not None:
            locals_[st.target.id] = st.value
            continue
        if isinstance(st, ast.Return) and st.value is not None:
            ret = st.value
            break
        raise Untranslatable(f"statement {type(st).__name__} in {fn.name}")
    if ret is None:
        raise Untranslatable(f"no return in {fn.name}")
    return ret, locals_


def function_term(fn: ast.FunctionDef, env: Dict[str, sp.Expr]) -> Tuple[sp.Expr, Translator]:
    """Term of a straight-line numpy function whose locals are single assignments."""
    ret, locals_ = inline_single_return(fn)
    t = Translator(env)
    for name, e in locals_.items():  # in source order
        t.env[name] = t.tr(e)
    return t.tr(ret), t


def is_zero(expr: sp.Expr, positive: Tuple[sp.Symbol, ...] = (), points: int = 8) -> Tuple[Optional[bool], str]:
    """(True, how) if the term is identically zero, (False, witness) if provably not, (None, why)."""
    e = sp.expand(expr)
    if e == 0:
        return True, "expand"
    try:
        s = sp.simplify(sp.powsimp(sp.expand_power_base(sp.expand(e), force=True), force=True))
        if s == 0:
            return True, "simplify"
        s2 = sp.simplify(sp.expand(sp.powsimp(sp.powdenest(e, force=True), force=True)))
        if s2 == 0:
            return True, "powsimp"
    except Exception as ex:  # sympy limitation -> fall through to evaluation
        s = e
    # evaluate at exact points: a term that is non-zero at one point is not identically zero
    syms = sorted(e.free_symbols, key=lambda x: x.name)
    nz = None
    zeros = 0
    primes = [2, 3, 5, 7, 11, 13, 17, 19, 23, 29, 31, 37, 41, 43]
    for k in range(points):
        sub = {}
        for j, sy in enumerate(syms):
            if sy.name.startswith("MASK"):
                sub[sy] = sp.Integer((k >> (j % 3)) & 1)
            else:
                sub[sy] = sp.Rational(primes[(j + 2 * k) % len(primes)], primes[(j + k + 5) % len(primes)]) + k
        try:
            v = sp.N(e.subs(sub), 40)
        except Exception:
            continue
        if v.has(sp.nan, sp.zoo, sp.oo) or not v.is_number:
            continue
        if abs(v) > sp.Float("1e-25"):
            nz = (sub, v)
            break
        zeros += 1
    if nz is not None:
        return False, f"residual {sp.simplify(e)} = {sp.N(nz[1], 6)} at {{{', '.join(f'{k}={v}' for k, v in nz[0].items())}}}"
    if zeros >= max(4, points // 2):
        return True, f"zero at {zeros} exact evaluation points (normal form not reached)"
    return None, "could not normalise or evaluate"
