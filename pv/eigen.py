"""E6: eigen-API typestate.

Values produced by eigh / eigsh / eig / eigs are tracked along every acyclic path of a
function.  The returned / stored matrix must be the eigenvector matrix with its COLUMNS
permuted by a DESCENDING argsort keyed on the eigenvalues of the same solver call,
truncated to the requested number of COLUMNS (or produced by an iterative solver asked for
exactly that many), and real (symmetric solvers only).
"""
from __future__ import annotations

import ast
from dataclasses import dataclass, replace
from typing import Dict, List, Optional, Tuple

from .model import dotted, kwarg, const, NOCONST
from .paths import enumerate_paths

SYMMETRIC = {"eigh", "eigsh", "eigvalsh"}
GENERAL = {"eig", "eigs"}
ITERATIVE = {"eigsh", "eigs"}
SVD = {"svd"}     # u, s, vh = svd(X): columns of u are eigenvectors of X X^T, already DESCENDING by singular value


@dataclass(frozen=True)
class Vals:
    call: int
    solver: str
    neg: bool = False  # negated
    abs_: bool = False
    permuted_desc: Optional[bool] = None  # vals themselves sorted


@dataclass(frozen=True)
class Vecs:
    call: int
    solver: str
    col_order: Optional[str] = None  # None (solver order), 'desc', 'asc', 'other'
    row_permuted: bool = False
    col_trunc: bool = False
    row_trunc: bool = False
    transposed: bool = False
    k_requested: bool = False  # iterative solver asked for exactly k vectors
    note: str = ""


@dataclass(frozen=True)
class Perm:
    call: int
    descending: Optional[bool]
    prefix: bool = False  # sliced to a leading prefix


class EigenWalk:
    def __init__(self, fn: ast.FunctionDef):
        self.fn = fn
        self.calls = 0

    # ---- expression evaluation
    def ev(self, e: ast.expr, env: Dict[str, object]):
        if isinstance(e, ast.Name):
            return env.get(e.id)
        if isinstance(e, ast.UnaryOp) and isinstance(e.op, ast.USub):
            v = self.ev(e.operand, env)
            if isinstance(v, Vals):
                return replace(v, neg=not v.neg)
            return None
        if isinstance(e, ast.Call):
            nm = dotted(e.func) or ""
            base = nm.split(".")[-1]
            if not nm and isinstance(e.func, ast.Attribute):
                base = e.func.attr
            if base in ("abs", "absolute", "fabs") and e.args:
                v = self.ev(e.args[0], env)
                if isinstance(v, Vals):
                    return replace(v, abs_=True, neg=False) if not v.neg else replace(v, abs_=True, neg=False)
                return None
            if base in ("real",) and e.args:
                return self.ev(e.args[0], env)
            if base == "argsort":
                # np.argsort(x) or x.argsort()
                target = None
                if isinstance(e.func, ast.Attribute) and not nm.startswith(("np.", "numpy.")):
                    target = self.ev(e.func.value, env)
                elif e.args:
                    target = self.ev(e.args[0], env)
                if isinstance(target, Vals):
                    return Perm(target.call, descending=target.neg)
                return None
            if base in ("flip", "flipud") and e.args:
                v = self.ev(e.args[0], env)
                if isinstance(v, Perm) and v.descending is not None:
                    return replace(v, descending=not v.descending)
                return None
            if base in ("to_memory_order", "asfortranarray", "ascontiguousarray", "asarray", "array", "copy") and e.args:
                return self.ev(e.args[0], env)
            if base == "copy" and isinstance(e.func, ast.Attribute):
                return self.ev(e.func.value, env)
            if base == "transpose" and isinstance(e.func, ast.Attribute):
                v = self.ev(e.func.value, env)
                if isinstance(v, Vecs):
                    return replace(v, transposed=not v.transposed)
                return None
            return None
        if isinstance(e, ast.Attribute) and e.attr == "T":
            v = self.ev(e.value, env)
            if isinstance(v, Vecs):
                return replace(v, transposed=not v.transposed)
            return None
        if isinstance(e, ast.Attribute) and e.attr == "real":
            return self.ev(e.value, env)
        if isinstance(e, ast.Subscript):
            base = self.ev(e.value, env)
            sl = e.slice
            if isinstance(base, Perm):
                if isinstance(sl, ast.Slice):
                    if sl.step is not None and const(sl.step) == -1 and sl.lower is None and sl.upper is None:
                        return replace(base, descending=None if base.descending is None else not base.descending)
                    if sl.step is None and (sl.lower is None or const(sl.lower) == 0):
                        return replace(base, prefix=True)
                return None
            if isinstance(base, Vals):
                p = self.ev(sl, env) if not isinstance(sl, (ast.Slice, ast.Tuple)) else None
                if isinstance(p, Perm):
                    return replace(base, permuted_desc=p.descending)
                if isinstance(sl, ast.Slice) and sl.step is not None and const(sl.step) == -1:
                    return base
                return base
            if isinstance(base, Vecs):
                return self.index_vecs(base, sl, env)
        return None

    def index_vecs(self, v: Vecs, sl: ast.expr, env) -> Optional[Vecs]:
        def is_full(s):
            return isinstance(s, ast.Slice) and s.lower is None and s.upper is None and s.step is None

        def is_prefix(s):
            return isinstance(s, ast.Slice) and s.step is None and (s.lower is None or const(s.lower) == 0) and s.upper is not None

        def is_reverse(s):
            return isinstance(s, ast.Slice) and s.step is not None and const(s.step) == -1 and s.lower is None and s.upper is None

        rows, cols = (sl.elts[0], sl.elts[1]) if isinstance(sl, ast.Tuple) and len(sl.elts) == 2 else (sl, None)
        if v.transposed:
            rows, cols = cols, rows
        out = v
        for which, s in (("row", rows), ("col", cols)):
            if s is None or is_full(s):
                continue
            if is_prefix(s):
                out = replace(out, **{f"{which}_trunc": True})
                continue
            if is_reverse(s):
                if which == "col":
                    # reversing ascending eigh order gives descending
                    new = {"desc": "asc", "asc": "desc", None: "rev-solver"}.get(out.col_order, "other")
                    out = replace(out, col_order=new)
                else:
                    out = replace(out, row_permuted=True)
                continue
            p = self.ev(s, env) if isinstance(s, ast.expr) else None
            if isinstance(p, Perm):
                if p.call != v.call:
                    return replace(out, col_order="other", note="permutation keyed on another solver call")
                if which == "col":
                    out = replace(out, col_order="desc" if p.descending else ("asc" if p.descending is False else "other"),
                                  col_trunc=out.col_trunc or p.prefix)
                else:
                    out = replace(out, row_permuted=True, row_trunc=out.row_trunc or p.prefix)
                continue
            # unknown index expression on the eigenvector matrix: element access (flipsign test) is fine
            return None
        return out

    # ---- statements
    def solver_call(self, e: ast.expr) -> Optional[Tuple[str, ast.Call]]:
        if isinstance(e, ast.Call):
            nm = dotted(e.func) or ""
            base = nm.split(".")[-1]
            if base in SYMMETRIC | GENERAL | SVD and ("linalg" in nm or nm == base):
                return base, e
        return None

    def run_path(self, items, env=None):
        """Yield ('return', value, node, env) for returns and ('store', value, node, env) for subscript stores."""
        env = {} if env is None else dict(env)
        events = []
        for kind, st in items:
            if kind == "return":
                if st.value is not None:
                    events.append(("return", self.ev(st.value, env), st, dict(env)))
                continue
            if kind != "stmt":
                continue
            if isinstance(st, ast.Assign) and len(st.targets) == 1:
                tgt, val = st.targets[0], st.value
                sc = self.solver_call(val)
                if sc is not None:
                    solver, call = sc
                    cid = id(call)
                    which = kwarg(call, "which")
                    note = ""
                    if which is not None and const(which) not in ("LM", "LA"):
                        note = f"which={ast.unparse(which)} does not select the largest eigenvalues"
                    for k in call.keywords:
                        if k.arg == "sigma":
                            note = "shift-invert (sigma=) selects eigenvalues near sigma, not the largest"
                    kreq = solver in ITERATIVE and (len(call.args) > 1 or kwarg(call, "k") is not None)
                    if solver in SVD:
                        fm = kwarg(call, "full_matrices")
                        if fm is None and len(call.args) > 1:
                            fm = call.args[1]
                        economy = fm is not None and const(fm) is False
                        if fm is not None and const(fm) not in (True, False):
                            note = "full_matrices is not a constant"
                        elif economy:
                            note = ("economy SVD (full_matrices=False) has only min(rows, columns) left singular vectors: fewer than requested "
                                    "when the unfolding has fewer columns than the requested count")
                        cu = kwarg(call, "compute_uv")
                        if isinstance(tgt, ast.Tuple) and len(tgt.elts) == 3 and (cu is None or const(cu) is True):
                            a, b, c = tgt.elts
                            if isinstance(a, ast.Name):
                                env[a.id] = Vecs(cid, solver, col_order="desc", note=note)
                            if isinstance(b, ast.Name):
                                env[b.id] = Vals(cid, solver, permuted_desc=True)
                            if isinstance(c, ast.Name):
                                env[c.id] = Vecs(cid, solver, col_order="desc", transposed=True, note=note)
                        continue
                    if isinstance(tgt, ast.Tuple) and len(tgt.elts) == 2:
                        a, b = tgt.elts
                        if isinstance(a, ast.Name):
                            env[a.id] = Vals(cid, solver)
                        if isinstance(b, ast.Name):
                            env[b.id] = Vecs(cid, solver, k_requested=kreq, note=note)
                    continue
                if isinstance(tgt, ast.Name):
                    v = self.ev(val, env)
                    if v is None:
                        env.pop(tgt.id, None)
                    else:
                        env[tgt.id] = v
                    continue
                if isinstance(tgt, ast.Subscript):
                    v = self.ev(val, env)
                    if isinstance(v, Vecs):
                        events.append(("store", v, st, dict(env)))
                    continue
            if isinstance(st, ast.Expr) and isinstance(st.value, ast.Call) and isinstance(st.value.func, ast.Attribute) \
                    and st.value.func.attr == "append" and st.value.args:
                v = self.ev(st.value.args[0], env)
                if isinstance(v, Vecs):
                    events.append(("store", v, st, dict(env)))
                continue
            if isinstance(st, ast.AugAssign):
                # v[:, i] *= -1 keeps the typestate; rebinding a whole name by other ops forgets it
                if isinstance(st.target, ast.Name):
                    env.pop(st.target.id, None)
                continue
        return events


def judge(v: Vecs) -> Tuple[str, str]:
    """('OK'|'BAD', reason) for an eigenvector matrix handed out as leading vectors."""
    problems = []
    if v.solver in GENERAL:
        if v.solver == "eigs":
            problems.append(f"{v.solver} is the general (non-symmetric) solver: result dtype is complex128")
        else:
            problems.append(f"{v.solver} is the general (non-symmetric) solver: eigenvalues come back complex and "
                            "eigenvectors are not guaranteed orthonormal")
    if v.note:
        problems.append(v.note)
    if v.transposed:
        problems.append("eigenvector matrix is returned transposed (eigenvectors as rows)")
    if v.row_permuted:
        problems.append("the sort permutation is applied to the ROWS of the eigenvector matrix (eigenvectors are its columns)")
    if v.row_trunc:
        problems.append("truncation is applied to rows instead of columns")
    if v.col_order != "desc":
        if v.col_order is None:
            problems.append("columns are left in solver order (ascending for eigh, unspecified for eigsh/eigs): not descending by eigenvalue")
        elif v.col_order == "asc":
            problems.append("columns are sorted by ASCENDING eigenvalue")
        elif v.col_order == "rev-solver":
            if v.solver != "eigh":
                problems.append("reversing solver order is only descending for eigh")
        else:
            problems.append("column order is not a descending sort keyed on this solver call's eigenvalues")
    if not v.col_trunc and not v.k_requested:
        problems.append("all eigenvectors are returned (no truncation to the requested count of columns)")
    if problems:
        return "BAD", "; ".join(problems)
    return "OK", f"{v.solver}: columns, descending by eigenvalue, truncated, real"
