"""De-extraction: functions that did not exist on the reviewed tree are treated as extracted code.

The properties are stated over the public API and every rule is anchored at functions of the reviewed tree.  Moving a block of such a
function into a new private helper (module-level function, method of the same class, or nested function) leaves behaviour unchanged, so it
must not change any verdict.  `tables/roles.json` records the functions of the reviewed tree (`known`); when a tree is loaded every call to
a function that is NOT in that list and is defined in the same module / class / enclosing function is inlined into its caller IN THE PARSED
TREE ONLY (never on disk).  The inlining is the textbook one and is exact:

    * parameters are bound to the arguments (simple arguments are substituted, others are bound to a local first);
    * locals of the helper that collide with names of the caller are renamed;
    * `return e` becomes an assignment to the call's target (or stays a return when the call is itself returned); a helper whose returns are
      not in tail position of an if/else chain (for instance inside a loop) is only inlined when the call is itself returned;
    * a helper that is exactly `return <expr>` is substituted as an expression wherever it is called (conditions of while loops, lambdas,
      comprehensions, short-circuit operands).

A helper that cannot be inlined exactly (generator, *args, recursion, return inside a loop at a non-returned call) is left as a call; the
rules then see an opaque call and answer UNDECIDED (analysis error) rather than guessing.  Mutants that hide a breakage inside a new helper
are seen through for the same reason.
"""
from __future__ import annotations

import ast
import copy
from typing import Dict, List, Optional, Set, Tuple

from . import roles

FuncDef = (ast.FunctionDef, ast.AsyncFunctionDef)
MAX_PASSES = 4


# ----------------------------------------------------------------------------------------------------------------- inventory
def function_keys(tree: ast.Module):
    """(key, node, class name or None, enclosing function node or None) for module-level functions, methods and directly nested functions."""
    seen: Dict[str, int] = {}

    def uniq(k):
        seen[k] = seen.get(k, 0) + 1
        return k if seen[k] == 1 else f"{k}#{seen[k]}"

    def nested(prefix, fn, cls):
        for sub in _direct_defs(fn):
            k = uniq(f"{prefix}.<locals>.{sub.name}")
            yield k, sub, cls, fn
            yield from nested(k, sub, cls)

    for node in tree.body:
        if isinstance(node, FuncDef):
            k = uniq(node.name)
            yield k, node, None, None
            yield from nested(k, node, None)
        elif isinstance(node, ast.ClassDef):
            for sub in node.body:
                if isinstance(sub, FuncDef):
                    k = uniq(f"{node.name}.{sub.name}")
                    yield k, sub, node.name, None
                    yield from nested(k, sub, node.name)


def _direct_defs(fn) -> List[ast.AST]:
    out = []

    def visit(node):
        for c in ast.iter_child_nodes(node):
            if isinstance(c, FuncDef):
                out.append(c)
            elif isinstance(c, (ast.Lambda, ast.ClassDef)):
                continue
            else:
                visit(c)
    visit(fn)
    return out


def known_keys(tree: ast.Module, modname: str) -> List[str]:
    return [f"{modname}:{k}" for k, _n, _c, _o in function_keys(tree)]


# ----------------------------------------------------------------------------------------------------------------- helpers
def _body(fn) -> List[ast.stmt]:
    b = list(fn.body)
    if b and isinstance(b[0], ast.Expr) and isinstance(b[0].value, ast.Constant) and isinstance(b[0].value.value, str):
        b = b[1:]
    return b


def _inlinable(fn) -> bool:
    a = fn.args
    if a.kwarg:
        return False
    for d in fn.decorator_list:
        if not (isinstance(d, ast.Name) and d.id == "staticmethod"):
            return False
    for x in ast.walk(fn):
        if isinstance(x, (ast.Yield, ast.YieldFrom, ast.Await, ast.Global, ast.Nonlocal)):
            return False
        if isinstance(x, ast.Call) and isinstance(x.func, ast.Name) and x.func.id == fn.name:
            return False
        if isinstance(x, ast.Call) and isinstance(x.func, ast.Name) and x.func.id in ("locals", "vars", "super"):
            return False
    return True


def _assigned_names(fn) -> Set[str]:
    """Names bound inside fn's own scope (comprehension targets and nested scopes excluded)."""
    out: Set[str] = set()

    def tgt(t):
        if isinstance(t, ast.Name):
            out.add(t.id)
        elif isinstance(t, (ast.Tuple, ast.List)):
            for e in t.elts:
                tgt(e)
        elif isinstance(t, ast.Starred):
            tgt(t.value)

    def visit(node):
        for c in ast.iter_child_nodes(node):
            if isinstance(c, FuncDef):
                out.add(c.name)
                continue
            if isinstance(c, (ast.Lambda, ast.ClassDef, ast.ListComp, ast.SetComp, ast.DictComp, ast.GeneratorExp)):
                if isinstance(c, ast.ClassDef):
                    out.add(c.name)
                # walrus inside comprehensions binds in the enclosing scope
                for w in ast.walk(c):
                    if isinstance(w, ast.NamedExpr):
                        tgt(w.target)
                continue
            if isinstance(c, ast.Assign):
                for t in c.targets:
                    tgt(t)
            elif isinstance(c, (ast.AnnAssign, ast.AugAssign)):
                tgt(c.target)
            elif isinstance(c, (ast.For, ast.AsyncFor)):
                tgt(c.target)
            elif isinstance(c, (ast.With, ast.AsyncWith)):
                for it in c.items:
                    if it.optional_vars is not None:
                        tgt(it.optional_vars)
            elif isinstance(c, ast.NamedExpr):
                tgt(c.target)
            elif isinstance(c, ast.ExceptHandler) and c.name:
                out.add(c.name)
            elif isinstance(c, (ast.Import, ast.ImportFrom)):
                for a in c.names:
                    out.add((a.asname or a.name).split(".")[0])
            visit(c)
    visit(fn)
    return out


def _all_names(fn) -> Set[str]:
    return {x.id for x in ast.walk(fn) if isinstance(x, ast.Name)} | {x.arg for x in ast.walk(fn) if isinstance(x, ast.arg)}


def _simple(e: ast.AST) -> bool:
    if isinstance(e, (ast.Name, ast.Constant)):
        return True
    if isinstance(e, ast.Attribute):
        return _simple(e.value)
    if isinstance(e, ast.UnaryOp) and isinstance(e.operand, ast.Constant):
        return True
    if isinstance(e, ast.Tuple):
        return all(_simple(x) for x in e.elts)
    return False


def _contains_return(node) -> bool:
    def visit(n):
        for c in ast.iter_child_nodes(n):
            if isinstance(c, ast.Return):
                return True
            if isinstance(c, FuncDef + (ast.Lambda, ast.ClassDef)):
                continue
            if visit(c):
                return True
        return False
    if isinstance(node, ast.Return):
        return True
    return visit(node)


def _terminates(stmts: List[ast.stmt]) -> bool:
    if not stmts:
        return False
    s = stmts[-1]
    if isinstance(s, (ast.Return, ast.Raise)):
        return True
    if isinstance(s, ast.If):
        return _terminates(s.body) and _terminates(s.orelse)
    return False


class _Subst(ast.NodeTransformer):
    """Replace parameter names by argument expressions and rename locals; does not descend into scopes that rebind the name."""

    def __init__(self, repl: Dict[str, ast.AST], ren: Dict[str, str]):
        self.repl, self.ren = repl, ren

    def visit_Name(self, n):
        if n.id in self.repl and isinstance(n.ctx, ast.Load):
            return ast.copy_location(copy.deepcopy(self.repl[n.id]), n)
        if n.id in self.ren:
            return ast.copy_location(ast.Name(id=self.ren[n.id], ctx=n.ctx), n)
        return n

    def _scoped(self, n, bound: Set[str]):
        hidden_r = {k: self.repl.pop(k) for k in list(self.repl) if k in bound}
        hidden_n = {k: self.ren.pop(k) for k in list(self.ren) if k in bound}
        try:
            return self.generic_visit(n)
        finally:
            self.repl.update(hidden_r)
            self.ren.update(hidden_n)

    def visit_Lambda(self, n):
        a = n.args
        return self._scoped(n, {x.arg for x in a.posonlyargs + a.args + a.kwonlyargs + ([a.vararg] if a.vararg else []) + ([a.kwarg] if a.kwarg else [])})

    def _comp(self, n):
        bound: Set[str] = set()
        for g in n.generators:
            for x in ast.walk(g.target):
                if isinstance(x, ast.Name):
                    bound.add(x.id)
        return self._scoped(n, bound)

    visit_ListComp = visit_SetComp = visit_DictComp = visit_GeneratorExp = _comp

    def visit_FunctionDef(self, n):
        a = n.args
        bound = {x.arg for x in a.posonlyargs + a.args + a.kwonlyargs + ([a.vararg] if a.vararg else []) + ([a.kwarg] if a.kwarg else [])}
        bound |= _assigned_names(n)
        if n.name in self.ren:
            n.name = self.ren[n.name]
        return self._scoped(n, bound)


class _Fail(Exception):
    pass


class Helper:
    def __init__(self, fn, kind: str, cls: Optional[str] = None):
        self.fn, self.kind, self.cls = fn, kind, cls           # kind: "top" | "method" | "static" | "nested"
        self.ok = _inlinable(fn)
        b = _body(fn)
        self.expr_only = self.ok and len(b) == 1 and isinstance(b[0], ast.Return) and b[0].value is not None

    def params(self) -> Tuple[List[ast.arg], List[Optional[ast.AST]], List[ast.arg], List[Optional[ast.AST]]]:
        a = self.fn.args
        pos = a.posonlyargs + a.args
        defaults = [None] * (len(pos) - len(a.defaults)) + list(a.defaults)
        return pos, defaults, a.kwonlyargs, list(a.kw_defaults)

    def bind(self, call: ast.Call, receiver: Optional[ast.AST]) -> Dict[str, ast.AST]:
        pos, defaults, kwonly, kwdefaults = self.params()
        if any(isinstance(x, ast.Starred) for x in call.args) or any(k.arg is None for k in call.keywords):
            raise _Fail
        args = list(call.args)
        if receiver is not None:
            args = [receiver] + args
        out: Dict[str, ast.AST] = {}
        if self.fn.args.vararg is not None:
            out[self.fn.args.vararg.arg] = ast.Tuple(elts=list(args[len(pos):]), ctx=ast.Load())      # *rest receives the surplus
            args = args[:len(pos)]
        if len(args) > len(pos):
            raise _Fail
        for p, a in zip(pos, args):
            out[p.arg] = a
        for k in call.keywords:
            if k.arg in out:
                raise _Fail
            out[k.arg] = k.value
        for p, d in list(zip(pos, defaults)) + list(zip(kwonly, kwdefaults)):
            if p.arg not in out:
                if d is None:
                    raise _Fail
                out[p.arg] = d
        if set(out) != {p.arg for p in pos + kwonly} | ({self.fn.args.vararg.arg} if self.fn.args.vararg is not None else set()):
            raise _Fail
        return out


# ----------------------------------------------------------------------------------------------------------------- the inliner
class Inliner:
    def __init__(self, owner, helpers: Dict[str, Helper], methods: Dict[str, Helper], cls: Optional[str]):
        self.owner = owner                      # function being rewritten
        self.helpers = helpers                  # callable by bare name
        self.methods = methods                  # callable as self.<name> / Class.<name>
        self.cls = cls
        # names of the caller before any inlining (the text of its nested helpers does not count)
        nested = [h.fn for h in helpers.values() if h.kind == "nested"]
        self.own_names = set()
        todo = [owner]
        while todo:
            n = todo.pop()
            if any(n is f for f in nested):
                continue
            if isinstance(n, ast.Name):
                self.own_names.add(n.id)
            elif isinstance(n, ast.arg):
                self.own_names.add(n.arg)
            todo.extend(ast.iter_child_nodes(n))
        self.counter = 0
        self.temps: Set[str] = set()
        self.introduced: Set[str] = set()
        self.done = 0

    # -- call resolution
    def resolve(self, call: ast.Call) -> Optional[Tuple[Helper, Optional[ast.AST]]]:
        f = call.func
        if isinstance(f, ast.Name) and f.id in self.helpers:
            h = self.helpers[f.id]
            if h.fn is self.owner or not h.ok:
                return None
            return h, None
        if isinstance(f, ast.Attribute) and isinstance(f.value, ast.Name) and f.attr in self.methods:
            h = self.methods[f.attr]
            if h.fn is self.owner or not h.ok:
                return None
            if f.value.id == "self" and h.kind == "method":
                return h, f.value
            if f.value.id in ("self", self.cls) and h.kind == "static":
                return h, None
            if f.value.id == self.cls and h.kind == "method":
                return h, None          # Class.method(obj, ...) : receiver is the first argument
        return None

    # -- expression-form
    def expr_inline(self, node: ast.AST) -> ast.AST:
        inl = self

        class T(ast.NodeTransformer):
            def visit_Call(self, c):
                self.generic_visit(c)
                r = inl.resolve(c)
                if r is None or not r[0].expr_only:
                    return c
                h, recv = r
                try:
                    b = h.bind(c, recv)
                except _Fail:
                    return c
                e = copy.deepcopy(_body(h.fn)[0].value)
                e = _Subst(dict(b), {}).visit(e)
                inl.done += 1
                return ast.copy_location(e, c)
        return T().visit(node)

    # -- statement-form
    def _hoistable_calls(self, expr: ast.AST) -> List[ast.Call]:
        """Calls to helpers that are evaluated unconditionally when expr is evaluated (document order)."""
        out: List[ast.Call] = []

        def visit(n):
            if isinstance(n, (ast.Lambda, ast.ListComp, ast.SetComp, ast.DictComp, ast.GeneratorExp)):
                if not isinstance(n, ast.Lambda) and n.generators:
                    visit(n.generators[0].iter)
                return
            if isinstance(n, ast.BoolOp):
                visit(n.values[0])
                return
            if isinstance(n, ast.IfExp):
                visit(n.test)
                return
            for c in ast.iter_child_nodes(n):
                visit(c)
            if isinstance(n, ast.Call) and self.resolve(n) is not None:
                out.append(n)
        visit(expr)
        return out

    def _hoistable_comps(self, expr: ast.AST) -> List[ast.AST]:
        """List comprehensions (and generator expressions handed straight to a call) that are evaluated unconditionally and whose element
        calls a helper that needs statement-form inlining."""
        out: List[ast.AST] = []

        def needs(comp) -> bool:
            if len(comp.generators) != 1 or comp.generators[0].is_async:
                return False
            for part in [comp.elt] + list(comp.generators[0].ifs):
                for c in ast.walk(part):
                    if isinstance(c, ast.Call):
                        r = self.resolve(c)
                        if r is not None and not r[0].expr_only:
                            return True
            return False

        def visit(n, parent=None):
            if isinstance(n, ast.Lambda):
                return
            if isinstance(n, (ast.ListComp, ast.GeneratorExp)):
                if isinstance(n, ast.GeneratorExp) and not (isinstance(parent, ast.Call) and len(parent.args) == 1 and parent.args[0] is n):
                    return
                if needs(n):
                    out.append(n)
                return
            if isinstance(n, (ast.SetComp, ast.DictComp)):
                return
            if isinstance(n, ast.BoolOp):
                visit(n.values[0], n)
                return
            if isinstance(n, ast.IfExp):
                visit(n.test, n)
                return
            for c in ast.iter_child_nodes(n):
                visit(c, n)
        visit(expr)
        return out

    def _needs_statement_form(self, expr: ast.AST) -> bool:
        for c in ast.walk(expr):
            if isinstance(c, ast.Call):
                r = self.resolve(c)
                if r is not None and not r[0].expr_only:
                    return True
        return False

    def _hoistable_boolops(self, expr: ast.AST) -> List[ast.BoolOp]:
        """`a and b` / `a or b` evaluated unconditionally whose LATER operands call a helper that needs statement form."""
        out: List[ast.BoolOp] = []

        def visit(n):
            if isinstance(n, (ast.Lambda, ast.ListComp, ast.SetComp, ast.DictComp, ast.GeneratorExp)):
                return
            if isinstance(n, ast.BoolOp):
                if any(self._needs_statement_form(v) for v in n.values[1:]):
                    out.append(n)
                    return
                visit(n.values[0])
                return
            if isinstance(n, ast.IfExp):
                visit(n.test)
                return
            for c in ast.iter_child_nodes(n):
                visit(c)
        visit(expr)
        return out

    def lower_boolop(self, st: ast.stmt, node: ast.BoolOp) -> List[ast.stmt]:
        """t = a; if t: t = b      for `a and b`  (if not t for `or`): the short circuit written out, so that b can take statements."""
        tmp = self._fresh("cond", self.own_names | self.temps | self.introduced)
        self.temps.add(tmp)

        def assign(v):
            return ast.Assign(targets=[ast.Name(id=tmp, ctx=ast.Store())], value=v)
        out: List[ast.stmt] = [assign(node.values[0])]
        for v in node.values[1:]:
            test: ast.expr = ast.Name(id=tmp, ctx=ast.Load())
            if isinstance(node.op, ast.Or):
                test = ast.UnaryOp(op=ast.Not(), operand=test)
            out.append(ast.If(test=test, body=[assign(v)], orelse=[]))
        _replace(st, node, ast.Name(id=tmp, ctx=ast.Load()))
        for n in out:
            ast.copy_location(n, st)
            ast.fix_missing_locations(n)
        self.done += 1
        return out + [st]

    def expand_comprehension(self, st: ast.stmt, comp) -> List[ast.stmt]:
        """[f(x) for x in it if c]  ->  acc = []; for x in it: if c: acc.append(f(x))   (the statement then reads acc)"""
        gen = comp.generators[0]
        outside = set()
        for x in _walk_excluding(self.owner, comp):
            if isinstance(x, ast.Name):
                outside.add(x.id)
            elif isinstance(x, ast.arg):
                outside.add(x.arg)
        ren: Dict[str, str] = {}
        for x in ast.walk(gen.target):
            if isinstance(x, ast.Name) and x.id in outside:
                ren[x.id] = self._fresh(x.id + "_item", outside | self.temps)
                self.temps.add(ren[x.id])
        if ren:
            for x in ast.walk(comp):
                if isinstance(x, ast.Name) and x.id in ren:
                    x.id = ren[x.id]
        acc = self._fresh("collected", self.own_names | self.temps | outside)
        self.temps.add(acc)
        body: List[ast.stmt] = [ast.Expr(value=ast.Call(func=ast.Attribute(value=ast.Name(id=acc, ctx=ast.Load()), attr="append", ctx=ast.Load()),
                                                         args=[comp.elt], keywords=[]))]
        for cond in reversed(gen.ifs):
            body = [ast.If(test=cond, body=body, orelse=[])]
        loop = ast.For(target=gen.target, iter=gen.iter, body=body, orelse=[])
        for x in ast.walk(gen.target):
            if isinstance(x, ast.Name):
                x.ctx = ast.Store()
        init = ast.Assign(targets=[ast.Name(id=acc, ctx=ast.Store())], value=ast.List(elts=[], ctx=ast.Load()))
        _replace(st, comp, ast.Name(id=acc, ctx=ast.Load()))
        new = [ast.copy_location(init, st), ast.copy_location(loop, st), st]
        for n in new[:2]:
            ast.fix_missing_locations(n)
        self.done += 1
        return new

    def _fresh(self, base: str, taken: Set[str]) -> str:
        if base not in taken:
            return base
        k = 1
        while f"{base}_{k}" in taken:
            k += 1
        return f"{base}_{k}"

    def instantiate(self, h: Helper, call: ast.Call, recv) -> Tuple[List[ast.stmt], List[ast.stmt]]:
        """(parameter bindings, body) of the helper instantiated for this call."""
        b = h.bind(call, recv)
        fn = h.fn
        assigned = _assigned_names(fn)
        pre: List[ast.stmt] = []
        repl: Dict[str, ast.AST] = {}
        ren: Dict[str, str] = {}
        # locals of the helper keep their names unless the caller uses the name for something else
        # (nor another inlined copy of a helper: every copy gets its own locals, so that each stays singly assigned)
        caller_other = set(self.own_names) | self.introduced
        for name in sorted(assigned):
            if name in b:
                continue
            if name in caller_other:
                ren[name] = self._fresh(f"{name}_{fn.name.strip('_')}", caller_other | assigned)
            self.introduced.add(ren.get(name, name))
        for p, arg in b.items():
            if _simple(arg) and p not in assigned:
                repl[p] = arg
            else:
                tgt = p if p not in caller_other else self._fresh(f"{p}_{fn.name.strip('_')}", caller_other | assigned)
                if tgt != p:
                    ren[p] = tgt
                self.introduced.add(tgt)
                if not (isinstance(arg, ast.Name) and arg.id == tgt):
                    pre.append(ast.copy_location(ast.Assign(targets=[ast.Name(id=tgt, ctx=ast.Store())], value=copy.deepcopy(arg)), call))
        body = [copy.deepcopy(s) for s in _body(fn)]
        sub = _Subst(repl, ren)
        body = [sub.visit(s) for s in body]
        return pre, body

    def _returns_to(self, stmts: List[ast.stmt], sink, loc) -> List[ast.stmt]:
        """Rewrite `return e` into sink(e); returns must be in tail position of if/else chains."""
        out: List[ast.stmt] = []
        for i, s in enumerate(stmts):
            if isinstance(s, ast.Return):
                out += sink(s.value if s.value is not None else ast.Constant(value=None), s)
                return out
            if _contains_return(s):
                if not isinstance(s, ast.If):
                    raise _Fail
                rest = stmts[i + 1:]
                body = s.body + ([copy.deepcopy(r) for r in rest] if not _terminates(s.body) else [])
                orelse = s.orelse + ([copy.deepcopy(r) for r in rest] if not _terminates(s.orelse) else [])
                nb = self._returns_to(body, sink, loc)
                no = self._returns_to(orelse, sink, loc)
                out.append(ast.copy_location(ast.If(test=s.test, body=nb or [ast.copy_location(ast.Pass(), s)], orelse=no), s))
                return out
            out.append(s)
            if isinstance(s, ast.Raise):
                return out
        out += sink(ast.Constant(value=None), loc)
        return out

    def inline_stmt(self, st: ast.stmt) -> Optional[List[ast.stmt]]:
        """One inlining step on a statement; None when nothing applies."""
        if isinstance(st, (ast.Assign, ast.AugAssign, ast.AnnAssign, ast.Expr, ast.Return, ast.Raise, ast.Assert, ast.Delete)):
            headers = [st]
        elif isinstance(st, ast.If):
            headers = [st.test]
        elif isinstance(st, (ast.For, ast.AsyncFor)):
            headers = [st.iter]
        elif isinstance(st, (ast.With, ast.AsyncWith)):
            headers = [it.context_expr for it in st.items]
        else:
            headers = []
        for hd in headers:
            for bo in self._hoistable_boolops(hd):
                return self.lower_boolop(st, bo)
        for hd in headers:
            for comp in self._hoistable_comps(hd):
                return self.expand_comprehension(st, comp)
        for hd in headers:
            for call in self._hoistable_calls(hd):
                h, recv = self.resolve(call)
                if h.expr_only:
                    continue
                try:
                    pre, body = self.instantiate(h, call, recv)
                    # (1) the call is the whole returned value: returns stay returns
                    if isinstance(st, ast.Return) and st.value is call:
                        new = pre + body
                        if not _terminates(body):
                            new.append(ast.copy_location(ast.Return(value=ast.Constant(value=None)), st))
                        self.done += 1
                        return new
                    # (2) the call is the whole assigned value: returns assign the target
                    if isinstance(st, ast.Assign) and st.value is call and len(st.targets) == 1:
                        tgt = st.targets[0]
                        new = pre + self._returns_to(body, lambda e, loc: [ast.copy_location(ast.Assign(targets=[copy.deepcopy(tgt)], value=e), loc)], st)
                        self.done += 1
                        return new
                    # (3) the call is an expression statement: returned values are dropped
                    if isinstance(st, ast.Expr) and st.value is call:
                        def drop(e, loc):
                            if isinstance(e, ast.Constant):
                                return []
                            return [ast.copy_location(ast.Expr(value=e), loc)]
                        new = pre + self._returns_to(body, drop, st)
                        self.done += 1
                        return new or [ast.copy_location(ast.Pass(), st)]
                    # (4) single trailing return: the call is replaced by the returned expression
                    if body and isinstance(body[-1], ast.Return) and not any(_contains_return(s) for s in body[:-1]):
                        val = body[-1].value if body[-1].value is not None else ast.Constant(value=None)
                        _replace(st, call, val)
                        self.done += 1
                        return pre + body[:-1] + [st]
                    # (5) general: a temporary holds the result
                    self.counter += 1
                    tmp = self._fresh(f"{h.fn.name.strip('_')}_result", self.own_names | self.temps)
                    self.temps.add(tmp)
                    new = pre + self._returns_to(body, lambda e, loc: [ast.copy_location(ast.Assign(targets=[ast.Name(id=tmp, ctx=ast.Store())], value=e), loc)], st)
                    _replace(st, call, ast.Name(id=tmp, ctx=ast.Load()))
                    self.done += 1
                    return new + [st]
                except _Fail:
                    continue
        return None

    def rewrite_block(self, stmts: List[ast.stmt]) -> List[ast.stmt]:
        out: List[ast.stmt] = []
        for st in stmts:
            if isinstance(st, FuncDef) and any(h.fn is st for h in self.helpers.values()):
                out.append(st)          # nested helper definition: removed later when unreferenced
                continue
            budget = 12
            pending = [st]
            while pending:
                s = pending.pop(0)
                new = self.inline_stmt(s) if budget > 0 else None
                if new is None:
                    # recurse into compound statements
                    for fld in ("body", "orelse", "finalbody"):
                        if hasattr(s, fld) and isinstance(getattr(s, fld), list) and not isinstance(s, FuncDef + (ast.ClassDef,)):
                            setattr(s, fld, self.rewrite_block(getattr(s, fld)))
                    if isinstance(s, ast.Try):
                        for hnd in s.handlers:
                            hnd.body = self.rewrite_block(hnd.body)
                    if hasattr(ast, "Match") and isinstance(s, ast.Match):
                        for c in s.cases:
                            c.body = self.rewrite_block(c.body)
                    out.append(s)
                else:
                    budget -= 1
                    # inlined statements take the line of the call: rules that order statements by line number keep working, and a
                    # report points at the call of the helper
                    line = getattr(s, "lineno", None)
                    if line is not None:
                        for stn in new:
                            for x in ast.walk(stn):
                                if hasattr(x, "lineno"):
                                    x.lineno = line
                                    x.end_lineno = line
                    pending = new + pending
        return out

    def run(self) -> int:
        self.owner.body = self.rewrite_block(self.owner.body)
        # expression-form helpers, anywhere
        for i, st in enumerate(self.owner.body):
            self.owner.body[i] = self.expr_inline(st)
        # drop nested helper definitions that are no longer referenced
        nested = [h.fn for h in self.helpers.values() if h.kind == "nested"]
        if nested:
            for fn in nested:
                refs = [x for x in _walk_excluding(self.owner, fn) if isinstance(x, ast.Name) and x.id == fn.name]
                if not refs:
                    _remove_stmt(self.owner, fn)
        ast.fix_missing_locations(self.owner)
        return self.done


def _walk_excluding(node, excluded):
    todo = [node]
    while todo:
        n = todo.pop()
        if n is excluded:
            continue
        yield n
        todo.extend(ast.iter_child_nodes(n))


def _replace(root: ast.AST, old: ast.AST, new: ast.AST) -> None:
    for n in ast.walk(root):
        for fld, val in ast.iter_fields(n):
            if val is old:
                setattr(n, fld, ast.copy_location(new, old))
                return
            if isinstance(val, list):
                for i, v in enumerate(val):
                    if v is old:
                        val[i] = ast.copy_location(new, old)
                        return


def _remove_stmt(root: ast.AST, st: ast.AST) -> None:
    for n in ast.walk(root):
        for fld in ("body", "orelse", "finalbody"):
            lst = getattr(n, fld, None)
            if isinstance(lst, list) and any(x is st for x in lst):
                lst[:] = [x for x in lst if x is not st]
                if not lst and fld == "body":
                    lst.append(ast.copy_location(ast.Pass(), st))
                return


# ----------------------------------------------------------------------------------------------------------------- renamed functions
def body_digest(fn) -> str:
    """Digest of a function's parameters and body (docstring and its own name left out): equal for a function that was only renamed."""
    import hashlib
    a = fn.args
    params = [x.arg for x in a.posonlyargs + a.args + a.kwonlyargs] + [a.vararg.arg if a.vararg else "", a.kwarg.arg if a.kwarg else ""]
    text = "|".join(params) + "#" + ";".join(ast.dump(st) for st in _body(fn))
    # a recursive function mentions its own name
    text = text.replace(f"id='{fn.name}'", "id='<self>'").replace(f"attr='{fn.name}'", "attr='<self>'")
    return hashlib.sha1(text.encode("utf-8")).hexdigest()[:16]


def known_digests(tree: ast.Module, modname: str) -> Dict[str, str]:
    return {f"{modname}:{k}": body_digest(n) for k, n, _c, o in function_keys(tree) if o is None}


def body_text(fn) -> str:
    a = fn.args
    params = ", ".join(x.arg for x in a.posonlyargs + a.args + a.kwonlyargs)
    return params + "\n" + "\n".join(ast.unparse(st) for st in _body(fn))


def known_sources(tree: ast.Module, modname: str) -> Dict[str, str]:
    return {f"{modname}:{k}": body_text(n) for k, n, _c, o in function_keys(tree) if o is None}


def undo_renames(tree: ast.Module, modname: str, known: Set[str]) -> int:
    """A function of the reviewed tree that is gone while a NEW function of the same module / class has exactly its parameters and body was
    renamed: it gets its reviewed name back (definition and the references inside the module), so that rules anchored at it still find it."""
    digests = roles.table().get("digests", {})
    if not digests:
        return 0
    present = {f"{modname}:{k}": (n, c) for k, n, c, o in function_keys(tree) if o is None}
    missing = {k: d for k, d in digests.items() if k.startswith(modname + ":") and k not in present}
    if not missing:
        return 0
    done = 0
    for key, (node, cls) in present.items():
        if key in known or (node.name.startswith("__") and node.name.endswith("__")):
            continue
        d = body_digest(node)
        cands = [k for k, dd in missing.items() if dd == d and (("." in k.split(":", 1)[1]) == (cls is not None))
                 and (cls is None or k.split(":", 1)[1].split(".")[0] == cls)]
        if len(cands) != 1:
            continue
        old = cands[0].split(":", 1)[1].split(".")[-1]
        new = node.name
        node.name = old
        for x in ast.walk(tree):
            if isinstance(x, ast.Name) and x.id == new and cls is None:
                x.id = old
            elif isinstance(x, ast.Attribute) and x.attr == new:
                x.attr = old
        del missing[cands[0]]
        done += 1
    # renamed AND edited in the same change: the new function of the same scope whose text is closest to the vanished one (mutual best match,
    # at least half of the lines in common)
    sources = roles.table().get("sources", {})
    if missing and sources:
        import difflib
        present = {f"{modname}:{k}": (n, c) for k, n, c, o in function_keys(tree) if o is None}
        fresh = {k: v for k, v in present.items() if k not in known and not (v[0].name.startswith("__") and v[0].name.endswith("__"))}
        scores = {}
        for mk in missing:
            if mk not in sources:
                continue
            m_cls = mk.split(":", 1)[1].split(".")[0] if "." in mk.split(":", 1)[1] else None
            for fk, (node, cls) in fresh.items():
                if cls != m_cls:
                    continue
                r = difflib.SequenceMatcher(None, sources[mk].splitlines(), body_text(node).splitlines()).ratio()
                if r >= 0.5:
                    scores[(mk, fk)] = r
        for (mk, fk), r in sorted(scores.items(), key=lambda kv: -kv[1]):
            if mk not in missing or fk not in fresh:
                continue
            if any(r2 > r for (m2, f2), r2 in scores.items() if (m2 == mk) != (f2 == fk) and m2 in missing and f2 in fresh):
                continue
            node, cls = fresh[fk]
            old = mk.split(":", 1)[1].split(".")[-1]
            new = node.name
            node.name = old
            for x in ast.walk(tree):
                if isinstance(x, ast.Name) and x.id == new and cls is None:
                    x.id = old
                elif isinstance(x, ast.Attribute) and x.attr == new:
                    x.attr = old
            del missing[mk]
            del fresh[fk]
            done += 1
    return done


# ----------------------------------------------------------------------------------------------------------------- entry point
def apply(tree: ast.Module, modname: str) -> int:
    known = roles.table().get("known")
    if not known:
        return 0
    known = set(known)
    undo_renames(tree, modname, known)
    entries = list(function_keys(tree))
    new_top: Dict[str, Helper] = {}
    new_methods: Dict[str, Dict[str, Helper]] = {}
    new_nested: Dict[int, Dict[str, Helper]] = {}
    for key, node, cls, outer in entries:
        if f"{modname}:{key}" in known:
            continue
        if node.name.startswith("__") and node.name.endswith("__"):
            continue
        if outer is not None:
            new_nested.setdefault(id(outer), {})[node.name] = Helper(node, "nested", cls)
        elif cls is not None:
            static = any(isinstance(d, ast.Name) and d.id == "staticmethod" for d in node.decorator_list)
            new_methods.setdefault(cls, {})[node.name] = Helper(node, "static" if static else "method", cls)
        else:
            new_top[node.name] = Helper(node, "top")
    if not new_top and not new_methods and not new_nested:
        return 0
    total = 0
    for _ in range(MAX_PASSES):
        done = 0
        for key, node, cls, outer in entries:
            helpers = dict(new_top)
            helpers.update(new_nested.get(id(node), {}))
            # a local or parameter of the caller that shadows a helper name disables it
            shadow = (_assigned_names(node) | {a.arg for a in node.args.posonlyargs + node.args.args + node.args.kwonlyargs}) - set(new_nested.get(id(node), {}))
            helpers = {k: v for k, v in helpers.items() if k not in shadow}
            methods = new_methods.get(cls, {}) if cls else {}
            if not helpers and not methods:
                continue
            # refresh summaries (bodies of helpers may have changed in the previous pass)
            for h in list(helpers.values()) + list(methods.values()):
                h.__init__(h.fn, h.kind, h.cls)
            done += Inliner(node, helpers, methods, cls).run()
        total += done
        if not done:
            break
    return total
