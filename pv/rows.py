"""E4a: symbolic row counts.

A path-based abstract evaluator that assigns to every array value a symbolic number of
rows (a sympy expression over the parameters' sizes) and to every integer value a symbolic
integer.  Used for IX-cnt (equal row counts of subs / vals / weights handed to a
constructor or returned as a sample triple).

Well-formedness of operands is assumed: rows(x.subs) == rows(x.vals) == x.nnz.
Unknown constructs give `None` (unknown), never a guess.
"""
from __future__ import annotations

import ast
import itertools
from dataclasses import dataclass
from typing import Dict, List, Optional, Tuple, Union

import sympy as sp

from .model import Program, FuncInfo, dotted, kwarg, const, NOCONST
from .paths import enumerate_paths, PathLimit

_fresh = itertools.count()


def fresh(prefix: str, **assump) -> sp.Symbol:
    return sp.Symbol(f"{prefix}#{next(_fresh)}", integer=True, nonnegative=True, **assump)


@dataclass(frozen=True)
class Arr:
    rows: Optional[sp.Expr]  # None = unknown
    cols: Optional[sp.Expr] = None
    ndim: Optional[int] = None  # 1 = vector (rows = length), 2 = matrix
    unique: bool = False  # rows pairwise distinct (np.unique(axis=0) lineage)
    tag: str = ""


@dataclass(frozen=True)
class Int:
    v: Optional[sp.Expr]


@dataclass(frozen=True)
class Tup:
    elts: tuple


@dataclass(frozen=True)
class Obj:
    """A pyttb object (sptensor / tensor / ktensor parameter) named by its access path."""
    path: str
    cls: Optional[str] = None


Value = Union[Arr, Int, Tup, Obj, None]

ELEMENTWISE = {"ceil", "floor", "abs", "absolute", "sqrt", "exp", "log", "logical_not", "isin", "sign",
               "isinf", "isnan", "square", "negative", "asarray", "ascontiguousarray", "asfortranarray",
               "array", "copy", "squeeze", "flatten", "ravel", "int64", "float64", "nan_to_num", "power",
               "logical_and", "logical_or", "logical_xor", "maximum", "minimum", "multiply", "add", "subtract",
               "divide", "equal", "not_equal", "greater", "less", "atleast_1d", "fabs", "round", "to_memory_order"}
ROW_PRESERVING_METHODS = {"astype", "copy", "squeeze", "flatten", "ravel", "conj", "round", "clip", "__abs__", "view", "dot"}


def sym(name: str) -> sp.Symbol:
    return sp.Symbol(name, integer=True, nonnegative=True)


class RowEval:
    def __init__(self, prog: Program, depth: int = 3):
        self.prog = prog
        self.depth = depth
        self.notes: List[str] = []

    # ---------------------------------------------------------------- parameters
    def bind_params(self, fi: FuncInfo, args: Optional[Dict[str, Value]] = None) -> Dict[str, Value]:
        env: Dict[str, Value] = {}
        for p in fi.params():
            if args and p in args and args[p] is not None:
                env[p] = args[p]
                continue
            ann = fi.annotation(p)
            txt = ast.unparse(ann) if ann is not None else ""
            if p in ("self", "cls"):
                env[p] = Obj(p, fi.cls)
            elif any(t in txt for t in ("sptensor", "ttb.tensor", "ktensor", "ttensor", "tenmat")) and "ndarray" not in txt:
                env[p] = Obj(p, None)
            elif txt in ("int", "Optional[int]") or txt.startswith("int"):
                env[p] = Int(sym(p))
            elif "ndarray" in txt:
                env[p] = Arr(sym(f"rows({p})"))
            elif txt in ("float", "Union[int, float]", "Union[float, int]"):
                env[p] = Int(sym(p))
            elif "float" in txt or "bool" in txt or "str" in txt:
                env[p] = None
            else:
                env[p] = Obj(p, None) if p in ("data", "other", "X", "A", "B") else None
        return env

    # ---------------------------------------------------------------- expressions
    def attr(self, base: Value, name: str) -> Value:
        if isinstance(base, Obj):
            path = f"{base.path}.{name}"
            if name in ("subs",):
                return Arr(sym(f"{base.path}.nnz"), sym(f"{base.path}.ndims"), 2, tag=path)
            if name in ("vals",):
                return Arr(sym(f"{base.path}.nnz"), sp.Integer(1), 2, tag=path)
            if name in ("nnz", "ndims", "ncomponents"):
                return Int(sym(path))
            if name in ("shape",):
                return Arr(sym(f"{base.path}.ndims"), None, 1, tag=path)
            if name in ("data", "weights", "factor_matrices", "core", "parts"):
                return Obj(path)
            return None
        if isinstance(base, Arr):
            if name == "size" and base.ndim == 1:
                return Int(base.rows)
            if name == "size" and base.rows is not None and base.cols is not None:
                return Int(base.rows * base.cols)
            if name == "T":
                return Arr(base.cols, base.rows, base.ndim)
            if name == "shape":
                return Tup((Int(base.rows), Int(base.cols)))
        return None

    def ev(self, e: ast.expr, env: Dict[str, Value], depth: int = 0) -> Value:
        if isinstance(e, ast.Constant):
            if isinstance(e.value, bool):
                return None
            if isinstance(e.value, int):
                return Int(sp.Integer(e.value))
            return None
        if isinstance(e, ast.Name):
            return env.get(e.id)
        if isinstance(e, (ast.Tuple, ast.List)):
            return Tup(tuple(self.ev(x, env, depth) for x in e.elts))
        if isinstance(e, ast.Attribute):
            return self.attr(self.ev(e.value, env, depth), e.attr)
        if isinstance(e, ast.UnaryOp):
            v = self.ev(e.operand, env, depth)
            if isinstance(v, Arr):
                return Arr(v.rows, v.cols, v.ndim)
            if isinstance(v, Int) and v.v is not None and isinstance(e.op, ast.USub):
                return Int(-v.v)
            return None
        if isinstance(e, ast.BinOp):
            a, b = self.ev(e.left, env, depth), self.ev(e.right, env, depth)
            if isinstance(a, Int) and isinstance(b, Int) and a.v is not None and b.v is not None:
                op = e.op
                if isinstance(op, ast.Add):
                    return Int(a.v + b.v)
                if isinstance(op, ast.Sub):
                    return Int(a.v - b.v)
                if isinstance(op, ast.Mult):
                    return Int(a.v * b.v)
                return Int(None)
            # broadcasting: the array operand decides the rows (a scalar or row-vector partner keeps them)
            if isinstance(a, Arr) and not isinstance(b, Arr):
                return Arr(a.rows, a.cols, a.ndim)
            if isinstance(b, Arr) and not isinstance(a, Arr):
                return Arr(b.rows, b.cols, b.ndim)
            if isinstance(a, Arr) and isinstance(b, Arr):
                if a.rows is not None and b.rows is not None and sp.simplify(a.rows - b.rows) == 0:
                    return Arr(a.rows, a.cols or b.cols, a.ndim or b.ndim)
                # (n,d) * (d,) broadcasting keeps the 2-D operand's rows
                if a.ndim == 2 and b.ndim == 1:
                    return Arr(a.rows, a.cols, 2)
                if b.ndim == 2 and a.ndim == 1:
                    return Arr(b.rows, b.cols, 2)
                return Arr(None)
            return None
        if isinstance(e, ast.Compare):
            a = self.ev(e.left, env, depth)
            b = self.ev(e.comparators[0], env, depth)
            for v in (a, b):
                if isinstance(v, Arr):
                    return Arr(v.rows, v.cols, v.ndim, tag="mask")
            return None
        if isinstance(e, ast.Subscript):
            return self.subscript(e, env, depth)
        if isinstance(e, ast.Call):
            return self.call(e, env, depth)
        if isinstance(e, ast.IfExp):
            a, b = self.ev(e.body, env, depth), self.ev(e.orelse, env, depth)
            return a if a == b else None
        return None

    def count_of(self, e: ast.expr, env, depth) -> Optional[sp.Expr]:
        v = self.ev(e, env, depth)
        if isinstance(v, Int):
            return v.v
        return None

    def shape_arg(self, e: ast.expr, env, depth) -> Tuple[Optional[sp.Expr], Optional[sp.Expr], Optional[int]]:
        """(rows, cols, ndim) of a shape argument like (n,), (n, 1), n."""
        if isinstance(e, (ast.Tuple, ast.List)):
            dims = [self.count_of(x, env, depth) for x in e.elts]
            if len(dims) == 1:
                return dims[0], None, 1
            if len(dims) == 2:
                return dims[0], dims[1], 2
            return (dims[0] if dims else None), None, len(dims)
        v = self.ev(e, env, depth)
        if isinstance(v, Int):
            return v.v, None, 1
        if isinstance(v, Tup) and v.elts:
            d = [x.v if isinstance(x, Int) else None for x in v.elts]
            return d[0], (d[1] if len(d) > 1 else None), len(d)
        return None, None, None

    def subscript(self, e: ast.Subscript, env, depth) -> Value:
        base = self.ev(e.value, env, depth)
        sl = e.slice
        if isinstance(base, Tup):
            c = const(sl)
            if isinstance(c, int) and -len(base.elts) <= c < len(base.elts):
                return base.elts[c]
            return None
        if isinstance(base, Obj):
            # tensor / sptensor indexed by a subscript array: one value per row
            k = self.ev(sl, env, depth) if not isinstance(sl, (ast.Slice,)) else None
            if isinstance(k, Arr):
                return Arr(k.rows, None, 1, tag="gather")
            return None
        if not isinstance(base, Arr):
            return None
        first = sl.elts[0] if isinstance(sl, ast.Tuple) and sl.elts else sl
        rest = sl.elts[1:] if isinstance(sl, ast.Tuple) else []
        ndim = base.ndim
        cols = base.cols
        if rest:
            r0 = rest[0]
            if isinstance(r0, ast.Constant) and r0.value is None:
                ndim, cols = 2, sp.Integer(1)
            elif isinstance(r0, ast.Slice):
                pass
            elif isinstance(r0, ast.Constant) or isinstance(self.ev(r0, env, depth), Int):
                ndim, cols = 1, None
        if isinstance(first, ast.Slice):
            if first.lower is None and first.upper is None:
                return Arr(base.rows, cols, ndim, unique=base.unique and not rest)
            lo = self.count_of(first.lower, env, depth) if first.lower is not None else sp.Integer(0)
            up = self.count_of(first.upper, env, depth) if first.upper is not None else base.rows
            if first.step is None and lo is not None and up is not None and base.rows is not None:
                if lo == 0:
                    return Arr(sp.Min(up, base.rows), cols, ndim, unique=base.unique)
                return Arr(None, cols, ndim, unique=base.unique)
            return Arr(None, cols, ndim, unique=base.unique and first.step is None)
        k = self.ev(first, env, depth)
        if isinstance(k, Arr):
            if k.tag == "mask":
                return Arr(fresh("count(mask)"), cols, ndim)
            return Arr(k.rows, cols, ndim)
        if isinstance(k, Int):
            # a single row
            return Arr(base.cols, None, 1) if base.ndim == 2 else None
        return Arr(None, cols, ndim)

    def call(self, e: ast.Call, env, depth) -> Value:
        nm = dotted(e.func) or ""
        base = nm.split(".")[-1] if nm else (e.func.attr if isinstance(e.func, ast.Attribute) else "")
        is_np = nm.startswith(("np.", "numpy."))
        args = e.args
        # ---- builtins
        if nm == "len" and args:
            v = self.ev(args[0], env, depth)
            if isinstance(v, Arr):
                return Int(v.rows)
            if isinstance(v, Tup):
                return Int(sp.Integer(len(v.elts)))
            return Int(None)
        if nm in ("min", "max") and len(args) >= 2:
            vs = [self.count_of(a, env, depth) for a in args]
            if all(v is not None for v in vs):
                return Int((sp.Min if nm == "min" else sp.Max)(*vs))
            return Int(None)
        if nm == "int" and args:
            v = self.ev(args[0], env, depth)
            return v if isinstance(v, Int) else Int(None)
        if nm in ("prod", "np.prod", "sum", "np.sum"):
            return Int(None)
        # ---- numpy constructors
        if is_np or nm in ("accumarray",):
            if base in ("zeros", "ones", "empty", "full") and args:
                r, c, nd = self.shape_arg(args[0], env, depth)
                return Arr(r, c, nd)
            if base in ("zeros_like", "ones_like", "empty_like") and args:
                v = self.ev(args[0], env, depth)
                if kwarg(e, "shape") is not None:
                    r, c, nd = self.shape_arg(kwarg(e, "shape"), env, depth)
                    return Arr(r, c, nd)
                return Arr(v.rows, v.cols, v.ndim) if isinstance(v, Arr) else None
            if base == "arange":
                if len(args) == 1:
                    return Arr(self.count_of(args[0], env, depth), None, 1, unique=True)
                if len(args) >= 2:
                    a, b = self.count_of(args[0], env, depth), self.count_of(args[1], env, depth)
                    return Arr(b - a if a is not None and b is not None else None, None, 1, unique=True)
            if nm.endswith("random.choice"):
                s = kwarg(e, "size") or (args[1] if len(args) > 1 else None)
                return Arr(self.count_of(s, env, depth) if s is not None else None, None, 1)
            if ".random." in nm and base in ("uniform", "random", "rand", "randint", "normal", "random_sample", "standard_normal", "poisson"):
                s = kwarg(e, "size")
                if s is None:
                    pos = {"uniform": 2, "normal": 2, "randint": 2, "random": 0, "random_sample": 0, "poisson": 1}.get(base)
                    if pos is not None and len(args) > pos:
                        s = args[pos]
                if s is None:
                    return Int(None) if base == "poisson" else None
                r, c, nd = self.shape_arg(s, env, depth)
                return Arr(r, c, nd)
            if base in ("vstack", "concatenate", "hstack") and args:
                seq = args[0]
                if isinstance(seq, (ast.Tuple, ast.List)):
                    parts = [self.ev(x, env, depth) for x in seq.elts]
                    if all(isinstance(p, Arr) for p in parts):
                        axis = kwarg(e, "axis")
                        ax = const(axis) if axis is not None else 0
                        if base == "hstack":
                            if all(p.ndim == 1 for p in parts):
                                ax = 0
                            else:
                                return Arr(parts[0].rows, None, 2)
                        if ax == 0:
                            if all(p.rows is not None for p in parts):
                                return Arr(sum((p.rows for p in parts), sp.Integer(0)), parts[0].cols, parts[0].ndim)
                            return Arr(None)
                        return Arr(parts[0].rows, None, 2)
                return Arr(None)
            if base == "unique" and args:
                v = self.ev(args[0], env, depth)
                if isinstance(v, Arr):
                    u = fresh("unique")
                    multi = any(kwarg(e, k) is not None and const(kwarg(e, k)) is True
                                for k in ("return_index", "return_inverse", "return_counts"))
                    first = Arr(u, v.cols, v.ndim, unique=True)
                    if multi:
                        outs = [first]
                        for k in ("return_index", "return_inverse", "return_counts"):
                            if kwarg(e, k) is not None and const(kwarg(e, k)) is True:
                                outs.append(Arr(v.rows if k == "return_inverse" else u, None, 1))
                        return Tup(tuple(outs))
                    return first
                return None
            if base in ("where", "nonzero", "flatnonzero") and len(args) == 1:
                v = self.ev(args[0], env, depth)
                c = fresh("count(where)")
                if base == "flatnonzero":
                    return Arr(c, None, 1)
                return Tup((Arr(c, None, 1), Arr(c, None, 1), Arr(c, None, 1)))
            if base in ("argsort", "sort", "cumsum") and args:
                v = self.ev(args[0], env, depth)
                return Arr(v.rows, v.cols, v.ndim) if isinstance(v, Arr) else None
            if base == "setdiff1d":
                return Arr(fresh("setdiff"), None, 1, unique=True)
            if base == "isin" and args:
                v = self.ev(args[0], env, depth)
                return Arr(v.rows, None, v.ndim, tag="mask") if isinstance(v, Arr) else None
            if base in ("logical_not", "logical_and", "logical_or") and args:
                v = self.ev(args[0], env, depth)
                return Arr(v.rows, v.cols, v.ndim, tag="mask") if isinstance(v, Arr) else None
            if base in ELEMENTWISE and args:
                for a in args:
                    v = self.ev(a, env, depth)
                    if isinstance(v, Arr):
                        return Arr(v.rows, v.cols, v.ndim, unique=v.unique and base in ("array", "copy", "asarray"))
                    if isinstance(v, Int) and base in ("ceil", "floor", "round"):
                        return Int(None)
                return None
            if base in ("dot", "matmul") and len(args) == 2:
                a, b = self.ev(args[0], env, depth), self.ev(args[1], env, depth)
                if isinstance(a, Arr):
                    return Arr(a.rows, b.cols if isinstance(b, Arr) else None, a.ndim)
                return None
            if base == "accumarray" and args:
                return Arr(None)
            if base == "reshape" and len(args) >= 2:
                r, c, nd = self.shape_arg(args[1], env, depth)
                return Arr(r, c, nd)
            return None
        # ---- methods on arrays
        if isinstance(e.func, ast.Attribute):
            recv = self.ev(e.func.value, env, depth)
            m = e.func.attr
            if isinstance(recv, Arr):
                if m in ROW_PRESERVING_METHODS:
                    return Arr(recv.rows, recv.cols, recv.ndim, unique=recv.unique and m == "copy")
                if m == "transpose":
                    return Arr(recv.cols, recv.rows, recv.ndim)
                if m == "reshape" and args:
                    if len(args) == 1:
                        r, c, nd = self.shape_arg(args[0], env, depth)
                    else:
                        r, c, nd = self.count_of(args[0], env, depth), self.count_of(args[1], env, depth), len(args)
                    if r is not None and r == -1:
                        r = recv.rows if (c is not None and c == 1) else None
                    return Arr(r, c, nd)
                if m in ("argsort",):
                    return Arr(recv.rows, None, 1)
                if m in ("sum", "max", "min", "all", "any", "item", "prod"):
                    return None
                return None
            if isinstance(recv, Obj):
                if m == "find":
                    return Tup((self.attr(recv, "subs"), self.attr(recv, "vals")))
                if m == "copy":
                    return recv
                return None
        # ---- trusted repo helper contracts (DESIGN §1 "Row helpers")
        if base == "tt_sub2ind" and len(args) >= 2:
            v = self.ev(args[1], env, depth)
            return Arr(v.rows if isinstance(v, Arr) else None, None, 1)
        if base == "tt_ind2sub" and len(args) >= 2:
            v = self.ev(args[1], env, depth)
            return Arr(v.rows if isinstance(v, Arr) else None, None, 2)
        if base == "tt_ismember_rows" and len(args) >= 2:
            v = self.ev(args[0], env, depth)
            r = v.rows if isinstance(v, Arr) else None
            return Tup((Arr(r, None, 1, tag="mask"), Arr(r, None, 1)))
        if base in ("tt_intersect_rows", "tt_setdiff_rows") and len(args) >= 2:
            return Arr(fresh(base[3:]), None, 1, unique=True)
        if base == "tt_union_rows" and len(args) >= 2:
            v = self.ev(args[0], env, depth)
            return Arr(fresh("union"), v.cols if isinstance(v, Arr) else None, 2, unique=True)
        # ---- a generator callable supplied by the caller, applied to a shape: returns an array of that shape
        if isinstance(e.func, ast.Name) and e.func.id in getattr(self, "_callable_params", ()) and len(args) == 1:
            r, c, nd = self.shape_arg(args[0], env, depth)
            if r is not None:
                return Arr(r, c, nd)
        # ---- repo functions: inline the callee
        fi = self.resolve(nm, env)
        if fi is not None and depth < self.depth:
            return self.summary(fi, e, env, depth)
        return None

    def resolve(self, nm: str, env) -> Optional[FuncInfo]:
        if not nm or "." in nm and not nm.startswith(("ttb.", "pyttb.")):
            return None
        short = nm.split(".")[-1]
        cands = [f for q, f in self.prog.functions.items() if f.name == short and f.cls is None and f.parent is None]
        return cands[0] if len(cands) == 1 else None

    def summary(self, fi: FuncInfo, call: ast.Call, env, depth) -> Value:
        params = fi.params()
        bound: Dict[str, Value] = {}
        for i, a in enumerate(call.args):
            if i < len(params) and not isinstance(a, ast.Starred):
                bound[params[i]] = self.ev(a, env, depth)
        for k in call.keywords:
            if k.arg:
                bound[k.arg] = self.ev(k.value, env, depth)
        rets = self.run(fi, bound, depth + 1)
        vals = [_canon(v) for v in rets if v is not None]
        if not vals:
            return None
        first = vals[0]
        if all(_same(first, v) for v in vals[1:]):
            return first
        return _join(vals)

    # ---------------------------------------------------------------- statements / paths
    def run(self, fi: FuncInfo, args: Optional[Dict[str, Value]] = None, depth: int = 0,
            on_stmt=None) -> List[Value]:
        """Evaluate every acyclic path; returns the list of returned values."""
        try:
            paths = enumerate_paths(fi.node.body, limit=600)
        except PathLimit:
            self.notes.append(f"path limit in {fi.short}")
            return []
        out = []
        if depth == 0:
            self._callable_params = {p for p in fi.params() if "Callable" in (ast.unparse(fi.annotation(p)) if fi.annotation(p) is not None else "")
                                     or p in ("function_handle",)}
        for items, end in paths:
            if end == "raise":
                continue
            env = self.bind_params(fi, args)
            subst: Dict[sp.Symbol, sp.Expr] = {}
            for kind, st in items:
                if kind in ("if-true", "if-false"):
                    self.condition(st.test, kind == "if-true", env, subst, depth)
                    continue
                if kind == "return":
                    if on_stmt is not None:
                        on_stmt(st, env, subst)
                    v = self.ev(st.value, env, depth) if st.value is not None else None
                    out.append(_subst(v, subst))
                    continue
                if kind == "loop-enter" and isinstance(st, ast.For):
                    self.assign(st.target, None, env)
                    continue
                if kind != "stmt":
                    continue
                if on_stmt is not None:
                    on_stmt(st, env, subst)
                self.stmt(st, env, depth)
        return out

    def stmt(self, st: ast.stmt, env, depth) -> None:
        if isinstance(st, ast.Assign):
            v = self.ev(st.value, env, depth)
            for t in st.targets:
                self.assign(t, v, env)
        elif isinstance(st, ast.AnnAssign) and st.value is not None:
            self.assign(st.target, self.ev(st.value, env, depth), env)
        elif isinstance(st, ast.AugAssign):
            if isinstance(st.target, ast.Name):
                cur = env.get(st.target.id)
                if isinstance(cur, Arr):
                    return  # element-wise update keeps rows (broadcast of a larger partner would raise)
                env[st.target.id] = Int(None) if isinstance(cur, Int) else None

    def assign(self, t: ast.expr, v: Value, env) -> None:
        if isinstance(t, ast.Name):
            if isinstance(v, Int) and v.v is None:
                v = Int(fresh(t.id))  # an unknown integer: opaque, but the same symbol wherever this binding is used
            elif isinstance(v, Arr) and v.rows is None:
                # an array of unknown length: opaque, but the same length wherever this binding is used (len(x), x.shape[0])
                v = Arr(fresh(f"rows({t.id})"), v.cols, v.ndim, v.unique, v.tag)
            env[t.id] = v
        elif isinstance(t, (ast.Tuple, ast.List)):
            if isinstance(v, Tup) and len(v.elts) == len(t.elts):
                for a, b in zip(t.elts, v.elts):
                    self.assign(a, b, env)
            else:
                for a in t.elts:
                    self.assign(a, None, env)

    def condition(self, test: ast.expr, truth: bool, env, subst, depth) -> None:
        """Record equalities between symbolic integers that hold on this branch."""
        if isinstance(test, ast.Compare) and len(test.ops) == 1:
            op = test.ops[0]
            if (isinstance(op, ast.Eq) and truth) or (isinstance(op, ast.NotEq) and not truth):
                a = self.count_of(test.left, env, depth)
                b = self.count_of(test.comparators[0], env, depth)
                if a is not None and b is not None:
                    if b.is_Symbol:
                        subst[b] = a
                    elif a.is_Symbol:
                        subst[a] = b


def _syms(v: Value) -> set:
    if isinstance(v, Arr):
        out = set()
        for x in (v.rows, v.cols):
            if x is not None:
                out |= x.free_symbols
        return out
    if isinstance(v, Int):
        return v.v.free_symbols if v.v is not None else set()
    if isinstance(v, Tup):
        out = set()
        for x in v.elts:
            out |= _syms(x)
        return out
    return set()


def _canon(v: Value) -> Value:
    """Rename opaque (fresh) symbols by order so that equal-shaped results of different paths compare equal."""
    fr = sorted((s for s in _syms(v) if "#" in s.name and not s.name.startswith("choice")), key=lambda s: int(s.name.split("#")[1]) if s.name.split("#")[1].isdigit() else 0)
    m = {s: sp.Symbol(f"{s.name.split('#')[0]}#c{i}", integer=True, nonnegative=True) for i, s in enumerate(fr)}
    return _subst(v, m)


def _subst(v: Value, s) -> Value:
    if not s or v is None:
        return v
    if isinstance(v, Arr):
        return Arr(v.rows.subs(s) if v.rows is not None else None, v.cols.subs(s) if v.cols is not None else None,
                   v.ndim, v.unique, v.tag)
    if isinstance(v, Int):
        return Int(v.v.subs(s) if v.v is not None else None)
    if isinstance(v, Tup):
        return Tup(tuple(_subst(x, s) for x in v.elts))
    return v


def _same(a: Value, b: Value) -> bool:
    if type(a) is not type(b):
        return False
    if isinstance(a, Arr):
        if a.rows is None or b.rows is None:
            return a.rows is b.rows
        return sp.simplify(a.rows - b.rows) == 0
    if isinstance(a, Int):
        return a.v is not None and b.v is not None and sp.simplify(a.v - b.v) == 0
    if isinstance(a, Tup):
        return len(a.elts) == len(b.elts) and all(_same(x, y) for x, y in zip(a.elts, b.elts))
    return a == b


def _join(vals: List[Value], choice=None) -> Value:
    """Different results on different paths of a callee: keep them as a mix over 0/1 CHOICE symbols
    (rows = c1*r1 + c2*r2 + ..., exactly one ci is 1); compare_counts tries every choice."""
    distinct: List[Value] = []
    for v in vals:
        if not any(_same(v, d) for d in distinct):
            distinct.append(v)
    if len(distinct) == 1:
        return distinct[0]
    if len(distinct) > 3:
        return Arr(None) if all(isinstance(v, Arr) for v in vals) else None
    if choice is None:
        k = next(_fresh)
        choice = [sp.Symbol(f"choice{i}#{k}", integer=True, nonnegative=True) for i in range(len(distinct))]
    if all(isinstance(v, Tup) for v in distinct) and len({len(v.elts) for v in distinct}) == 1:
        n = len(distinct[0].elts)
        return Tup(tuple(_join([v.elts[i] for v in distinct], choice) if not all(_same(distinct[0].elts[i], v.elts[i]) for v in distinct[1:])
                         else distinct[0].elts[i] for i in range(n)))
    if all(isinstance(v, Arr) and v.rows is not None for v in distinct) and len(choice) >= len(distinct):
        rows = sum((c * v.rows for c, v in zip(choice, distinct)), sp.Integer(0))
        return Arr(rows, distinct[0].cols, distinct[0].ndim)
    if all(isinstance(v, Arr) for v in distinct):
        return Arr(None)
    return None


def compare_counts(a: Optional[sp.Expr], b: Optional[sp.Expr]) -> Tuple[str, str]:
    """('EQ'|'NE'|'UNK', reason) for two symbolic row counts."""
    if a is None or b is None:
        return "UNK", "a count is unknown"
    ch = sorted({s_ for s_ in (a.free_symbols | b.free_symbols) if s_.name.startswith("choice")}, key=lambda s_: s_.name)
    if ch:
        # group the choice symbols by their join id; exactly one symbol of each group is 1
        groups: Dict[str, list] = {}
        for s_ in ch:
            groups.setdefault(s_.name.split("#")[1], []).append(s_)
        import itertools as _it
        verdicts = []
        for pick in _it.product(*[range(len(g)) for g in groups.values()]):
            sub = {}
            for g, i in zip(groups.values(), pick):
                for j, s_ in enumerate(g):
                    sub[s_] = 1 if j == i else 0
            verdicts.append(compare_counts(sp.simplify(a.subs(sub)), sp.simplify(b.subs(sub))))
        for v in verdicts:
            if v[0] == "NE":
                return "NE", "on one path of a callee: " + v[1]
        if all(v[0] == "EQ" for v in verdicts):
            return "EQ", verdicts[0][1]
        return "UNK", next(v[1] for v in verdicts if v[0] == "UNK")
    d = sp.simplify(a - b)
    if d == 0:
        return "EQ", f"{a}"
    if d.is_number:
        return "NE", f"counts differ by the constant {d}: {a} vs {b}"
    # a definite mismatch: both counts are closed forms over the same symbols and differ, or one is a
    # Min(...) of the other with an independent quantity (can be strictly smaller)
    fa, fb = a.free_symbols, b.free_symbols
    opaque = [s for s in (fa | fb) if "#" in s.name]
    mins_a = list(a.atoms(sp.Min))
    mins_b = list(b.atoms(sp.Min))
    for mins, other_expr, this in ((mins_a, b, a), (mins_b, a, b)):
        for m in mins:
            for arg in m.args:
                if sp.simplify(this.subs(m, arg) - other_expr) == 0:
                    return "NE", f"{this} can be smaller than {other_expr} (the Min is reached by its other argument)"
    if not opaque and d.is_number:
        return "NE", f"counts differ by the constant {d}: {a} vs {b}"
    if not opaque:
        return "NE", f"counts are different closed forms: {a} vs {b}"
    return "UNK", f"{a} vs {b}"
