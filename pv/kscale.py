"""E8: Kruskal scale algebra.

A Kruskal tensor denotes  sum_r  w_r * a_r^(1) o ... o a_r^(N).  A re-parameterisation rescales the weight of a
component and the matching column of each factor; the array is unchanged iff, per component,

        w' * prod_i s_i  =  w        (s_i = scale applied to the column of mode i)

This module interprets the statements of a ktensor method over that algebra for ONE generic component:

    w      current weight                      (sympy term, start  sigma * a,  sigma in {+1,-1} concrete, a > 0 symbolic)
    f_all  scale applied so far to EVERY mode   (statements inside `for i in range(self.ndims)` indexed by i)
    extra  product of scales applied to individually designated modes (constant index or a mode parameter)

so the component's total is  w * f_all**N * extra  with N the (symbolic, positive integer) number of modes.
Branches on parameters fork; `if norm > 0` takes the true side (a zero column makes the component zero whatever the
scales); `np.where(self.weights < 0)` selections are decided from the concrete sign.  Anything that writes weights
or factors in a form not listed here marks the path unmodelled (UNDECIDED, never a violation).
Equality of terms is decided by sympy normalisation, and refuted only by an exact rational witness.
"""
from __future__ import annotations

import ast
import itertools
from dataclasses import dataclass, field
from typing import Dict, List, Optional, Tuple

import sympy as sp

from .model import dotted, kwarg, const, NOCONST

A_ = sp.Symbol("a", positive=True)
N_ = sp.Symbol("N", integer=True, positive=True)
R_ = sp.Symbol("R", integer=True, positive=True)
C_ = sp.Symbol("c", real=True, nonzero=True)      # caller's scalar
COL = sp.Symbol("COL", positive=True)             # the column being rescaled

ALLMODE = "<all-modes>"
ONEMODE = "<one-mode>"
FLIST = "<factor-list>"


class Unmodelled(Exception):
    pass


@dataclass
class St:
    sigma: int
    w: sp.Expr
    f_all: sp.Expr = sp.Integer(1)
    extra: sp.Expr = sp.Integer(1)
    binds: Dict[str, object] = field(default_factory=dict)
    decisions: Tuple[str, ...] = ()
    unmodelled: Optional[str] = None
    repaired_sign: bool = False
    absorbed: bool = False
    in_all: int = 0
    nsym: int = 0

    def clone(self) -> "St":
        c = St(self.sigma, self.w, self.f_all, self.extra, dict(self.binds), self.decisions, self.unmodelled,
               self.repaired_sign, self.absorbed, self.in_all, self.nsym)
        c.zero_tau = getattr(self, "zero_tau", ())
        return c

    def total(self) -> sp.Expr:
        return self.w * self.f_all ** N_ * self.extra


def start(sigma: int) -> St:
    return St(sigma, sigma * A_)


WITNESS = [{N_: n, A_: a} for n in (1, 2, 3, 4) for a in (sp.Rational(7, 3),)]


def same(x: sp.Expr, y: sp.Expr) -> Tuple[Optional[bool], str]:
    """(True, '') equal by normalisation; (False, witness) refuted at an exact point; (None, '') neither."""
    d = sp.simplify(sp.powdenest(sp.expand_power_base(x - y, force=False), force=False))
    if d == 0:
        return True, ""
    free = (x - y).free_symbols
    for pt in WITNESS:
        sub = dict(pt)
        for s in free:
            if s not in sub:
                sub[s] = sp.Rational(5, 2) if s.is_positive else sp.Rational(-3, 2)
        try:
            v = sp.nsimplify(sp.simplify((x - y).subs(sub)))
        except Exception:
            continue
        if v.is_number and v != 0 and abs(complex(v)) > 1e-12:
            return False, f"N={sub.get(N_)}: {sp.simplify(x.subs(sub))} instead of {sp.simplify(y.subs(sub))}"
    return None, ""


class Interp:
    def __init__(self, cls_methods: Dict[str, ast.FunctionDef]):
        self.methods = cls_methods

    # ------------------------------------------------------------------ expressions
    def is_self(self, e, st: St) -> bool:
        return isinstance(e, ast.Name) and (e.id == "self" or st.binds.get(e.id) == "<self>")

    def factor_ref(self, e: ast.expr, st: St) -> Optional[str]:
        """ALLMODE / ONEMODE when e is <factors>[K] or <factors>[K][:, sel]; None otherwise."""
        if isinstance(e, ast.Subscript) and isinstance(e.value, ast.Subscript) and self._is_flist(e.value.value, st):
            return self._mode(e.value.slice, st)
        if isinstance(e, ast.Subscript) and self._is_flist(e.value, st):
            return self._mode(e.slice, st)
        return None

    def _is_flist(self, e, st: St) -> bool:
        if isinstance(e, ast.Attribute) and e.attr == "factor_matrices" and self.is_self(e.value, st):
            return True
        return isinstance(e, ast.Name) and st.binds.get(e.id) == FLIST

    def _mode(self, k: ast.expr, st: St) -> str:
        if isinstance(k, ast.Name) and st.binds.get(k.id) == ALLMODE:
            return ALLMODE
        return ONEMODE

    def selection(self, e: ast.expr, st: St) -> Optional[bool]:
        """For a subscript selector: does the statement apply to the generic component?  None = applies (unrestricted)."""
        parts = e.elts if isinstance(e, ast.Tuple) else [e]
        for p in parts:
            if isinstance(p, ast.Name) and isinstance(st.binds.get(p.id), tuple) and st.binds[p.id][0] == "sel":
                return st.binds[p.id][1]
        return None

    def ev(self, e: ast.expr, st: St) -> sp.Expr:
        if isinstance(e, ast.Constant) and isinstance(e.value, (int, float)) and not isinstance(e.value, bool):
            return sp.nsimplify(e.value)
        if isinstance(e, ast.Name):
            v = st.binds.get(e.id)
            if isinstance(v, sp.Expr):
                return v
            raise Unmodelled(f"value of `{e.id}`")
        if isinstance(e, ast.Attribute):
            if e.attr == "weights" and self.is_self(e.value, st):
                return st.w
            if e.attr == "ndims" and self.is_self(e.value, st):
                return N_
            if e.attr == "ncomponents" and self.is_self(e.value, st):
                return R_         # the number of components: an independent positive integer (a root taken per COMPONENT instead of per MODE)
            raise Unmodelled(ast.unparse(e))
        if isinstance(e, ast.Subscript):
            if self.factor_ref(e, st) is not None:
                return COL
            if isinstance(e.value, ast.Attribute) and e.value.attr == "weights" and self.is_self(e.value.value, st):
                return st.w
            if isinstance(e.value, ast.Name) and isinstance(st.binds.get(e.value.id), sp.Expr):
                return st.binds[e.value.id]
            raise Unmodelled(ast.unparse(e))
        if isinstance(e, ast.UnaryOp) and isinstance(e.op, ast.USub):
            return -self.ev(e.operand, st)
        if isinstance(e, ast.UnaryOp) and isinstance(e.op, ast.UAdd):
            return self.ev(e.operand, st)
        if isinstance(e, ast.BinOp):
            a, b = self.ev(e.left, st), self.ev(e.right, st)
            if isinstance(e.op, (ast.Mult, ast.MatMult)):
                return a * b
            if isinstance(e.op, ast.Div):
                return a / b
            if isinstance(e.op, ast.Pow):
                return a ** b
            if isinstance(e.op, ast.Add):
                return a + b
            if isinstance(e.op, ast.Sub):
                return a - b
            raise Unmodelled(ast.unparse(e))
        if isinstance(e, ast.Call):
            nm = (dotted(e.func) or "")
            base = nm.split(".")[-1] if nm else (e.func.attr if isinstance(e.func, ast.Attribute) else "")
            if base in ("diag", "diagflat", "array", "asarray", "float", "squeeze", "copy", "atleast_1d") and e.args:
                return self.ev(e.args[0], st)
            if base == "copy" and isinstance(e.func, ast.Attribute) and not e.args:
                return self.ev(e.func.value, st)
            if base == "sign" and e.args:
                return sp.sign(self.ev(e.args[0], st))
            if base in ("abs", "fabs", "absolute") and e.args:
                return sp.Abs(self.ev(e.args[0], st))
            if base == "sqrt" and e.args:
                return sp.sqrt(self.ev(e.args[0], st))
            if base in ("power", "float_power") and len(e.args) == 2:
                return self.ev(e.args[0], st) ** self.ev(e.args[1], st)
            if base in ("ones", "ones_like"):
                return sp.Integer(1)
            if base in ("multiply",) and len(e.args) == 2:
                return self.ev(e.args[0], st) * self.ev(e.args[1], st)
            if base in ("divide", "true_divide") and len(e.args) == 2:
                return self.ev(e.args[0], st) / self.ev(e.args[1], st)
            if base == "negative" and e.args:
                return -self.ev(e.args[0], st)
            if base == "norm" and e.args and self.factor_ref(e.args[0], st) is not None:
                st.nsym += 1
                return sp.Symbol(f"tau{st.nsym}", positive=True)
            raise Unmodelled(ast.unparse(e)[:60])
        raise Unmodelled(ast.unparse(e)[:60])

    # ------------------------------------------------------------------ statements
    def touches_model(self, node: ast.AST, st: St) -> bool:
        for x in ast.walk(node):
            if isinstance(x, ast.Attribute) and x.attr in ("weights", "factor_matrices") and self.is_self(x.value, st):
                return True
            if isinstance(x, ast.Name) and st.binds.get(x.id) == FLIST:
                return True
        return False

    def scale_factor(self, st: St, mode: str, s: sp.Expr) -> None:
        if mode == ALLMODE:
            st.f_all = st.f_all * s
        else:
            st.extra = st.extra * (s ** N_ if st.in_all else s)

    def assign(self, tgt: ast.expr, val: ast.expr, st: St, aug: Optional[ast.operator] = None) -> None:
        # ---- factor column / matrix
        mode = self.factor_ref(tgt, st)
        if mode is not None:
            sel = None
            if isinstance(tgt.value, ast.Subscript):
                sel = self.selection(tgt.slice, st)
            if sel is False:
                return
            if aug is not None:
                v = self.ev(val, st)
                s = v if isinstance(aug, (ast.Mult, ast.MatMult)) else (1 / v if isinstance(aug, ast.Div) else None)
                if s is None:
                    raise Unmodelled(ast.unparse(tgt))
            else:
                v = self.ev(val, st)
                s = sp.simplify(v / COL)
                if COL in s.free_symbols:
                    raise Unmodelled(f"`{ast.unparse(val)[:50]}` is not a rescaling of the column")
                refs = [x for x in ast.walk(val) if isinstance(x, ast.Subscript) and self.factor_ref(x, st) is not None
                        and not (isinstance(x.value, ast.Subscript) and self.factor_ref(x.value, st) is not None and False)]
                if refs and any(self.factor_ref(r, st) != mode for r in refs):
                    raise Unmodelled("factor of another mode on the right-hand side")
            self.scale_factor(st, mode, s)
            return
        # ---- weights
        is_w = (isinstance(tgt, ast.Attribute) and tgt.attr == "weights" and self.is_self(tgt.value, st)) or \
               (isinstance(tgt, ast.Subscript) and isinstance(tgt.value, ast.Attribute) and tgt.value.attr == "weights" and self.is_self(tgt.value.value, st))
        if is_w:
            if isinstance(tgt, ast.Subscript) and self.selection(tgt.slice, st) is False:
                return
            old = st.w
            WOLD = sp.Symbol("WOLD", real=True, nonzero=True)
            st.w = WOLD
            try:
                if aug is not None:
                    v = self.ev(val, st)
                    g = WOLD * v if isinstance(aug, ast.Mult) else (WOLD / v if isinstance(aug, ast.Div) else None)
                    if g is None:
                        raise Unmodelled(ast.unparse(tgt))
                else:
                    g = self.ev(val, st)
            finally:
                st.w = old
            if WOLD not in g.free_symbols:
                st.w = g                         # overwrite
                if g == 1:
                    st.absorbed = True
                return
            rho = sp.simplify(g / WOLD)
            if WOLD in rho.free_symbols:
                raise Unmodelled(f"weight update `{ast.unparse(val)[:50]}` is neither a rescaling nor an overwrite")
            st.w = old * (rho ** N_ if st.in_all else rho)
            return
        # ---- local bindings
        if isinstance(tgt, ast.Name):
            if isinstance(val, ast.Call):
                nm = (dotted(val.func) or "")
                base = nm.split(".")[-1] if nm else (val.func.attr if isinstance(val.func, ast.Attribute) else "")
                if base in ("where", "nonzero", "flatnonzero") and val.args and isinstance(val.args[0], ast.Compare):
                    c = val.args[0]
                    try:
                        lhs = self.ev(c.left, st)
                        rhs = self.ev(c.comparators[0], st)
                    except Unmodelled:
                        st.binds.pop(tgt.id, None)
                        return
                    d = sp.simplify(lhs - rhs)
                    op = c.ops[0]
                    truth = None
                    if isinstance(op, ast.Lt):
                        truth = d.is_negative
                    elif isinstance(op, ast.Gt):
                        truth = d.is_positive
                    elif isinstance(op, ast.LtE):
                        truth = d.is_nonpositive
                    elif isinstance(op, ast.GtE):
                        truth = d.is_nonnegative
                    if truth is None:
                        raise Unmodelled(f"selection `{ast.unparse(c)}` not decided from the sign")
                    st.binds[tgt.id] = ("sel", bool(truth))
                    if isinstance(op, (ast.Lt, ast.LtE)) and rhs == 0 and lhs == st.w:
                        st.repaired_sign = True
                    return
                if base == "copy" and isinstance(val.func, ast.Attribute) and self._is_flist(val.func.value, st):
                    st.binds[tgt.id] = FLIST
                    return
                if base == "copy" and isinstance(val.func, ast.Attribute) and self.is_self(val.func.value, st):
                    st.binds[tgt.id] = "<self>"
                    return
            if self._is_flist(val, st):
                st.binds[tgt.id] = FLIST
                return
            if isinstance(val, ast.ListComp) and isinstance(val.elt, ast.Call) and isinstance(val.elt.func, ast.Attribute) and val.elt.func.attr == "copy" \
                    and len(val.generators) == 1 and self._is_flist(val.generators[0].iter, st):
                st.binds[tgt.id] = FLIST
                return
            try:
                st.binds[tgt.id] = self.ev(val, st)
            except Unmodelled:
                if self.touches_model(val, st):
                    st.binds[tgt.id] = None
                else:
                    st.binds.pop(tgt.id, None)
            return
        if self.touches_model(tgt, st):
            raise Unmodelled(ast.unparse(tgt)[:60])

    def subst_args(self, t: ast.expr, st: St) -> ast.expr:
        """Replace callee parameters bound at an inlined call by the caller's argument expressions / defaults."""
        binds = st.binds

        class R(ast.NodeTransformer):
            def visit_Name(self, n):
                v = binds.get(n.id)
                if isinstance(v, tuple) and v[0] in ("arg", "const"):
                    return ast.parse(v[1], mode="eval").body
                return n
        return R().visit(ast.parse(ast.unparse(t), mode="eval").body)

    def atom_truth(self, a: ast.expr, st: St) -> Optional[bool]:
        facts = st.binds.get("<facts>", set())
        txt = ast.unparse(a)
        if txt in facts:
            return True
        if f"not ({txt})" in facts or f"not {txt}" in facts:
            return False
        if isinstance(a, ast.UnaryOp) and isinstance(a.op, ast.Not):
            r = self.atom_truth(a.operand, st)
            return None if r is None else not r
        if isinstance(a, ast.Constant):
            return bool(a.value)
        if isinstance(a, ast.Compare) and len(a.ops) == 1:
            l, op, r = a.left, a.ops[0], a.comparators[0]
            if isinstance(op, (ast.Is, ast.IsNot)) and isinstance(r, ast.Constant) and r.value is None:
                if isinstance(l, ast.Constant):
                    return (l.value is None) == isinstance(op, ast.Is)
                # a name known to be an int / in a range is not None
                lt = ast.unparse(l)
                if any(f.startswith(f"isinstance({lt}, int") or f == f"{lt} in range(self.ndims)" or f == f"{lt} is not None" for f in facts):
                    return isinstance(op, ast.IsNot)
                if f"{lt} is None" in facts:
                    return isinstance(op, ast.Is)
            if isinstance(op, (ast.Eq, ast.NotEq)) and isinstance(r, ast.Constant) and isinstance(l, ast.Constant):
                return (l.value == r.value) == isinstance(op, ast.Eq)
            if isinstance(op, (ast.Eq, ast.NotEq)) and isinstance(r, ast.Constant) and isinstance(r.value, str):
                lt = ast.unparse(l)
                if any(f.startswith(f"isinstance({lt}, int") for f in facts):
                    return isinstance(op, ast.NotEq)
            if isinstance(op, (ast.In, ast.NotIn)) and isinstance(l, ast.Constant) and l.value is None:
                return isinstance(op, ast.NotIn)
        return None

    def test(self, t: ast.expr, st: St) -> Optional[bool]:
        """Decide a branch condition from the state, or None (fork)."""
        if isinstance(t, ast.Compare) and len(t.ops) == 1:
            try:
                a, b = self.ev(t.left, st), self.ev(t.comparators[0], st)
                d = sp.simplify(a - b)
                op = t.ops[0]
                r = {ast.Gt: d.is_positive, ast.Lt: d.is_negative, ast.GtE: d.is_nonnegative, ast.LtE: d.is_nonpositive,
                     ast.Eq: (d == 0) or (False if d.is_nonzero else None), ast.NotEq: d.is_nonzero}.get(type(op))
                if r is not None:
                    return bool(r)
            except Unmodelled:
                pass
        t2 = self.subst_args(t, st)
        conj = t2.values if isinstance(t2, ast.BoolOp) and isinstance(t2.op, ast.And) else [t2]
        vals = [self.atom_truth(c, st) for c in conj]
        if any(v is False for v in vals):
            return False
        if all(v is True for v in vals):
            return True
        return None

    def learn(self, t: ast.expr, truth: bool, st: St) -> None:
        t2 = self.subst_args(t, st)
        facts = set(st.binds.get("<facts>", set()))
        if truth:
            for c in (t2.values if isinstance(t2, ast.BoolOp) and isinstance(t2.op, ast.And) else [t2]):
                facts.add(ast.unparse(c))
        else:
            if isinstance(t2, ast.BoolOp) and isinstance(t2.op, ast.Or):
                for c in t2.values:
                    facts.add(f"not ({ast.unparse(c)})")
            else:
                facts.add(f"not ({ast.unparse(t2)})")
                if isinstance(t2, ast.Compare) and len(t2.ops) == 1 and isinstance(t2.ops[0], ast.IsNot):
                    facts.add(f"{ast.unparse(t2.left)} is {ast.unparse(t2.comparators[0])}")
        st.binds["<facts>"] = facts

    def run_block(self, body: List[ast.stmt], states: List[St], returns: List[Tuple[St, ast.AST]]) -> List[St]:
        for s in body:
            nxt: List[St] = []
            for st in states:
                if st.unmodelled:
                    nxt.append(st)
                    continue
                try:
                    nxt.extend(self.run_stmt(s, st, returns))
                except Unmodelled as u:
                    st.unmodelled = f"{ast.unparse(s)[:60]}: {u}"
                    nxt.append(st)
            states = nxt
            if not states:
                break
        return states

    def run_stmt(self, s: ast.stmt, st: St, returns) -> List[St]:
        if isinstance(s, ast.Expr):
            if isinstance(s.value, ast.Constant):
                return [st]
            if isinstance(s.value, ast.Call) and isinstance(s.value.func, ast.Attribute) and self.is_self(s.value.func.value, st):
                m = s.value.func.attr
                if m in ("arrange",):
                    return [st]           # component permutation: scale-neutral (PS-k decides the pairing)
                if m in self.methods and m in ("normalize", "redistribute"):
                    return self.call(m, s.value, st)
            if self.touches_model(s, st):
                raise Unmodelled("call on the model")
            return [st]
        if isinstance(s, ast.Assign) and len(s.targets) == 1:
            self.assign(s.targets[0], s.value, st)
            return [st]
        if isinstance(s, ast.AugAssign):
            self.assign(s.target, s.value, st, aug=s.op)
            return [st]
        if isinstance(s, ast.Assert):
            if isinstance(s.test, ast.Constant) and not s.test.value:
                return []
            return [st]
        if isinstance(s, (ast.Pass, ast.Import, ast.ImportFrom)):
            return [st]
        if isinstance(s, ast.Raise):
            return []
        if isinstance(s, ast.Return):
            returns.append((st, s))
            return []
        if isinstance(s, ast.If):
            if isinstance(s.test, ast.Constant) and s.test.value is False:
                return self.run_block(s.orelse, [st], returns)
            # `assert False`-style rejections inside the branch end the path
            r = self.test(s.test, st)
            txt = ast.unparse(s.test)
            # "all weights are one" short-cut: feasible only for sigma=+1, a=1
            if "array_equal" in txt and "weights" in txt and "ones" in txt:
                out = []
                if st.sigma == 1:
                    t = st.clone()
                    t.w = t.w.subs(A_, 1)
                    t.decisions += ("weights all one",)
                    t.binds["<a=1>"] = True
                    out += self.run_block(s.body, [t], returns)
                f = st.clone()
                out += self.run_block(s.orelse, [f], returns)
                return out
            # norm > 0: the true side keeps the component; on the false side the column is zero (tau = 0): the component is zero
            # whatever the scales, but the weight must end as zero too (it is multiplied by the norm)
            if isinstance(s.test, ast.Compare) and isinstance(s.test.left, ast.Name) and isinstance(st.binds.get(s.test.left.id), sp.Symbol) \
                    and str(st.binds[s.test.left.id]).startswith("tau"):
                z = st.clone()
                z.zero_tau = getattr(st, "zero_tau", ()) + (st.binds[s.test.left.id],)
                z.decisions += ("zero column",)
                out = self.run_block(s.body, [st], returns)
                return out + self.run_block(s.orelse, [z], returns)
            if r is True:
                return self.run_block(s.body, [st], returns)
            if r is False:
                return self.run_block(s.orelse, [st], returns)
            t, f = st.clone(), st.clone()
            t.decisions += (txt,)
            f.decisions += (f"not ({txt})",)
            self.learn(s.test, True, t)
            self.learn(s.test, False, f)
            return self.run_block(s.body, [t], returns) + self.run_block(s.orelse, [f], returns)
        if isinstance(s, ast.For):
            it = ast.unparse(s.iter).replace(" ", "")
            if isinstance(s.target, ast.Name) and it in ("range(self.ndims)", "range(0,self.ndims)", "range(len(self.factor_matrices))"):
                st.binds[s.target.id] = ALLMODE
                st.in_all += 1
                out = self.run_block(s.body, [st], returns)
                for o in out:
                    o.in_all -= 1
                return out
            if isinstance(s.target, ast.Name) and it in ("range(self.ncomponents)", "range(0,self.ncomponents)", "range(len(self.weights))"):
                return self.run_block(s.body, [st], returns)
            if self.touches_model(s, st):
                raise Unmodelled(f"loop over `{ast.unparse(s.iter)[:40]}`")
            return [st]
        if isinstance(s, (ast.With, ast.Try)):
            return self.run_block(s.body, [st], returns)
        if self.touches_model(s, st):
            raise Unmodelled(type(s).__name__)
        return [st]

    def call(self, name: str, call: ast.Call, st: St) -> List[St]:
        """Inline an in-place method of the same class on the current state (one level)."""
        fn = self.methods[name]
        self.depth = getattr(self, "depth", 0) + 1
        try:
            if self.depth > 3:
                raise Unmodelled(f"recursive inlining of {name}")
            return self._call(name, fn, call, st)
        finally:
            self.depth -= 1

    def _call(self, name: str, fn, call: ast.Call, st: St) -> List[St]:
        params = [a.arg for a in fn.args.args][1:]
        sub = st.clone()
        saved = dict(sub.binds)
        sub.binds = {"<facts>": set(saved.get("<facts>", set()))}
        defaults = fn.args.defaults
        for p, d in zip(params[len(params) - len(defaults):], defaults):
            sub.binds[p] = ("const", ast.unparse(d))
        for p, a in zip(params, call.args):
            sub.binds[p] = ("arg", ast.unparse(self.subst_args(a, st)))
        for k in call.keywords:
            if k.arg:
                sub.binds[k.arg] = ("arg", ast.unparse(self.subst_args(k.value, st)))
        rets: List[Tuple[St, ast.AST]] = []
        ends = self.run_block(fn.body, [sub], rets)
        out = []
        for r in [x for x, _ in rets] + ends:
            keep = dict(saved)
            keep["<facts>"] = set(r.binds.get("<facts>", set())) | set(saved.get("<facts>", set()))
            r.binds = keep
            out.append(r)
        return out

    def run(self, name: str, sigma: int) -> Tuple[List[Tuple[St, ast.AST]], List[St]]:
        fn = self.methods[name]
        rets: List[Tuple[St, ast.AST]] = []
        ends = self.run_block(fn.body, [start(sigma)], rets)
        return rets, ends
