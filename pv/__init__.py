"""pv — static property checkers for sandialabs/pyttb (see /verif/DESIGN.md)."""
