"""E9: homogeneity degree of a result in one designated operand field (Kruskal weights, Tucker core).

Every multilinear kernel of a structured tensor is homogeneous of degree 1 in the weights (core): scaling all weights
by c scales the result by c.  The norm is degree 1 (square root of a degree-2 form), the mode-n Gram matrix handed to
the eigen-solver is degree 2.  The degree of an expression is computed bottom-up like a physical dimension:

    products / matrix products / outer / Khatri-Rao   add degrees        quotients subtract
    sums and differences need equal degrees (else MIXED = inhomogeneous)
    linear re-arrangements (reshape, tile, sum, transpose, indexing, copy, diag, ...) keep the degree
    sqrt halves, abs keeps, a literal zero / np.zeros is homogeneous of every degree (POLY)
    calls of other kernels of the same class use that kernel's own computed degree (memoised)

A degree that differs from the expected one is a definite defect (weights applied twice, or dropped); an expression
outside this table gives None = undecided.
"""
from __future__ import annotations

import ast
from fractions import Fraction
from typing import Dict, List, Optional, Union

from .model import dotted, const, NOCONST

POLY = "POLY"
MIXED = "MIXED"
Deg = Union[Fraction, str, None]

LINEAR = {"tile", "reshape", "squeeze", "transpose", "moveaxis", "swapaxes", "sum", "float", "to_memory_order", "diag", "array", "asarray", "copy", "expand_dims",
          "flatten", "ravel", "cumsum", "atleast_1d", "atleast_2d", "real", "conj", "mean", "asfortranarray", "ascontiguousarray",
          "abs", "fabs", "absolute", "negative", "trace", "flip", "hstack", "vstack", "concatenate", "stack", "cast", "item", "double",
          "full", "to_tensor", "tensor", "tenmat", "to_tenmat", "to_sptenmat", "toarray", "todense", "permute", "astype", "nansum",
          "list", "tuple", "norm", "spmatrix", "to_sptensor", "tocoo", "tocsr"}
PRODUCT = {"dot", "matmul", "multiply", "outer", "kron", "khatrirao", "einsum", "inner", "tensordot", "ttv", "ttm", "mttkrp", "innerprod", "ttt",
           "scale"}
ZERO = {"zeros", "zeros_like"}
DEG0 = {"argsort", "argmax", "argmin", "ones", "ones_like", "eye", "arange", "empty", "range", "len", "prod", "argsort", "argmax", "argmin", "setdiff1d", "shape", "isinstance",
        "get_mttkrp_factors", "tt_dimscheck", "sign", "log", "identity"}


def add(a: Deg, b: Deg) -> Deg:
    if a is None or b is None or "BOT" in (a, b):
        return None
    if MIXED in (a, b):
        return MIXED
    if a == POLY or b == POLY:
        return POLY
    return a + b


def sub(a: Deg, b: Deg) -> Deg:
    if a is None or b is None or "BOT" in (a, b):
        return None
    if MIXED in (a, b):
        return MIXED
    if a == POLY:
        return POLY
    if b == POLY:
        return None           # division by zero-like
    return a - b


def join(a: Deg, b: Deg) -> Deg:
    """degree of a sum / of a variable with several definitions"""
    if a == "BOT":
        return b
    if b == "BOT":
        return a
    if a is None or b is None:
        return None
    if MIXED in (a, b):
        return MIXED
    if a == POLY:
        return b
    if b == POLY:
        return a
    return a if a == b else MIXED


class DegreeOf:
    def __init__(self, methods: Dict[str, ast.FunctionDef], field: str):
        self.methods = methods
        self.field = field               # "weights" or "core"
        self.memo: Dict[str, Deg] = {}
        self.active: List[str] = []

    # -------------------------------------------------------------- per function
    def method_degree(self, name: str) -> Deg:
        if name in self.memo:
            return self.memo[name]
        if name in self.active:
            return "BOT"              # recursive re-entry (argument normalisation): contributes nothing new
        if name not in self.methods:
            return None
        self.active.append(name)
        try:
            rets, _ = self.run(self.methods[name])
            d: Deg = "BOT"
            for _, v in rets:
                d = join(d, v)
            d = None if d == "BOT" else d
        finally:
            self.active.pop()
        self.memo[name] = d
        return d

    def return_degrees(self, name: str) -> List[Deg]:
        """Degree of every return site of a method, separately."""
        if name not in self.methods:
            return []
        self.active.append(name)
        try:
            rets, _ = self.run(self.methods[name])
        finally:
            self.active.pop()
        return [v for _, v in rets]

    # -------------------------------------------------------------- forward interpretation of one function
    def run(self, fn: ast.FunctionDef, watch=()):
        """([(return node, degree)], {id(watched call): degree of its first argument at that point})"""
        self_name = fn.args.args[0].arg if fn.args.args else "self"
        env: Dict[str, Deg] = {a.arg: Fraction(0) for a in fn.args.args + fn.args.kwonlyargs}
        env[self_name] = Fraction(1)  # the object as a whole (passed to another kernel) carries its field once
        env["<self>"] = self_name     # type: ignore
        rets: List = []
        seen: Dict[int, Deg] = {}
        watch = set(watch)

        def probe(node, e):
            for c in ast.walk(node):
                if isinstance(c, ast.Call) and (dotted(c.func) or "").split(".")[-1] in watch and c.args:
                    v = self.ev(c.args[0], e)
                    seen[id(c)] = join(seen.get(id(c), "BOT"), v)

        def merge(a: Optional[dict], b: Optional[dict]) -> Optional[dict]:
            if a is None:
                return b
            if b is None:
                return a
            out = {}
            for k in set(a) | set(b):
                if k == "<self>":
                    out[k] = self_name
                elif k in a and k in b:
                    out[k] = join(a[k], b[k])
                else:
                    out[k] = a.get(k, b.get(k))     # defined on one side only: a use elsewhere would be an error anyway
            return out

        def assign(t, val, e):
            if isinstance(t, ast.Name):
                e[t.id] = val
            elif isinstance(t, ast.Subscript) and isinstance(t.value, ast.Name):
                e[t.value.id] = join(e.get(t.value.id, "BOT"), val)       # item store: weak update of the container
            elif isinstance(t, (ast.Tuple, ast.List)):
                for x in t.elts:
                    assign(x, val, e)

        def block(body, e) -> Optional[dict]:
            for st in body:
                if e is None:
                    return None
                if isinstance(st, (ast.FunctionDef, ast.AsyncFunctionDef, ast.ClassDef)):
                    continue
                if isinstance(st, ast.Return):
                    if st.value is not None:
                        probe(st.value, e)
                        rets.append((st, self.ev(st.value, e)))
                    return None
                if isinstance(st, ast.Raise):
                    return None
                if isinstance(st, ast.Assert):
                    if isinstance(st.test, ast.Constant) and not st.test.value:
                        return None
                    continue
                if isinstance(st, ast.Assign):
                    probe(st.value, e)
                    sv = self.solver_outputs(st.value, e)
                    if sv is not None and len(st.targets) == 1 and isinstance(st.targets[0], (ast.Tuple, ast.List)) \
                            and len(st.targets[0].elts) == len(sv):
                        for t, d in zip(st.targets[0].elts, sv):
                            assign(t, d, e)
                        continue
                    v = self.ev(st.value, e)
                    for t in st.targets:
                        assign(t, v, e)
                elif isinstance(st, ast.AnnAssign) and st.value is not None:
                    probe(st.value, e)
                    assign(st.target, self.ev(st.value, e), e)
                elif isinstance(st, ast.AugAssign):
                    v = self.ev(ast.BinOp(left=self._as_load(st.target), op=st.op, right=st.value), e)
                    if isinstance(st.target, ast.Name):
                        e[st.target.id] = v
                    else:
                        assign(st.target, v, e)
                elif isinstance(st, ast.Expr):
                    probe(st.value, e)
                    c = st.value
                    if isinstance(c, ast.Call) and isinstance(c.func, ast.Attribute) and c.func.attr in ("append", "extend", "insert") \
                            and isinstance(c.func.value, ast.Name) and c.args:
                        nm = c.func.value.id
                        e[nm] = join(e.get(nm, "BOT"), self.ev(c.args[-1], e))
                elif isinstance(st, ast.If):
                    probe(st.test, e)
                    a = block(st.body, dict(e))
                    b = block(st.orelse, dict(e))
                    e = merge(a, b)
                elif isinstance(st, (ast.For, ast.While)):
                    cur = dict(e)
                    for _ in range(6):
                        inner = dict(cur)
                        if isinstance(st, ast.For):
                            assign(st.target, self.ev(st.iter, inner), inner)
                        out = block(st.body, inner)
                        new = merge(cur, out)
                        if new == cur:
                            break
                        cur = new
                    else:
                        for k in cur:
                            if k != "<self>" and cur[k] != e.get(k):
                                cur[k] = None         # degree grows with the iteration count
                    e = cur
                    if st.orelse:
                        e = block(st.orelse, e)
                elif isinstance(st, ast.With):
                    e = block(st.body, e)
                elif isinstance(st, ast.Try):
                    a = block(st.body, dict(e))
                    for h in st.handlers:
                        a = merge(a, block(h.body, dict(e)))
                    e = a
                    if e is not None and st.finalbody:
                        e = block(st.finalbody, e)
            return e

        block(fn.body, env)
        return rets, {k: (None if v == "BOT" else v) for k, v in seen.items()}

    @staticmethod
    def _as_load(t: ast.expr) -> ast.expr:
        return ast.parse(ast.unparse(t), mode="eval").body

    def solver_outputs(self, e, env):
        """(eigenvalues, eigenvectors) of eigh/eigsh/eig/eigs(A): the values scale like A, unit-norm vectors are scale-free (degree 0);
        (u, s, vh) of svd(A) likewise."""
        if not isinstance(e, ast.Call):
            return None
        base = (dotted(e.func) or "").split(".")[-1]
        if base in ("eigh", "eigsh", "eig", "eigs") and e.args:
            return (self.ev(e.args[0], env), Fraction(0))
        if base == "svd" and e.args:
            return (Fraction(0), self.ev(e.args[0], env), Fraction(0))
        return None

    # -------------------------------------------------------------- expressions
    def ev(self, e, env: Dict[str, Deg]) -> Deg:
        self_name = env.get("<self>", "self")
        if isinstance(e, tuple):
            return self.ev(e[1], env)
        if isinstance(e, ast.Constant):
            if isinstance(e.value, (int, float)) and not isinstance(e.value, bool) and e.value == 0:
                return POLY
            return Fraction(0)
        if isinstance(e, ast.Name):
            if e.id in env:
                return env[e.id]
            return Fraction(0)          # globals, modules
        if isinstance(e, ast.Attribute):
            if isinstance(e.value, ast.Name) and e.value.id == self_name:
                if e.attr == self.field:
                    return Fraction(1)
                return Fraction(0)
            if e.attr in ("T", "real", "data", "vals", "flat"):
                return self.ev(e.value, env)
            if e.attr in ("shape", "size", "ndim", "ndims", "dtype", "order", "ncomponents", "subs", "nnz"):
                return Fraction(0)
            return self.ev(e.value, env)
        if isinstance(e, ast.Subscript):
            return self.ev(e.value, env)
        if isinstance(e, ast.Starred):
            return self.ev(e.value, env)
        if isinstance(e, (ast.List, ast.Tuple)):
            d: Deg = "BOT"
            for x in e.elts:
                d = join(d, self.ev(x, env))
            return Fraction(0) if d == "BOT" else d
        if isinstance(e, ast.ListComp) or isinstance(e, ast.GeneratorExp):
            inner = dict(env)
            for g in e.generators:
                for x in ast.walk(g.target):
                    if isinstance(x, ast.Name):
                        inner[x.id] = self.ev(g.iter, env)
            return self.ev(e.elt, inner)
        if isinstance(e, ast.UnaryOp):
            if isinstance(e.op, ast.Not):
                return Fraction(0)
            return self.ev(e.operand, env)
        if isinstance(e, ast.BinOp):
            a, b = self.ev(e.left, env), self.ev(e.right, env)
            if isinstance(e.op, (ast.Mult, ast.MatMult)):
                return add(a, b)
            if isinstance(e.op, (ast.Div, ast.FloorDiv)):
                return sub(a, b)
            if isinstance(e.op, (ast.Add, ast.Sub)):
                return join(a, b)
            if isinstance(e.op, ast.Pow):
                k = const(e.right)
                if isinstance(k, (int, float)) and a not in (None, MIXED):
                    return POLY if a == POLY else a * Fraction(k).limit_denominator(64)
                if a == Fraction(0) and b == Fraction(0):
                    return Fraction(0)
                return None
            return None
        if isinstance(e, ast.IfExp):
            return join(self.ev(e.body, env), self.ev(e.orelse, env))
        if isinstance(e, (ast.Compare, ast.BoolOp)):
            return Fraction(0)
        if isinstance(e, ast.Call):
            nm = dotted(e.func) or ""
            base = nm.split(".")[-1] if nm else (e.func.attr if isinstance(e.func, ast.Attribute) else "")
            args = [self.ev(a, env) for a in e.args]
            recv: Deg = Fraction(0)
            own_method = False
            if isinstance(e.func, ast.Attribute):
                is_module = nm.startswith(("np.", "numpy.", "ttb.", "scipy.", "math.", "sparse."))
                if not is_module:
                    recv = self.ev(e.func.value, env)
                    own_method = isinstance(e.func.value, ast.Name) and e.func.value.id == self_name
            if own_method and base in self.methods:
                d = self.method_degree(base)
                if d is None or d == "BOT":
                    return d
                # arguments built from the field add their degree (self.mttkrp(list-of-factors, n))
                extra: Deg = Fraction(0)
                for a in args:
                    extra = add(extra, a if a != POLY else Fraction(0))
                return add(d, extra)
            if base in ("sptensor", "sptenmat", "from_aggregator") and (nm.startswith(("ttb.", "pyttb.")) or nm in ("sptensor", "sptenmat", "cls") or base == "from_aggregator"):
                # (subs, vals, ...): the values carry the degree
                for k in e.keywords:
                    if k.arg == "vals":
                        return self.ev(k.value, env)
                return args[1] if len(args) >= 2 else (Fraction(0) if not args else None)
            if base in ("coo_matrix", "csr_array", "csr_matrix", "csc_matrix", "coo_array") and e.args:
                a0 = e.args[0]
                if isinstance(a0, ast.Tuple) and a0.elts:
                    return self.ev(a0.elts[0], env)     # (values, (rows, cols))
                return args[0]
            if base == "ktensor" and len(e.args) >= 2:
                f = args[0]
                return add(args[1], Fraction(0)) if f == Fraction(0) else None
            if base == "ttensor" and len(e.args) >= 2:
                f = args[1]
                return args[0] if f == Fraction(0) else None
            if base == "sqrt" and args:
                a = args[0]
                return a if a in (None, MIXED, POLY) else a / 2
            if base in ("power", "float_power") and len(args) == 2:
                k = const(e.args[1])
                if isinstance(k, (int, float)) and args[0] not in (None, MIXED, POLY):
                    return args[0] * Fraction(k).limit_denominator(64)
                return None
            if base in ZERO:
                return POLY
            if base in DEG0:
                return Fraction(0)
            if base in PRODUCT:
                d = recv
                for a in args:
                    d = add(d, a)
                return d
            if base in LINEAR:
                if isinstance(e.func, ast.Attribute) and not nm.startswith(("np.", "numpy.", "ttb.", "scipy.")):
                    # method on a value: x.sum(), x.T.copy(), X.double(); positional arguments are shapes / axes
                    return recv
                if args:
                    d0 = args[0]
                    if base in ("hstack", "vstack", "concatenate", "stack"):
                        return d0
                    return d0
                return Fraction(0)
            if base in ("sum",) and args:
                return args[0]
            if base in ("zip", "enumerate", "reversed", "sorted") and args:
                d = "BOT"
                for a in args:
                    d = join(d, a)
                return d
            if base in ("max", "min", "maximum", "minimum") and args:
                d = "BOT"
                for a in args:
                    d = join(d, a)
                return d
            return None
        return None


def fmt(d: Deg) -> str:
    if d is None:
        return "unknown"
    if d in (POLY, MIXED):
        return str(d)
    return str(d)
