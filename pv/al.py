"""E2: alias / ownership / mutation effects.

Flow-sensitive forward dataflow over the structured AST of every function, with function
summaries computed to a whole-program fixpoint.

Abstract value AV(kind, sh, dp, ud):
  kind  'nd' ndarray | 'list' | 'tuple' | 'imm' (scalars, str, None, tuples of ints) | 'obj' (pyttb
        object, cls may be known) | 'sparse' | 'seq' (array-like parameter: list or ndarray) | 'unk'
  sh    roots whose OBJECT this value may be (identity)          — set of (path, guards)
  dp    roots whose array STORAGE may be reachable from the value — derived through modelled operations only
  ud    roots possibly reachable through an operation the tables do not model (gives UNDECIDED, never VIOLATION)
A root path is `param` or `param.attr`; guards = frozenset of (bool parameter, value) under which the
relation holds (needed for the copy flags).
"""
from __future__ import annotations

import ast
from dataclasses import dataclass, field
from typing import Dict, FrozenSet, List, Optional, Set, Tuple

from .model import Program, FuncInfo, ClassInfo, dotted, kwarg, const, NOCONST, TENSOR_CLASSES, walk_no_nested
from . import npapi

Root = Tuple[str, FrozenSet[Tuple[str, bool]]]
E: FrozenSet = frozenset()


@dataclass(frozen=True)
class AV:
    kind: str = "unk"
    sh: FrozenSet[Root] = E
    dp: FrozenSet[Root] = E
    ud: FrozenSet[Root] = E
    cls: Optional[str] = None  # for kind obj
    why: str = ""  # provenance of the dp roots (diagnostics)

    def fresh(self) -> bool:
        return not self.dp and not self.ud


IMM = AV("imm")
UNK = AV("unk")
FRESH_ND = AV("nd")

# attribute kinds of the tensor classes (cross-checked against each __init__ by the C05 rule)
ATTR_KIND = {
    "tensor": {"data": "nd", "shape": "imm"},
    "sptensor": {"subs": "nd", "vals": "nd", "shape": "imm"},
    "ktensor": {"weights": "nd", "factor_matrices": "list"},
    "ttensor": {"core": "obj", "factor_matrices": "list"},
    "sumtensor": {"parts": "list"},
    "tenmat": {"data": "nd", "rindices": "nd", "cindices": "nd", "tshape": "imm"},
    "sptenmat": {"subs": "nd", "vals": "nd", "rdims": "nd", "cdims": "nd", "tshape": "imm"},
}
ALL_DATA_ATTRS = {a: k for c in ATTR_KIND.values() for a, k in c.items()}
ELEM_KIND = {"parts": "obj", "factor_matrices": "nd"}  # element kind of list-valued attributes (kept in AV.cls)


PART_CLASSES = ("tensor", "sptensor", "ktensor", "ttensor")
CORE_CLASSES = ("tensor", "sptensor")


def classes_of(av: "AV") -> List[str]:
    """Candidate tensor classes of an object value."""
    c = av.cls
    if isinstance(c, tuple):
        return list(c)
    if isinstance(c, str):
        return [c]
    return list(TENSOR_CLASSES)


def _merge_cls(a, b):
    if a == b:
        return a
    if a is None or b is None:
        return None
    sa = set(a) if isinstance(a, tuple) else {a}
    sb = set(b) if isinstance(b, tuple) else {b}
    return tuple(sorted(sa | sb))


def join(a: AV, b: AV) -> AV:
    if a is b:
        return a
    kind = a.kind if a.kind == b.kind else ("unk" if "unk" in (a.kind, b.kind) or {a.kind, b.kind} - {"nd", "imm"} else "nd|imm")
    if kind == "nd|imm":
        kind = "nd"  # array-or-scalar: treated as array for aliasing purposes
    if a.kind == b.kind == "obj":
        cls = _merge_cls(a.cls, b.cls)
    elif a.kind == b.kind == "list":
        cls = a.cls if a.cls == b.cls else None
    else:
        cls = a.cls or b.cls if kind == "obj" else None
    return AV(kind, a.sh | b.sh, a.dp | b.dp, a.ud | b.ud, cls, a.why or b.why)


def with_guard(av: AV, g: Tuple[str, bool]) -> AV:
    def add(rs):
        return frozenset((p, gs | {g}) for p, gs in rs)
    if not (av.sh or av.dp or av.ud):
        return av
    return AV(av.kind, add(av.sh), add(av.dp), add(av.ud), av.cls, av.why)


def consistent(gs: FrozenSet[Tuple[str, bool]]) -> bool:
    seen = {}
    for p, v in gs:
        if seen.setdefault(p, v) != v:
            return False
    return True


@dataclass
class Summary:
    mut: Set[Root] = field(default_factory=set)
    umut: Set[Root] = field(default_factory=set)
    ret: Optional[AV] = None
    fields: Dict[str, AV] = field(default_factory=dict)  # for __init__: attribute -> stored value
    mut_why: Dict[str, str] = field(default_factory=dict)
    cap: Set[Root] = field(default_factory=set)  # operand storage captured into the receiver (non-constructor stores)
    cap_why: Dict[str, str] = field(default_factory=dict)
    unknown_calls: Set[str] = field(default_factory=set)

    def key(self):
        r = self.ret
        return (frozenset(self.mut), frozenset(self.umut), frozenset(self.cap),
                None if r is None else (r.kind, r.sh, r.dp, r.ud, r.cls),
                tuple(sorted((k, (v.kind, v.sh, v.dp, v.ud)) for k, v in self.fields.items())))


class Engine:
    def __init__(self, prog: Program):
        self.prog = prog
        self.sums: Dict[str, Summary] = {}
        self.by_name: Dict[str, List[FuncInfo]] = {}
        self.methods_by_name: Dict[str, List[FuncInfo]] = {}
        for q, fi in prog.functions.items():
            if fi.parent:
                continue
            if fi.cls:
                self.methods_by_name.setdefault(fi.name, []).append(fi)
            else:
                self.by_name.setdefault(fi.name, []).append(fi)
        self.unmodelled: Set[str] = set()
        self.passes = 0
        self.override: Dict[str, Summary] = {}

    def summary_of(self, q: str) -> Optional[Summary]:
        if q in self.override:
            return self.override[q]
        return self.sums.get(q)

    def solve_attributed(self, violators: Set[str], max_passes: int = 8) -> Dict[str, Summary]:
        """Second fixpoint in which every CALL to a reported violator sees it as repaired.

        The summary stored for a function is still computed from its own body, so a finding that
        survives here originates in that function (or in non-accountable helpers it calls)."""
        funcs = [fi for fi in self.prog.functions.values() if not fi.parent and not fi.qualname.endswith(".setter")]
        stored: Dict[str, Summary] = {q: s for q, s in self.sums.items()}

        def cleaned(s: Summary) -> Summary:
            r = s.ret
            return Summary(set(), set(), None if r is None else AV(r.kind, r.sh, r.sh, E, r.cls), dict(s.fields))

        # start from optimistic (annotation-only) summaries for everything that is not a violator
        for fi in funcs:
            if fi.qualname not in violators:
                stored[fi.qualname] = Summary(ret=ret_kind_from_annotation(fi), fields=dict(self.sums[fi.qualname].fields))
        for p in range(max_passes):
            self.override = {q: (cleaned(s_) if q in violators else s_) for q, s_ in stored.items()}
            changed = False
            for fi in funcs:
                new = FuncAnalysis(self, fi).run()
                if new.key() != stored[fi.qualname].key():
                    changed = True
                stored[fi.qualname] = new
                self.override[fi.qualname] = cleaned(new) if fi.qualname in violators else new
            if not changed:
                break
        self.override = {}
        return stored

    def analyse_with_clean(self, fi: FuncInfo, violators: Set[str]) -> Summary:
        """Summary of fi when every other accountable violator is assumed repaired (no effects, fresh result)."""
        self.override = {}
        for q in violators:
            if q == fi.qualname:
                continue
            s = self.sums.get(q)
            if s is None:
                continue
            r = s.ret
            clean_ret = None if r is None else AV(r.kind, r.sh, r.sh, E, r.cls)
            self.override[q] = Summary(set(), set(), clean_ret, dict(s.fields))
        try:
            return FuncAnalysis(self, fi).run()
        finally:
            self.override = {}

    # ------------------------------------------------------------ fixpoint
    def solve(self, max_passes: int = 8) -> None:
        funcs = [fi for fi in self.prog.functions.values() if not fi.parent and not fi.qualname.endswith(".setter")]
        for fi in funcs:
            self.sums[fi.qualname] = Summary(ret=ret_kind_from_annotation(fi))
        for p in range(max_passes):
            changed = False
            for fi in funcs:
                new = FuncAnalysis(self, fi).run()
                if new.key() != self.sums[fi.qualname].key():
                    changed = True
                self.sums[fi.qualname] = new
            self.passes = p + 1
            if not changed:
                break

    # ------------------------------------------------------------ helpers
    def tensor_class_of(self, name: str) -> Optional[str]:
        """'ttb.tensor' / 'tensor' / 'pyttb.tensor' -> 'tensor' when it is one of the seven classes."""
        short = name.split(".")[-1]
        if short in TENSOR_CLASSES:
            return short
        return None

    def class_info(self, cls: str) -> Optional[ClassInfo]:
        return self.prog.classes.get(f"pyttb.{cls}.{cls}")

    def method(self, cls: str, name: str) -> Optional[FuncInfo]:
        ci = self.class_info(cls)
        if ci is None:
            # non tensor classes (optimizers, samplers)
            for q, c in self.prog.classes.items():
                if c.name == cls and name in c.methods:
                    return c.methods[name]
            return None
        return ci.methods.get(name)


def ret_kind_from_annotation(fi: FuncInfo) -> Optional[AV]:
    r = fi.node.returns
    if r is None:
        return None
    txt = ast.unparse(r)
    if txt.strip("'\"") == fi.cls and fi.cls in TENSOR_CLASSES:
        return AV("obj", E, E, E, fi.cls)
    k, c = kind_from_annotation(txt)
    if txt.startswith(("Tuple", "tuple")):
        return AV("tuple")
    if k in ("obj", "nd", "list", "imm"):
        return AV(k, E, E, E, c)
    return None


PROTECTED_KINDS = {"nd", "list", "seq", "sparse", "obj", "tuple"}


def kind_from_annotation(txt: str) -> Tuple[str, Optional[str]]:
    t = txt.replace("ttb.", "").replace("pyttb.", "").replace("np.", "").replace("typing.", "")
    t = t.replace("Optional[", "").replace('"', "").replace("'", "")
    if not t:
        return "unk", None
    tensor_hits = [c for c in TENSOR_CLASSES if _word_in(c, t)]
    has_nd = "ndarray" in t
    has_list = any(w in t for w in ("List[", "Sequence[", "list[", "Iterable["))
    if tensor_hits and not has_nd and not has_list:
        return "obj", tensor_hits[0] if len(tensor_hits) == 1 else tuple(sorted(tensor_hits))
    if tensor_hits and (has_nd or has_list):
        return "unk", None
    if has_list and has_nd and not t.startswith("Union"):
        return "list", None
    if has_list:
        return "list" if not has_nd else "seq", None
    if has_nd:
        if any(w in t for w in ("float", "int", "bool")) and "Union" in t:
            return "nd", None  # array-or-scalar: mutation matters when it is the array
        return "nd", None
    if t in ("OneDArray", "Shape", "MemoryLayout_") or "OneDArray" in t or "Shape" in t:
        return "seq", None
    if any(_word_in(w, t) for w in ("int", "float", "bool", "str", "Literal", "None", "Callable", "function_type",
                                     "Objectives", "Samplers", "TextIO", "complex", "integer", "fg_return", "Real")):
        return "imm", None
    if "sparse" in t or "coo_matrix" in t or "spmatrix" in t:
        return "sparse", None
    return "unk", None


def _word_in(w: str, t: str) -> bool:
    import re
    return re.search(rf"(?<![A-Za-z_]){re.escape(w)}(?![A-Za-z_])", t) is not None


class FuncAnalysis:
    def __init__(self, eng: Engine, fi: FuncInfo):
        self.eng = eng
        self.prog = eng.prog
        self.fi = fi
        self.sum = Summary()
        self.guards: List[Tuple[str, bool]] = []
        self.params = fi.params()
        self.bool_params = set()
        defaults = fi.param_defaults()
        for p in self.params:
            ann = fi.annotation(p)
            txt = ast.unparse(ann) if ann is not None else ""
            d = defaults.get(p)
            if txt == "bool" or (isinstance(d, ast.Constant) and isinstance(d.value, bool)):
                self.bool_params.add(p)
        self.is_init = fi.name == "__init__" and fi.cls is not None
        self.rets: List[AV] = []
        self.nesting = 0
        self.callable_alias: Dict[str, str] = {}
        for n in walk_no_nested(fi.node):
            if isinstance(n, ast.Assign) and len(n.targets) == 1 and isinstance(n.targets[0], ast.Name):
                v = n.value
                if isinstance(v, ast.Call) and (dotted(v.func) or "") == "cast" and len(v.args) == 2:
                    v = v.args[1]
                if isinstance(v, ast.Name) and v.id in self.params:
                    self.callable_alias[n.targets[0].id] = v.id
        # constants a bool parameter is re-assigned to inside the body (e.g. `copy = True`)
        self.bool_reassigned: Dict[str, Set[bool]] = {}
        for n in walk_no_nested(fi.node):
            if isinstance(n, ast.Assign):
                for t in n.targets:
                    if isinstance(t, ast.Name) and t.id in self.bool_params:
                        c = const(n.value)
                        self.bool_reassigned.setdefault(t.id, set()).add(c if isinstance(c, bool) else None)

    # ---------------------------------------------------------- entry
    def initial_env(self) -> Dict[str, AV]:
        env: Dict[str, AV] = {}
        fi = self.fi
        for i, p in enumerate(self.params):
            if i == 0 and fi.cls and not fi.is_staticmethod:
                if fi.is_classmethod:
                    env[p] = IMM
                elif self.is_init:
                    env[p] = AV("obj", E, E, E, fi.cls)  # the object under construction is fresh
                else:
                    r = frozenset({(p, E)})
                    env[p] = AV("obj", r, r, E, fi.cls)
                continue
            ann = fi.annotation(p)
            kind, cls = kind_from_annotation(ast.unparse(ann)) if ann is not None else ("unk", None)
            a = fi.node.args
            if (a.vararg and a.vararg.arg == p):
                kind = "tuple"
            if (a.kwarg and a.kwarg.arg == p):
                kind = "unk"
            if kind == "imm":
                env[p] = IMM
            else:
                r = frozenset({(p, E)})
                env[p] = AV(kind, r, r, E, cls)
        return env

    def run(self) -> Summary:
        env = self.initial_env()
        self.block(self.fi.node.body, env)
        if self.rets:
            r = self.rets[0]
            for x in self.rets[1:]:
                r = join(r, x)
            ann = ret_kind_from_annotation(self.fi)
            if ann is not None and r.kind == "unk" and ann.kind in ("obj", "nd", "list"):
                r = AV(ann.kind, r.sh, r.dp, r.ud, ann.cls, r.why)
            elif ann is not None and r.kind == "obj" and ann.kind == "obj" and r.cls is None:
                r = AV("obj", r.sh, r.dp, r.ud, ann.cls, r.why)
            self.sum.ret = r
        else:
            self.sum.ret = IMM
        return self.sum

    # ---------------------------------------------------------- effects
    def _g(self, rs: FrozenSet[Root]) -> Set[Root]:
        cur = frozenset(self.guards)
        out = set()
        for p, gs in rs:
            g = gs | cur
            if consistent(g):
                out.add((p, g))
        return out

    def mutate(self, av: AV, how: str, container: bool = False, attr: Optional[str] = None) -> None:
        """Record a write to the storage (or, for lists/objects, the container) of av."""
        if av.kind == "imm":
            return
        roots = av.sh if (container and av.kind in ("list", "obj", "seq")) else av.dp
        if attr is not None:
            roots = frozenset((self._attr_path(p, attr), g) for p, g in av.sh) | (av.dp - av.sh)
        for r in self._g(roots):
            self.sum.mut.add(r)
            self.sum.mut_why.setdefault(r[0], how)
        if not (container and av.kind in ("list", "obj", "seq")):
            # a container operation (append / extend / item rebinding) on a list changes that list object only: what its
            # elements may alias (ud) is not written to
            for r in self._g(av.ud):
                self.sum.umut.add(r)
        if av.kind == "unk":
            for r in self._g(av.dp):
                pass  # dp of unknown-kind values are still definite aliases (e.g. un-annotated parameter)

    def capture(self, holder: AV, v: AV, how: str) -> None:
        """A value stored into an object / list that belongs to a parameter: the holder now shares v's storage."""
        if not holder.sh and not holder.dp:
            return  # locally created holder
        hold = {p.split(".")[0] for p, _ in (holder.sh | holder.dp)}
        for (p, g) in self._g(v.dp):
            if p.split(".")[0] in hold:
                continue  # moving a holder's own storage around
            self.sum.cap.add((f"{p}=>{sorted(hold)[0]}", g))
            self.sum.cap_why.setdefault(f"{p}=>{sorted(hold)[0]}", how)

    @staticmethod
    def _attr_path(p: str, attr: str) -> str:
        return p if "." in p else f"{p}.{attr}"

    # ---------------------------------------------------------- statements
    def block(self, body: List[ast.stmt], env: Dict[str, AV]) -> bool:
        """Returns True if the block always terminates (return/raise)."""
        for st in body:
            if self.stmt(st, env):
                return True
        return False

    def stmt(self, st: ast.stmt, env: Dict[str, AV]) -> bool:
        if isinstance(st, (ast.FunctionDef, ast.AsyncFunctionDef, ast.ClassDef)):
            env[st.name] = AV("imm")
            return False
        if isinstance(st, ast.Return):
            if st.value is not None:
                v = self.ev(st.value, env)
                cur = frozenset(self.guards)
                if cur:
                    for g in cur:
                        v = with_guard(v, g)
                self.rets.append(v)
            else:
                self.rets.append(IMM)
            return True
        if isinstance(st, ast.Raise):
            return True
        if isinstance(st, ast.Assert):
            if isinstance(st.test, ast.Constant) and st.test.value is False:
                return True
            self.narrow_assert(st.test, env)
            return False
        if isinstance(st, ast.Assign):
            v = self.ev(st.value, env)
            for t in st.targets:
                self.assign(t, v, env, st.value)
            return False
        if isinstance(st, ast.AnnAssign):
            if st.value is not None:
                v = self.ev(st.value, env)
                self.assign(st.target, v, env, st.value)
            return False
        if isinstance(st, ast.AugAssign):
            self.augassign(st, env)
            return False
        if isinstance(st, ast.Expr):
            self.ev(st.value, env)
            return False
        if isinstance(st, ast.If):
            return self.if_stmt(st, env)
        if isinstance(st, (ast.For, ast.While)):
            self.loop(st, env)
            return False
        if isinstance(st, ast.With):
            for it in st.items:
                v = self.ev(it.context_expr, env)
                if it.optional_vars is not None:
                    self.assign(it.optional_vars, UNK, env, None)
            return self.block(st.body, env)
        if isinstance(st, ast.Try):
            t = self.block(st.body, env)
            for h in st.handlers:
                e2 = dict(env)
                self.block(h.body, e2)
                self.merge_into(env, e2)
            self.block(st.orelse, env)
            self.block(st.finalbody, env)
            return False
        if isinstance(st, ast.Delete):
            return False
        return False

    def merge_into(self, env: Dict[str, AV], other: Dict[str, AV]) -> None:
        for k in set(env) | set(other):
            a, b = env.get(k), other.get(k)
            if a is None:
                env[k] = b
            elif b is not None and a != b:
                env[k] = join(a, b)

    def if_stmt(self, st: ast.If, env: Dict[str, AV]) -> bool:
        self.nesting += 1
        try:
            return self._if_stmt(st, env)
        finally:
            self.nesting -= 1

    def _if_stmt(self, st: ast.If, env: Dict[str, AV]) -> bool:
        self.ev(st.test, env)
        g = self.guard_of(st.test)
        e1, e2 = dict(env), dict(env)
        self.narrow(st.test, e1, True)
        self.narrow(st.test, e2, False)
        if g:
            self.guards.append(g)
        t1 = self.block(st.body, e1)
        if g:
            self.guards.pop()
            self.guards.append((g[0], not g[1]))
        t2 = self.block(st.orelse, e2)
        if g:
            self.guards.pop()
        if g:
            ng = (g[0], not g[1])
            for k in set(e1) | set(e2):
                a, b = e1.get(k), e2.get(k)
                if a != b:
                    if a is not None:
                        e1[k] = with_guard(a, g)
                    if b is not None:
                        e2[k] = with_guard(b, ng)
        if t1 and t2:
            return True
        if t1:
            env.clear(); env.update(e2)
            if g:
                # everything after the if runs only when the test was false
                self.guards.append((g[0], not g[1]))
                self._pending_pop = getattr(self, "_pending_pop", 0)
            return False if not g else self._after_guard(env)
        if t2:
            env.clear(); env.update(e1)
            if g:
                self.guards.append(g)
            return False if not g else self._after_guard(env)
        env.clear(); env.update(e1)
        self.merge_into(env, e2)
        return False

    def _after_guard(self, env) -> bool:
        # a guard pushed for the remainder of the enclosing block is popped by block_tail
        self._tail_guards = getattr(self, "_tail_guards", 0) + 1
        return False

    def guard_of(self, test: ast.expr) -> Optional[Tuple[str, bool]]:
        if isinstance(test, ast.Name) and test.id in self.bool_params:
            return (test.id, True)
        if isinstance(test, ast.UnaryOp) and isinstance(test.op, ast.Not) and isinstance(test.operand, ast.Name) \
                and test.operand.id in self.bool_params:
            return (test.operand.id, False)
        return None

    def loop(self, st, env: Dict[str, AV]) -> None:
        self.nesting += 1
        try:
            self._loop(st, env)
        finally:
            self.nesting -= 1

    def _loop(self, st, env: Dict[str, AV]) -> None:
        if isinstance(st, ast.For):
            it = self.ev(st.iter, env)
            elem = self.element_of(it, st.iter, env)
        for _ in range(3):
            before = dict(env)
            e = dict(env)
            if isinstance(st, ast.For):
                self.assign(st.target, elem, e, None, unpack_elem=True)
            else:
                self.ev(st.test, e)
            self.block(st.body, e)
            self.merge_into(env, e)
            if env == before:
                break
        if isinstance(st, ast.For):
            self.complete_overwrite(st, env)
        self.block(st.orelse, env)

    def _is_length_like(self, x: ast.expr, lname: str, depth: int = 0) -> bool:
        if isinstance(x, ast.Call) and isinstance(x.func, ast.Name) and x.func.id == "len" and x.args:
            return True
        if isinstance(x, ast.Attribute) and x.attr in ("ndims", "ndim"):
            return True
        if isinstance(x, ast.Name) and depth < 2:
            for n in walk_no_nested(self.fi.node):
                if isinstance(n, ast.Assign) and any(isinstance(t, ast.Name) and t.id == x.id for t in n.targets):
                    if self._is_length_like(n.value, lname, depth + 1):
                        return True
        return False

    def complete_overwrite(self, st: ast.For, env: Dict[str, AV]) -> None:
        """`for i in range(n): L[i] = <fresh>` replaces every element of the list L.

        A may-analysis keeps L's old element roots; when the loop provably visits every index
        (n is len(...) / .ndims) they are dropped, otherwise they are demoted to unknown-mediated."""
        it = st.iter
        if not (isinstance(it, ast.Call) and isinstance(it.func, ast.Name) and it.func.id == "range" and len(it.args) == 1
                and isinstance(st.target, ast.Name)):
            return
        v = st.target.id
        for b in st.body:
            if isinstance(b, ast.Assign) and len(b.targets) == 1 and isinstance(b.targets[0], ast.Subscript):
                t = b.targets[0]
                if isinstance(t.value, ast.Name) and isinstance(t.slice, ast.Name) and t.slice.id == v and t.value.id in env:
                    cur = env[t.value.id]
                    if cur.kind != "list" or cur.sh:
                        continue  # only locally owned containers
                    e2 = dict(env)
                    e2[t.value.id] = AV("list", E, E, E, cur.cls)
                    saved = (set(self.sum.mut), set(self.sum.umut))
                    rhs = self.ev(b.value, e2)
                    self.sum.mut, self.sum.umut = saved
                    # other stores into the same list inside the loop keep their roots
                    others = [x for x in ast.walk(st) if isinstance(x, ast.Assign) and x is not b and any(
                        isinstance(tt, ast.Subscript) and isinstance(tt.value, ast.Name) and tt.value.id == t.value.id for tt in x.targets)]
                    if others:
                        continue
                    if self._is_length_like(it.args[0], t.value.id):
                        env[t.value.id] = AV("list", E, rhs.dp, rhs.ud, cur.cls, rhs.why)
                    else:
                        env[t.value.id] = AV("list", E, rhs.dp, rhs.ud | (cur.dp - rhs.dp) | cur.ud, cur.cls, rhs.why)

    # ---------------------------------------------------------- narrowing
    def narrow(self, test: ast.expr, env: Dict[str, AV], truth: bool) -> None:
        if isinstance(test, ast.UnaryOp) and isinstance(test.op, ast.Not):
            self.narrow(test.operand, env, not truth)
            return
        if isinstance(test, ast.BoolOp):
            if isinstance(test.op, ast.And) and truth:
                for v in test.values:
                    self.narrow(v, env, True)
            if isinstance(test.op, ast.Or) and not truth:
                for v in test.values:
                    self.narrow(v, env, False)
            return
        if isinstance(test, ast.Call) and isinstance(test.func, ast.Name) and test.func.id == "isinstance" and len(test.args) == 2 \
                and isinstance(test.args[0], ast.Name):
            nm = test.args[0].id
            cur = env.get(nm)
            if cur is None:
                return
            k, cls = self.kind_of_type(test.args[1])
            if truth and k is not None:
                env[nm] = AV(k, cur.sh, cur.dp if k != "imm" else E, cur.ud if k != "imm" else E, cls, cur.why)
            return

    def narrow_assert(self, test, env):
        self.narrow(test, env, True)

    def kind_of_type(self, t: ast.expr) -> Tuple[Optional[str], Optional[str]]:
        elts = t.elts if isinstance(t, ast.Tuple) else [t]
        kinds, classes = set(), set()
        for e in elts:
            d = dotted(e) or ""
            c = self.eng.tensor_class_of(d)
            if c:
                kinds.add("obj"); classes.add(c)
            elif d in ("np.ndarray", "numpy.ndarray", "ndarray"):
                kinds.add("nd")
            elif d in ("list", "List"):
                kinds.add("list")
            elif d in ("tuple",):
                kinds.add("tuple")
            elif d in ("int", "float", "bool", "str", "np.integer", "np.floating", "np.generic", "Real", "numbers.Real",
                       "np.number", "complex", "np.bool_", "Integral", "np.int64", "np.float64", "slice"):
                kinds.add("imm")
            elif d.startswith(("sparse.", "scipy.sparse")) or d in ("coo_matrix", "spmatrix"):
                kinds.add("sparse")
            else:
                kinds.add("?")
        if len(kinds) == 1:
            k = kinds.pop()
            if k == "?":
                return None, None
            return k, (classes.pop() if len(classes) == 1 else (tuple(sorted(classes)) if classes else None))
        if kinds <= {"list", "tuple", "nd"}:
            return "seq", None
        return None, None

    # ---------------------------------------------------------- assignment
    def assign(self, t: ast.expr, v: AV, env: Dict[str, AV], rhs: Optional[ast.expr], unpack_elem: bool = False) -> None:
        if isinstance(t, ast.Name):
            env[t.id] = v
            return
        if isinstance(t, (ast.Tuple, ast.List)):
            if rhs is not None and isinstance(rhs, (ast.Tuple, ast.List)) and len(rhs.elts) == len(t.elts):
                # evaluate element-wise (swap idiom etc.) with the environment before the assignment
                vals = [self.ev(x, dict(env)) for x in rhs.elts]
                for a, b in zip(t.elts, vals):
                    self.assign(a, b, env, None)
                return
            elem = self.element_of(v, rhs, env) if not unpack_elem else self.element_of(v, None, env)
            for a in t.elts:
                if isinstance(a, ast.Starred):
                    a = a.value
                self.assign(a, elem, env, None)
            return
        if isinstance(t, ast.Subscript):
            base = self.ev(t.value, env)
            self.ev_index(t.slice, env)
            if self.is_init_self_attr(t.value):
                return
            if base.kind in ("list", "seq", "tuple"):
                self.mutate(base, f"item store `{ast.unparse(t)} = ...`", container=True)
                self.capture(base, v, f"`{ast.unparse(t)} = ...` keeps a reference")
                # the stored value now lives in the container
                if isinstance(t.value, ast.Name) and t.value.id in env:
                    cur = env[t.value.id]
                    env[t.value.id] = AV(cur.kind, cur.sh, cur.dp | v.dp, cur.ud | v.ud, cur.cls, cur.why or v.why)
                elif self._is_self_attr(t.value) and self.is_init:
                    pass
            elif base.kind == "obj":
                self.mutate(base, f"item store `{ast.unparse(t)} = ...` (__setitem__)", container=True)
                if not base.sh:
                    self.mutate(AV("nd", E, base.dp, base.ud), f"item store through `{ast.unparse(t.value)}`")
            else:
                self.mutate(base, f"element store `{ast.unparse(t)} = ...`")
            return
        if isinstance(t, ast.Attribute):
            base = self.ev(t.value, env)
            if self.is_init and isinstance(t.value, ast.Name) and t.value.id == self.params[0]:
                cur = frozenset(self.guards)
                vv = v
                for g in cur:
                    vv = with_guard(vv, g)
                old = self.sum.fields.get(t.attr)
                # strong update only for a store that is not nested in any branch / loop
                self.sum.fields[t.attr] = vv if (old is None or self.nesting == 0) else join(old, vv)
                return
            if base.kind == "nd" and t.attr in ("shape", "dtype"):
                self.mutate(base, f"`{ast.unparse(t)} = ...` reshapes in place")
                return
            # attribute store: mutates the object (the attribute slot)
            self.mutate(base, f"attribute store `{ast.unparse(t)} = ...`", container=True, attr=t.attr)
            self.capture(base, v, f"`{ast.unparse(t)} = ...` keeps a reference")
            if isinstance(t.value, ast.Name) and t.value.id in env and not env[t.value.id].sh:
                cur_av = env[t.value.id]
                env[t.value.id] = AV(cur_av.kind, cur_av.sh, cur_av.dp | v.dp, cur_av.ud | v.ud, cur_av.cls, cur_av.why or v.why)
            return
        if isinstance(t, ast.Starred):
            self.assign(t.value, v, env, None)

    def _is_self_attr(self, e: ast.expr) -> bool:
        return isinstance(e, ast.Attribute) and isinstance(e.value, ast.Name) and self.fi.cls is not None \
            and e.value.id == self.params[0]

    def is_init_self_attr(self, e: ast.expr) -> bool:
        return self.is_init and self._is_self_attr(e)

    def augassign(self, st: ast.AugAssign, env: Dict[str, AV]) -> None:
        v = self.ev(st.value, env)
        t = st.target
        if isinstance(t, ast.Name):
            cur = env.get(t.id, UNK)
            if cur.kind in ("nd", "list", "seq"):
                self.mutate(cur, f"augmented assignment `{ast.unparse(st)}` writes in place")
                if cur.kind in ("list", "seq"):
                    env[t.id] = AV(cur.kind, cur.sh, cur.dp | v.dp, cur.ud | v.ud, cur.cls, cur.why)
            elif cur.kind in ("imm", "tuple"):
                env[t.id] = IMM if cur.kind == "imm" else AV("tuple", E, cur.dp | v.dp, cur.ud | v.ud)
            elif cur.kind == "obj":
                # the pyttb classes define no in-place dunders: rebinding to a new object
                if not (isinstance(cur.cls, str) and cur.cls not in TENSOR_CLASSES) and \
                        not any(self._defines_inplace(c, st.op) for c in classes_of(cur)):
                    env[t.id] = AV("obj", E, E, E, cur.cls)
                else:
                    env[t.id] = AV("obj", E, E, cur.dp | cur.ud, None)
                    for r in self._g(cur.dp | cur.ud):
                        self.sum.umut.add(r)
            else:
                for r in self._g(cur.dp | cur.ud):
                    self.sum.umut.add(r)
            return
        if isinstance(t, ast.Subscript):
            base = self.ev(t.value, env)
            self.ev_index(t.slice, env)
            if self.is_init_self_attr(t.value):
                return
            if base.kind in ("list", "seq", "tuple"):
                # L[i] op= x : in place on the element when it is an ndarray, and a container store
                elem = self.element_of(base, None, env)
                self.mutate(AV("nd", E, elem.dp, elem.ud), f"augmented element assignment `{ast.unparse(st)}`")
                if base.kind != "tuple":
                    self.mutate(base, f"item store `{ast.unparse(t)} op= ...`", container=True)
            else:
                self.mutate(base, f"augmented element assignment `{ast.unparse(st)}`", container=(base.kind == "obj"))
                if base.kind == "obj" and not base.sh:
                    self.mutate(AV("nd", E, base.dp, base.ud), f"augmented item assignment through `{ast.unparse(t.value)}`")
            return
        if isinstance(t, ast.Attribute):
            base = self.ev(t.value, env)
            cur = self.ev(t, env)
            if self.is_init and isinstance(t.value, ast.Name) and t.value.id == self.params[0]:
                return
            if cur.kind in ("nd", "list", "seq"):
                self.mutate(cur, f"augmented assignment `{ast.unparse(st)}` writes in place")
            self.mutate(base, f"attribute store `{ast.unparse(t)} op= ...`", container=True, attr=t.attr)

    def _defines_inplace(self, cls: str, op: ast.operator) -> bool:
        names = {ast.Add: "__iadd__", ast.Sub: "__isub__", ast.Mult: "__imul__", ast.Div: "__itruediv__",
                 ast.Pow: "__ipow__", ast.MatMult: "__imatmul__"}
        n = names.get(type(op))
        ci = self.eng.class_info(cls)
        return bool(ci and n and n in ci.methods)

    # ---------------------------------------------------------- expressions
    def element_of(self, it: AV, node: Optional[ast.expr], env) -> AV:
        """Value of an element obtained by iterating / unpacking `it`."""
        if it.kind == "imm":
            return IMM
        if it.kind == "seq":
            return IMM  # OneDArray / Shape: a sequence of numbers
        if it.kind == "list" and it.cls == "obj":
            return AV("obj", E, it.dp, it.ud, PART_CLASSES)
        if it.kind in ("list", "tuple"):
            return AV("unk" if it.kind == "tuple" else "nd", E, it.dp, it.ud) if (it.dp or it.ud) else AV("unk")
        if it.kind == "nd":
            return AV("nd", E, it.dp, it.ud)  # rows are views
        if it.kind == "obj":
            return AV("unk", E, E, it.dp | it.ud)
        return AV("unk", E, E, it.dp | it.ud)

    def ev_index(self, sl: ast.expr, env) -> None:
        for n in ast.iter_child_nodes(sl) if isinstance(sl, (ast.Tuple, ast.Slice)) else [sl]:
            if isinstance(n, ast.expr) and not isinstance(n, (ast.Slice,)):
                self.ev(n, env)
            elif isinstance(n, ast.Slice):
                for x in (n.lower, n.upper, n.step):
                    if x is not None:
                        self.ev(x, env)

    def slices_feasible(self, sl: ast.expr) -> bool:
        """The whole index is one name whose ELEMENTS this function tests with isinstance(.., slice): an index made of slices is
        an input the function provides for, and with it the subscript is basic indexing."""
        if not isinstance(sl, ast.Name):
            return False
        cached = getattr(self, "_slice_tested", None)
        if cached is None:
            cached = set()
            loops = {}
            for n in walk_no_nested(self.fi.node):
                it = None
                if isinstance(n, (ast.For, ast.comprehension)):
                    it, tg = n.iter, n.target
                    if isinstance(it, ast.Call) and dotted(it.func) == "enumerate" and it.args and isinstance(tg, ast.Tuple) and len(tg.elts) == 2:
                        it, tg = it.args[0], tg.elts[1]
                    if isinstance(it, ast.Name) and isinstance(tg, ast.Name):
                        loops[tg.id] = it.id
            for n in walk_no_nested(self.fi.node):
                if isinstance(n, ast.Call) and dotted(n.func) == "isinstance" and len(n.args) == 2 and isinstance(n.args[0], ast.Name) \
                        and n.args[0].id in loops:
                    ty = n.args[1]
                    tys = ty.elts if isinstance(ty, ast.Tuple) else [ty]
                    if any(isinstance(t, ast.Name) and t.id == "slice" for t in tys):
                        cached.add(loops[n.args[0].id])
            self._slice_tested = cached
        return sl.id in cached

    def index_is_basic(self, sl: ast.expr, env) -> Optional[bool]:
        """True: only ints/slices/None/Ellipsis (view). False: some advanced index (copy). None: unknown."""
        parts = sl.elts if isinstance(sl, ast.Tuple) else [sl]
        verdict: Optional[bool] = True
        for p in parts:
            if isinstance(p, ast.Slice):
                continue
            if isinstance(p, ast.Constant) and (p.value is None or p.value is Ellipsis or isinstance(p.value, int)):
                continue
            if isinstance(p, ast.UnaryOp) and isinstance(p.operand, ast.Constant):
                continue
            if isinstance(p, (ast.List, ast.ListComp)):
                return False
            if isinstance(p, ast.Attribute) and p.attr == "newaxis":
                continue
            v = self.ev(p, env)
            if v.kind in ("nd", "list", "seq") or (v.kind == "tuple" and v.cls == "arrays"):
                return False
            if isinstance(p, ast.Compare):
                return False
            if v.kind == "imm":
                # scalar int (or a tuple of ints): cannot tell from a slice object, but both are basic
                continue
            if isinstance(p, ast.Starred):
                verdict = None
                continue
            verdict = None
        return verdict

    def ev(self, e: ast.expr, env: Dict[str, AV]) -> AV:
        if isinstance(e, ast.Constant):
            return IMM
        if isinstance(e, ast.Name):
            return env.get(e.id, IMM if e.id in ("True", "False", "None") else UNK)
        if isinstance(e, ast.JoinedStr):
            for v in e.values:
                if isinstance(v, ast.FormattedValue):
                    self.ev(v.value, env)
            return IMM
        if isinstance(e, (ast.Tuple, ast.List, ast.Set)):
            vs = [self.ev(x.value if isinstance(x, ast.Starred) else x, env) for x in e.elts]
            dp = frozenset().union(*[v.dp for v in vs]) if vs else E
            ud = frozenset().union(*[v.ud for v in vs]) if vs else E
            if isinstance(e, ast.Tuple) and not dp and not ud and all(v.kind == "imm" for v in vs):
                return IMM
            return AV("tuple" if isinstance(e, ast.Tuple) else "list", E, dp, ud, None, next((v.why for v in vs if v.why), ""))
        if isinstance(e, ast.Dict):
            vs = [self.ev(x, env) for x in e.values if x is not None]
            dp = frozenset().union(*[v.dp for v in vs]) if vs else E
            ud = frozenset().union(*[v.ud for v in vs]) if vs else E
            return AV("unk", E, E, dp | ud)
        if isinstance(e, (ast.ListComp, ast.GeneratorExp, ast.SetComp)):
            e2 = dict(env)
            for g in e.generators:
                it = self.ev(g.iter, e2)
                self.assign(g.target, self.element_of(it, g.iter, e2), e2, None, unpack_elem=True)
                for c in g.ifs:
                    self.ev(c, e2)
            v = self.ev(e.elt, e2)
            return AV("list", E, v.dp, v.ud, None, v.why)
        if isinstance(e, ast.DictComp):
            return UNK
        if isinstance(e, ast.Lambda):
            return IMM
        if isinstance(e, ast.IfExp):
            self.ev(e.test, env)
            g = self.guard_of(e.test)
            a, b = self.ev(e.body, env), self.ev(e.orelse, env)
            if g:
                a, b = with_guard(a, g), with_guard(b, (g[0], not g[1]))
            return join(a, b)
        if isinstance(e, ast.BoolOp):
            vs = [self.ev(v, env) for v in e.values]
            out = vs[0]
            for v in vs[1:]:
                out = join(out, v)
            return out
        if isinstance(e, ast.UnaryOp):
            v = self.ev(e.operand, env)
            if isinstance(e.op, ast.Not):
                return IMM
            return self.arith_result(v, v)
        if isinstance(e, ast.BinOp):
            a, b = self.ev(e.left, env), self.ev(e.right, env)
            if isinstance(e.op, ast.Mult) and (a.kind in ("list", "tuple") or b.kind in ("list", "tuple")):
                src = a if a.kind in ("list", "tuple") else b
                return AV(src.kind, E, src.dp, src.ud, None, src.why)  # [x] * n repeats references
            if isinstance(e.op, ast.Add) and a.kind in ("list", "tuple") and b.kind in ("list", "tuple"):
                return AV(a.kind, E, a.dp | b.dp, a.ud | b.ud, None, a.why or b.why)
            if isinstance(e.op, ast.Mod) and a.kind == "imm":
                return IMM
            return self.arith_result(a, b)
        if isinstance(e, ast.Compare):
            self.ev(e.left, env)
            vs = [self.ev(c, env) for c in e.comparators]
            a = self.ev(e.left, env)
            if a.kind == "obj" or any(v.kind == "obj" for v in vs):
                return AV("obj")  # element-wise comparison of tensors builds a new tensor
            return AV("nd") if (a.kind in ("nd", "unk") or any(v.kind in ("nd", "unk") for v in vs)) else IMM
        if isinstance(e, ast.Attribute):
            return self.attribute(e, env)
        if isinstance(e, ast.Subscript):
            return self.subscript(e, env)
        if isinstance(e, ast.Call):
            return self.call(e, env)
        if isinstance(e, ast.Starred):
            return self.ev(e.value, env)
        if isinstance(e, ast.NamedExpr):
            v = self.ev(e.value, env)
            self.assign(e.target, v, env, e.value)
            return v
        if isinstance(e, ast.Slice):
            return IMM
        return UNK

    def arith_result(self, a: AV, b: AV) -> AV:
        """Arithmetic never aliases: ndarray/scalar ops allocate, pyttb operators are checked by their own summaries."""
        if a.kind == "obj" or b.kind == "obj":
            o = a if a.kind == "obj" else b
            return AV("obj", E, E, E, None)
        if a.kind == "imm" and b.kind == "imm":
            return IMM
        if a.kind == "unk" and b.kind == "unk":
            return AV("unk")
        return AV("nd")

    # ---- attribute
    def attribute(self, e: ast.Attribute, env) -> AV:
        d = dotted(e)
        if d and d.split(".")[0] in ("np", "numpy", "scipy", "math", "sparse", "ttb", "pyttb", "logging", "warnings",
                                     "time", "os", "handles", "Objectives", "Samplers", "IndexVariant") and d.split(".")[0] not in env:
            return IMM
        base = self.ev(e.value, env)
        a = e.attr
        if base.kind == "imm":
            return IMM
        if base.kind == "nd" or (base.kind in ("seq",) and a in npapi.ND_VIEW_ATTRS | npapi.ND_IMM_ATTRS):
            if a in npapi.ND_VIEW_ATTRS:
                return AV("nd", base.sh, base.dp, base.ud, None, base.why or f"view .{a}")
            if a in npapi.ND_IMM_ATTRS:
                return IMM
            return AV("unk", E, E, base.dp | base.ud)
        if base.kind == "obj":
            classes = classes_of(base) if (base.cls is None or isinstance(base.cls, tuple) or base.cls in TENSOR_CLASSES) else [base.cls]
            kinds = set()
            for c in classes:
                if a in ATTR_KIND.get(c, {}):
                    kinds.add(ATTR_KIND[c][a])
            if kinds:
                k = kinds.pop() if len(kinds) == 1 else "unk"
                if k == "imm":
                    return IMM
                # field of a parameter object -> param.attr ; field of a locally built object -> everything it holds
                roots = frozenset((self._attr_path(p, a), g) for p, g in base.sh) | (base.dp - base.sh)
                # under construction: the stored field
                if self.is_init and isinstance(e.value, ast.Name) and e.value.id == self.params[0] and a in self.sum.fields:
                    return self.sum.fields[a]
                return AV(k, roots if k != "obj" else roots, roots, base.ud,
                          ELEM_KIND.get(a) if k == "list" else (CORE_CLASSES if (k == "obj" and a == "core") else None),
                          base.why or "")
            # property or method object
            props = []
            for c in classes:
                m = self.eng.method(c, a)
                if m is not None and m.is_property:
                    props.append(m)
            if base.cls is None and not props:
                # non-tensor object (solver, sampler, enum ...)
                return AV("unk", E, E, base.dp | base.ud) if (base.dp or base.ud) else UNK
            if props:
                out = None
                for m in props:
                    s = self.eng.summary_of(m.qualname)
                    r = self.map_ret(s, m, [base], {}, None) if s else UNK
                    out = r if out is None else join(out, r)
                return out
            return AV("unk", E, E, base.dp | base.ud)
        if base.kind == "sparse":
            if a in ("data", "row", "col", "indices", "indptr"):
                return AV("nd", E, base.dp, base.ud, None, base.why)
            if a in ("shape", "nnz", "ndim", "dtype"):
                return IMM
            return AV("sparse", E, base.dp, base.ud, None, base.why) if a in ("T",) else AV("unk", E, E, base.dp | base.ud)
        if base.kind in ("list", "tuple", "seq"):
            return AV("unk", E, E, base.dp | base.ud)
        # unknown receiver
        if a in npapi.ND_IMM_ATTRS or a in ("ndims", "nnz", "ncomponents", "order", "name", "value"):
            return IMM
        if a in ALL_DATA_ATTRS and base.sh:
            k = ALL_DATA_ATTRS[a]
            if k == "imm":
                return IMM
            roots = frozenset((self._attr_path(p, a), g) for p, g in base.sh) | (base.dp - base.sh)
            return AV(k, roots, roots, base.ud)
        return AV("unk", E, E, base.dp | base.ud)

    # ---- subscript
    def subscript(self, e: ast.Subscript, env) -> AV:
        base = self.ev(e.value, env)
        self.ev_index(e.slice, env)
        if base.kind == "imm":
            return IMM
        if base.kind == "nd":
            b = self.index_is_basic(e.slice, env)
            if b is True:
                return AV("nd", E, base.dp, base.ud, None, base.why or "basic slice (view)")
            if b is False:
                return AV("nd")
            if self.slices_feasible(e.slice):
                return AV("nd", E, base.dp, base.ud, None,
                          base.why or f"`{ast.unparse(e.slice)}` can consist of slices only (its elements are tested for `slice` here): basic indexing, a view")
            return AV("nd", E, E, base.dp | base.ud)
        if base.kind in ("list", "tuple"):
            if isinstance(e.slice, ast.Slice):
                return AV(base.kind, E, base.dp, base.ud, base.cls, base.why)
            if base.kind == "list" and base.cls == "obj":
                return AV("obj", E, base.dp, base.ud, PART_CLASSES, base.why)
            if base.kind == "tuple" and base.cls == "arrays" and not base.dp and not base.ud:
                return AV("nd")          # one of the fresh index arrays of np.nonzero / np.where
            return AV("nd" if base.dp or base.ud else "unk", E, base.dp, base.ud, None, base.why)
        if base.kind == "seq":
            return AV("unk", E, base.dp if not isinstance(e.slice, ast.Slice) else base.dp, base.ud)
        if base.kind == "obj":
            classes = classes_of(base)
            out = None
            for c in classes:
                m = self.eng.method(c, "__getitem__")
                if m is None:
                    continue
                s = self.eng.summary_of(m.qualname)
                r = self.map_ret(s, m, [base, self.ev(e.slice, env) if not isinstance(e.slice, ast.Slice) else IMM], {}, None) if s else UNK
                out = r if out is None else join(out, r)
            if out is None:
                return AV("unk", E, E, base.dp | base.ud)
            if len(classes) > 1:
                return AV(out.kind, E, E, out.dp | out.ud)
            return out
        if base.kind == "sparse":
            return AV("unk", E, E, base.dp | base.ud)
        if base.kind == "unk" and self.index_is_basic(e.slice, env) is False:
            # something of unknown kind (what a caller-supplied function returned, ...) subscripted with an index ARRAY: for every array-like
            # this is advanced indexing, which copies (assumption listed in the evidence)
            return AV("nd")
        return AV("unk", E, E, base.dp | base.ud)

    # ---- calls
    def call(self, e: ast.Call, env) -> AV:
        f = e.func
        argv = [self.ev(a.value if isinstance(a, ast.Starred) else a, env) for a in e.args]
        kwv = {k.arg: self.ev(k.value, env) for k in e.keywords if k.arg}
        for k in e.keywords:
            if k.arg is None:
                self.ev(k.value, env)
        name = dotted(f) or ""
        parts = name.split(".")
        root = parts[0] if parts else ""
        base = parts[-1]
        # ---- numpy / scipy / stdlib modules
        if root in ("np", "numpy", "scipy", "sparse", "math", "logging", "warnings", "time", "os", "copy", "deepcopy",
                    "fmin_l_bfgs_b", "csr_array", "prod", "ceil", "inf", "partial", "cast", "accumarray") and root not in env:
            return self.external(name, base, e, argv, kwv, env)
        # ---- builtins
        if isinstance(f, ast.Name) and f.id not in env:
            if f.id in npapi.BUILTIN_SHALLOW:
                src = argv[0] if argv else IMM
                if f.id in ("list", "tuple", "sorted", "reversed", "enumerate") and src.kind == "seq":
                    return IMM if f.id == "tuple" else AV("list")
                if f.id == "map" and e.args and isinstance(e.args[0], ast.Name) and e.args[0].id in ("int", "float", "str", "bool"):
                    return IMM
                if f.id == "tuple" and len(argv) == 1 and src.kind == "imm":
                    return IMM
                dp = frozenset().union(*[a.dp for a in argv]) if argv else E
                ud = frozenset().union(*[a.ud for a in argv]) if argv else E
                if src.kind == "imm" and not dp and not ud:
                    return IMM
                if f.id in ("list", "sorted") and src.kind == "nd":
                    return AV("list", E, dp, ud, None, src.why or "list(ndarray) holds row views")
                if f.id == "tuple" and len(argv) == 1 and src.kind == "nd":
                    # rows of an array (or its scalars): as a subscript this is advanced (or full scalar) indexing
                    return AV("tuple", E, dp, ud, "arrays", src.why or "tuple(ndarray) holds row views")
                kind = "tuple" if f.id == "tuple" else "list"
                return AV(kind, E, dp, ud, None, src.why)
            if f.id in npapi.BUILTIN_IMM:
                return IMM
            # module-level function of this module / imported pyttb function / class constructor
            tgt = self.resolve_function(f.id)
            if tgt is not None:
                return self.apply(tgt, e, argv, kwv, env, receiver=None)
            c = self.eng.tensor_class_of(f.id)
            if c:
                return self.construct(c, e, argv, kwv, env)
            if f.id == "cls" or (self.fi.is_classmethod and f.id == self.params[0]):
                return self.construct(self.fi.cls, e, argv, kwv, env)
            return self.unknown_call(name or f.id, argv, kwv)
        if isinstance(f, ast.Name) and self.fi.is_classmethod and f.id == self.params[0]:
            return self.construct(self.fi.cls, e, argv, kwv, env)
        if isinstance(f, ast.Name) and f.id in env:
            if f.id in self.params:
                # a callable supplied by the caller: it is the caller's code; what it returns may alias its arguments
                dp = frozenset()
                for a in list(argv) + list(kwv.values()):
                    dp |= a.dp | a.ud
                mark = (f"@{f.id}", True)
                return AV("unk", E, E, frozenset((p_, g_ | {mark}) for p_, g_ in dp))
            return self.unknown_call(f"callable {f.id}", argv, kwv)
        if isinstance(f, ast.Attribute):
            # ttb.tensor(...) / ttb.sptensor.from_aggregator(...) / ttb.khatrirao(...)
            if root in ("ttb", "pyttb", "ttb_utils") and root not in env:
                if len(parts) == 2:
                    c = self.eng.tensor_class_of(parts[1])
                    if c:
                        return self.construct(c, e, argv, kwv, env)
                    tgt = self.resolve_function(parts[1])
                    if tgt is not None:
                        return self.apply(tgt, e, argv, kwv, env, receiver=None)
                if len(parts) == 3:
                    c = self.eng.tensor_class_of(parts[1])
                    if c:
                        m = self.eng.method(c, parts[2])
                        if m is not None:
                            recv = None if (m.is_classmethod or m.is_staticmethod) else (argv[0] if argv else UNK)
                            if m.is_classmethod:
                                return self.apply(m, e, [IMM] + argv, kwv, env, receiver=None, shifted=True)
                            return self.apply(m, e, argv, kwv, env, receiver=None)
                return self.unknown_call(name, argv, kwv)
            # cls.method(...) inside a classmethod, ClassName.method(...)
            if isinstance(f.value, ast.Name) and f.value.id not in env:
                c = self.eng.tensor_class_of(f.value.id)
                if c or (self.fi.is_classmethod and f.value.id == "cls"):
                    c = c or self.fi.cls
                    m = self.eng.method(c, f.attr)
                    if m is not None:
                        if m.is_classmethod:
                            return self.apply(m, e, [IMM] + argv, kwv, env, receiver=None, shifted=True)
                        return self.apply(m, e, argv, kwv, env, receiver=None)
            if isinstance(f.value, ast.Call) and isinstance(f.value.func, ast.Name) and f.value.func.id == "super":
                return self.unknown_call("super()." + f.attr, argv, kwv, benign=True)
            recv = self.ev(f.value, env)
            return self.method_call(recv, f.attr, e, argv, kwv, env)
        # calling the result of a call etc.
        self.ev(f, env)
        return self.unknown_call("dynamic call", argv, kwv)

    def resolve_function(self, name: str) -> Optional[FuncInfo]:
        mi = self.prog.modules[self.fi.module]
        q = f"{self.fi.module}.{name}"
        if q in self.prog.functions:
            return self.prog.functions[q]
        tgt = mi.imports.get(name)
        if tgt and tgt in self.prog.functions:
            return self.prog.functions[tgt]
        cands = self.eng.by_name.get(name, [])
        if len(cands) == 1 and (tgt is None or tgt.startswith("pyttb")):
            return cands[0]
        return None

    def unknown_call(self, name: str, argv: List[AV], kwv: Dict[str, AV], benign: bool = False) -> AV:
        dp = frozenset()
        for a in list(argv) + list(kwv.values()):
            dp |= a.dp | a.ud
        if not benign:
            self.eng.unmodelled.add(name)
            self.sum.unknown_calls.add(name)
            for r in self._g(dp):
                self.sum.umut.add(r)
        return AV("unk", E, E, dp)

    def external(self, name: str, base: str, e: ast.Call, argv: List[AV], kwv: Dict[str, AV], env) -> AV:
        a0 = argv[0] if argv else (next(iter(kwv.values())) if kwv else IMM)
        out_kw = kwv.get("out")
        if out_kw is not None:
            self.mutate(out_kw, f"{name}(out=...)")
        if name in ("copy.deepcopy", "deepcopy"):
            return AV(a0.kind, E, E, E, a0.cls)
        if name in ("copy.copy",):
            return AV(a0.kind, E, a0.dp, a0.ud, a0.cls, a0.why)
        if base in npapi.ARRAY_CTOR:
            c = kwarg(e, "copy")
            if c is not None and const(c) is False:
                return AV("nd", E, a0.dp, a0.ud, None, a0.why or "np.array(copy=False)")
            if a0.kind == "obj":
                return AV("nd", E, E, a0.dp | a0.ud)
            return AV("nd")
        if base in npapi.SPARSE_CTOR:
            c = kwarg(e, "copy")
            if c is not None and const(c) is True:
                return AV("sparse")
            # (data, (i, j)) / (data, ij): the value array is shared
            if e.args and isinstance(e.args[0], ast.Tuple) and e.args[0].elts:
                d = self.ev(e.args[0].elts[0], env)
                return AV("sparse", E, d.dp, d.ud, None, d.why or f"{base}((data, ij)) shares the value array")
            if a0.kind in ("nd", "sparse"):
                return AV("sparse", E, E, a0.dp | a0.ud)
            return AV("sparse")
        if base in npapi.VIEW0:
            if base in ("atleast_1d", "atleast_2d", "asarray", "ascontiguousarray", "asfortranarray", "asanyarray") and a0.kind in ("list", "tuple", "imm"):
                return AV("nd")
            if a0.kind == "imm":
                return AV("nd")
            return AV("nd", E, a0.dp, a0.ud, None, a0.why or f"{name} may return a view")
        if base in ("put", "place", "copyto", "fill_diagonal", "putmask", "shuffle", "put_along_axis"):
            self.mutate(a0, f"{name} writes its first argument")
            return IMM
        if base in ("nonzero", "where") and len(argv) == 1:
            return AV("tuple", E, E, E, "arrays")  # a tuple of index ARRAYS: subscripting with it is advanced indexing (copy)
        if base == "unique":
            return AV("nd")  # or a tuple of fresh arrays
        if base == "partial":
            dp = frozenset()
            for a in argv[1:] + list(kwv.values()):
                dp |= a.dp | a.ud
            return AV("unk", E, E, dp)
        if base == "cast" and len(argv) == 2:
            return argv[1]
        if base in npapi.FRESH or name.startswith(("logging.", "warnings.", "time.", "os.", "math.")) or ".random." in name \
                or ".linalg." in name:
            k = "nd"
            if base in ("all", "any", "isscalar", "issparse", "allclose", "array_equal", "ndim", "size", "isrealobj", "prod", "norm",
                        "perf_counter", "count_nonzero", "trace", "det", "matrix_rank", "vdot") and base != "prod_":
                k = "imm"
            if base in ("eig", "eigh", "eigs", "eigsh", "svd", "qr", "unravel_index", "meshgrid", "nonzero", "fmin_l_bfgs_b", "lstsq"):
                k = "tuple"
            if base in ("toarray", "todense"):
                k = "nd"
            return AV(k)
        return self.unknown_call(name, argv, kwv)

    def method_call(self, recv: AV, m: str, e: ast.Call, argv, kwv, env) -> AV:
        if recv.kind == "imm":
            return IMM
        if recv.kind == "nd":
            return self.nd_method(recv, m, e, argv, kwv, env)
        if recv.kind in ("list", "tuple"):
            if m == "copy":
                return AV(recv.kind, E, recv.dp, recv.ud, recv.cls, recv.why or "list.copy() is shallow")
            if m in npapi.LIST_MUTATE:
                self.mutate(recv, f"list.{m}()", container=True)
                if m in ("append", "extend", "insert") and isinstance(e.func.value, ast.Name) and e.func.value.id in env:
                    add = argv[-1] if argv else IMM
                    cur = env[e.func.value.id]
                    env[e.func.value.id] = AV(cur.kind, cur.sh, cur.dp | add.dp, cur.ud | add.ud, cur.cls, cur.why or add.why)
                if m == "pop":
                    return AV("nd", E, recv.dp, recv.ud)
                return IMM
            if m in ("index", "count"):
                return IMM
            return self.unknown_call(f"list.{m}", [recv] + argv, kwv)
        if recv.kind == "sparse":
            if m in ("transpose", "tocoo", "tocsr", "tocsc", "asformat", "conj", "conjugate"):
                return AV("sparse", E, recv.dp, recv.ud, None, recv.why)
            if m in ("toarray", "todense", "dot", "multiply", "sum", "copy", "power", "getnnz", "nonzero", "diagonal", "max", "min"):
                return AV("nd") if m not in ("copy",) else AV("sparse")
            return self.unknown_call(f"sparse.{m}", [recv] + argv, kwv)
        if recv.kind == "obj":
            if isinstance(recv.cls, str) and recv.cls not in TENSOR_CLASSES:
                mm = self.eng.method(recv.cls, m)
                cands = [mm] if mm is not None else []
            else:
                cands = [mm for mm in (self.eng.method(c, m) for c in classes_of(recv)) if mm is not None]
            if not cands and m in ("lower", "upper", "strip", "startswith", "endswith", "format", "split", "join", "name", "value"):
                return IMM
            if not cands:
                if recv.cls is None:
                    # solver / sampler / file objects
                    return self.unknown_call(f"?.{m}", [recv] + argv, kwv)
                return self.unknown_call(f"{recv.cls}.{m}", [recv] + argv, kwv)
            out = None
            for c in cands:
                r = self.apply(c, e, [recv] + argv, kwv, env, receiver=recv, definite=(len(cands) == 1))
                out = r if out is None else join(out, r)
            if len(cands) > 1:
                # CHA over several classes: keep aliasing facts only as unknown-mediated
                return AV(out.kind, E, E, out.dp | out.ud, out.cls)
            return out
        if recv.kind == "seq":
            if m in npapi.LIST_MUTATE | npapi.ND_MUTATE:
                self.mutate(recv, f".{m}() on an array-like parameter", container=True)
                return IMM
            if m in ("copy", "astype", "tolist", "flatten"):
                return AV("nd" if m != "tolist" else "list", E, recv.dp if m in ("copy", "tolist") else E, recv.ud) if m == "tolist" else AV("nd", E, E, E if m != "copy" else recv.dp - recv.dp)
            return AV("unk", E, E, recv.dp | recv.ud)
        # unknown receiver kind: a selector shared by numpy and pyttb is not resolved (UNDECIDED)
        if m in npapi.ND_MUTATE | npapi.LIST_MUTATE:
            for r in self._g(recv.dp | recv.ud):
                self.sum.umut.add(r)
            return IMM
        cands = [x for x in self.eng.methods_by_name.get(m, []) if x.cls in TENSOR_CLASSES]
        shared_with_numpy = m in npapi.ND_VIEW | npapi.ND_FRESH | npapi.ND_MUTATE | npapi.LIST_MUTATE
        if cands and not shared_with_numpy and recv.dp:
            out = None
            for c in cands:
                r = self.apply(c, e, [recv] + argv, kwv, env, receiver=recv, definite=False)
                out = r if out is None else join(out, r)
            return AV(out.kind, E, E, out.dp | out.ud, out.cls if len(cands) == 1 else None)
        if m in npapi.ND_FRESH and m not in ("copy",):
            return AV("unk")
        if m == "copy":
            return AV(recv.kind, E, E, E, recv.cls)
        dp = recv.dp | recv.ud
        for a in argv + list(kwv.values()):
            dp |= a.dp | a.ud
        if not (cands or shared_with_numpy):
            self.eng.unmodelled.add(f"?.{m}")
            for r in self._g(dp):
                self.sum.umut.add(r)
        return AV("unk", E, E, dp)

    def nd_method(self, recv: AV, m: str, e: ast.Call, argv, kwv, env) -> AV:
        if m in npapi.ND_VIEW:
            return AV("nd", E, recv.dp, recv.ud, None, recv.why or f".{m}() may return a view")
        if m == "astype":
            c = kwarg(e, "copy")
            if c is not None and const(c) is False:
                return AV("nd", E, recv.dp, recv.ud, None, recv.why or "astype(copy=False)")
            return AV("nd")
        if m in npapi.ND_FRESH:
            if m in ("item", "all", "any", "tofile", "__len__", "tobytes", "index", "count", "getnnz"):
                return IMM
            if m == "tolist":
                return AV("list")
            if m in ("nonzero",):
                return AV("tuple")
            return AV("nd")
        if m in npapi.ND_MUTATE:
            self.mutate(recv, f"ndarray.{m}() writes in place")
            return IMM
        return self.unknown_call(f"ndarray.{m}", [recv] + argv, kwv)

    # ---- pyttb callee application
    def bind(self, callee: FuncInfo, e: Optional[ast.Call], argv: List[AV], kwv: Dict[str, AV], shifted: bool = False
             ) -> Tuple[Dict[str, AV], Dict[str, Optional[ast.expr]]]:
        params = callee.params()
        a = callee.node.args
        npos = len(a.posonlyargs) + len(a.args)
        bound: Dict[str, AV] = {}
        nodes: Dict[str, Optional[ast.expr]] = {}
        arg_nodes: List[Optional[ast.expr]] = []
        if e is not None:
            arg_nodes = list(e.args)
        offset = len(argv) - len(arg_nodes)  # receiver(s) prepended
        star = None
        for i, v in enumerate(argv):
            node = arg_nodes[i - offset] if i - offset >= 0 and i - offset < len(arg_nodes) else None
            if isinstance(node, ast.Starred):
                star = v
                for p in params[i:npos]:
                    bound.setdefault(p, AV("unk", E, v.dp, v.ud))
                break
            if i < npos:
                bound[params[i]] = v
                nodes[params[i]] = node
            elif a.vararg:
                cur = bound.get(a.vararg.arg, AV("tuple"))
                bound[a.vararg.arg] = AV("tuple", E, cur.dp | v.dp, cur.ud | v.ud)
        for k, v in kwv.items():
            if k in params:
                bound[k] = v
                if e is not None:
                    nodes[k] = kwarg(e, k)
            elif a.kwarg:
                cur = bound.get(a.kwarg.arg, AV("unk"))
                bound[a.kwarg.arg] = AV("unk", E, E, cur.ud | v.dp | v.ud)
        return bound, nodes

    def eval_guards(self, gs: FrozenSet[Tuple[str, bool]], callee: FuncInfo, nodes: Dict[str, Optional[ast.expr]],
                    bound: Dict[str, AV]) -> Optional[FrozenSet[Tuple[str, bool]]]:
        """None if the guard is false at this call site, else the residual guards (in caller's terms)."""
        out = set()
        defaults = callee.param_defaults()
        for p, val in gs:
            if p.startswith("@"):
                node = nodes.get(p[1:])
                if node is None and p[1:] not in bound:
                    d = defaults.get(p[1:])
                    if d is not None and (dotted(d) or "").startswith(("np.", "numpy.")):
                        return None  # default is a numpy reduction: returns a fresh value
                    out.add((p, val)) if False else None
                    continue
                if isinstance(node, ast.Lambda):
                    if self.lambda_is_fresh(node):
                        return None
                    continue
                if node is not None and (dotted(node) or "").startswith(("np.", "numpy.", "operator.")):
                    return None
                if isinstance(node, ast.Name) and node.id in self.params:
                    out.add((f"@{node.id}", True))
                elif isinstance(node, ast.Name) and node.id in self.callable_alias:
                    out.add((f"@{self.callable_alias[node.id]}", True))
                elif isinstance(node, ast.Name) and self.nested_def_is_fresh(node.id):
                    return None
                continue
            node = nodes.get(p)
            if p in bound and node is None and p not in nodes:
                # bound without a syntactic node (receiver, *args): unknown
                continue
            if node is None:
                d = defaults.get(p)
                c = const(d) if d is not None else NOCONST
            else:
                c = const(node)
            if c is not NOCONST and isinstance(c, bool):
                if c != val:
                    return None
                continue
            if node is not None and isinstance(node, ast.Name) and node.id in self.bool_params:
                re = self.bool_reassigned.get(node.id, set())
                if val in re or None in re:
                    continue  # the variable may hold `val` regardless of the parameter: unconditional may-effect
                out.add((node.id, val))
                continue
            if node is not None and isinstance(node, ast.UnaryOp) and isinstance(node.op, ast.Not) and isinstance(node.operand, ast.Name) \
                    and node.operand.id in self.bool_params:
                out.add((node.operand.id, not val))
                continue
            # unknown truth value: keep the effect unguarded (may)
        return frozenset(out)

    def nested_def_is_fresh(self, name: str) -> bool:
        for n in ast.walk(self.fi.node):
            if isinstance(n, ast.FunctionDef) and n is not self.fi.node and n.name == name:
                rets = [r for r in ast.walk(n) if isinstance(r, ast.Return)]
                return bool(rets) and all(r.value is not None and self._fresh_expr(r.value) for r in rets)
        return False

    def _fresh_expr(self, b: ast.expr) -> bool:
        if isinstance(b, (ast.BinOp, ast.UnaryOp, ast.Compare, ast.BoolOp, ast.Constant)):
            return True
        if isinstance(b, ast.Call):
            nm = (dotted(b.func) or "")
            if nm.startswith(("np.", "numpy.")) and nm.split(".")[-1] in npapi.FRESH:
                return True
            if isinstance(b.func, ast.Attribute) and b.func.attr in ("astype", "copy", "sum", "max", "min"):
                return True
        return False

    def lambda_is_fresh(self, lam: ast.Lambda) -> bool:
        """The lambda's result is built by arithmetic / fresh numpy calls only (cannot alias its arguments)."""
        b = lam.body
        if isinstance(b, (ast.BinOp, ast.UnaryOp, ast.Compare, ast.BoolOp, ast.Constant)):
            return True
        if isinstance(b, ast.Call):
            nm = (dotted(b.func) or "")
            base = nm.split(".")[-1]
            if nm.startswith(("np.", "numpy.")) and base in npapi.FRESH:
                return True
            if isinstance(b.func, ast.Attribute) and b.func.attr in ("astype", "copy", "sum", "max", "min"):
                return True
            if isinstance(b.func, ast.Name) and b.func.id in ("function_handle", "fun", "operator", "opposite_operator"):
                return False
        return False

    def map_roots(self, roots, callee: FuncInfo, bound: Dict[str, AV], nodes, which: str) -> Tuple[FrozenSet[Root], FrozenSet[Root]]:
        """Translate callee roots (param[.attr], guards) into the caller's roots. Returns (definite, unknown-mediated)."""
        dp, ud = set(), set()
        for path, gs in roots:
            res = self.eval_guards(gs, callee, nodes, bound)
            if res is None:
                continue
            p, _, attr = path.partition(".")
            arg = bound.get(p)
            if arg is None:
                continue  # parameter left at its default: nothing of the caller's
            if attr:
                src = frozenset((self._attr_path(q, attr), g) for q, g in arg.sh) | (arg.dp - arg.sh)
            else:
                src = arg.sh if (which == "sh") else arg.dp
                if which == "container":
                    src = arg.sh if arg.kind in ("list", "obj", "seq") else arg.dp
            for q, g in src:
                gg = g | res
                if consistent(gg):
                    dp.add((q, gg))
            for q, g in arg.ud:
                ud.add((q, g | res))
        return frozenset(dp), frozenset(ud)

    def map_ret(self, s: Optional[Summary], callee: FuncInfo, argv: List[AV], kwv, e: Optional[ast.Call], shifted=False) -> AV:
        if s is None or s.ret is None:
            return UNK
        bound, nodes = self.bind(callee, e, argv, kwv)
        r = s.ret
        sh, _ = self.map_roots(r.sh, callee, bound, nodes, "sh")
        dp, ud1 = self.map_roots(r.dp, callee, bound, nodes, "dp")
        ud2a, ud2b = self.map_roots(r.ud, callee, bound, nodes, "dp")
        return AV(r.kind, sh, dp | sh, ud1 | ud2a | ud2b, r.cls, r.why)

    def apply(self, callee: FuncInfo, e: ast.Call, argv: List[AV], kwv: Dict[str, AV], env, receiver: Optional[AV],
              shifted: bool = False, definite: bool = True) -> AV:
        s = self.eng.summary_of(callee.qualname)
        if s is None:
            return self.unknown_call(callee.short, argv, kwv)
        bound, nodes = self.bind(callee, e, argv, kwv)
        # mutation effects
        for path, gs in s.mut:
            d, u = self.map_roots({(path, gs)}, callee, bound, nodes, "container" if "." not in path else "dp")
            tgt = self.sum.mut if definite else self.sum.umut
            for r in self._g(d):
                tgt.add(r)
                if definite:
                    self.sum.mut_why.setdefault(r[0], f"call to {callee.short} (which {s.mut_why.get(path, 'mutates ' + path)})")
            for r in self._g(u):
                self.sum.umut.add(r)
        for path, gs in s.umut:
            d, u = self.map_roots({(path, gs)}, callee, bound, nodes, "dp")
            for r in self._g(d | u):
                self.sum.umut.add(r)
        for path, gs in s.cap:
            src, _, hold = path.partition("=>")
            d, _u = self.map_roots({(src, gs)}, callee, bound, nodes, "dp")
            h, _u2 = self.map_roots({(hold, E)}, callee, bound, nodes, "dp")
            if definite:
                hv = AV("obj", h, h)
                self.capture(hv, AV("nd", E, d), f"call to {callee.short} ({s.cap_why.get(path, 'keeps a reference')})")
        r = s.ret or UNK
        sh, _ = self.map_roots(r.sh, callee, bound, nodes, "sh")
        dp, ud1 = self.map_roots(r.dp, callee, bound, nodes, "dp")
        u2, u3 = self.map_roots(r.ud, callee, bound, nodes, "dp")
        why = r.why or (f"returned by {callee.short}" if dp else "")
        kind = r.kind
        if callee.name == "parse_one_d" and kind in ("nd", "unk"):
            kind = "seq"  # always a 1-D array: its elements are scalars (it may still be a view of the argument)
        return AV(kind, sh, dp | sh, ud1 | u2 | u3, r.cls, why)

    def construct(self, cls: str, e: ast.Call, argv, kwv, env) -> AV:
        init = self.eng.method(cls, "__init__")
        if init is None:
            return AV("obj", E, E, E, cls)
        s = self.eng.summary_of(init.qualname)
        if s is None:
            return AV("obj", E, E, E, cls)
        bound, nodes = self.bind(init, e, [AV("obj", E, E, E, cls)] + argv, kwv)
        dp, ud = set(), set()
        why = ""
        for attr, fav in s.fields.items():
            d, u = self.map_roots(fav.dp, init, bound, nodes, "dp")
            u2, u3 = self.map_roots(fav.ud, init, bound, nodes, "dp")
            dp |= d
            ud |= u | u2 | u3
            if d and not why:
                src = next(iter(d))[0]
                why = f"{cls}(...) stores `{src}` as .{attr} without copying"
        # mutation effects of __init__ on its arguments
        for path, gs in s.mut:
            d, u = self.map_roots({(path, gs)}, init, bound, nodes, "dp")
            for r in self._g(d):
                self.sum.mut.add(r)
                self.sum.mut_why.setdefault(r[0], f"{cls}.__init__ {s.mut_why.get(path, '')}")
        argwhy = next((a.why for a in argv if a.why and a.dp), "")
        return AV("obj", E, frozenset(dp), frozenset(ud), cls, (argwhy + " -> " if argwhy and why else argwhy) + why)
