"""C14 — leading mode-n vectors span the dominant subspace in every representation.

Decided (E6 eigen typestate on tensor/sptensor/ktensor/ttensor.nvecs, both solver branches):
  EIG-ret    on every path the returned matrix is the eigenvector matrix of a SYMMETRIC solver
             (eigh / eigsh: real), COLUMNS permuted by a DESCENDING argsort keyed on that call's
             eigenvalues, truncated to r COLUMNS (or asked for exactly r from the iterative solver)
  EIG-sign   under the sign flag, the pivot is argmax of |v| over axis 0 (per column), the test is
             `v[pivot_i, i] < 0`, and the flip negates column i
  EIG-unf    in ttensor.nvecs all mode-n unfoldings (dense to_tenmat(cdims=[n]) and sparse to_sptenmat([n], 't')) list the
             remaining modes in the same (ascending) order, so that their product is the mode-n Gram matrix
  EIG-gram   homogeneity degree (E9): the matrix handed to the eigen-solver is homogeneous of degree 2 in the operand's own
             values (data / vals / Kruskal weights / Tucker core), as X_n X_n^T is; degree 1 means the weights / core enter once
             (an MTTKRP-like product, not symmetric), degree 0 that they are dropped
  EIG-sib    the four implementations choose the iterative branch under the same condition
             (r < size - 1) — sibling agreement
Not decided: that the degree-2 matrix is exactly the mode-n Gram matrix (which modes are contracted); subspace equality across
representations; numerical orthonormality (follows from the eigh/eigsh contract when EIG-ret holds).
"""
from __future__ import annotations

import ast
from typing import Dict, List

from ..model import Program, dotted, kwarg, const, NOCONST, calls_in
from ..report import Result
from ..paths import enumerate_paths
from .. import eigen

NVECS = ["tensor.tensor.nvecs", "sptensor.sptensor.nvecs", "ktensor.ktensor.nvecs", "ttensor.ttensor.nvecs"]


def eig_ret(prog: Program, res: Result, short: str, rule="EIG-ret", sink="return") -> None:
    fi = prog.func(short)
    walk = eigen.EigenWalk(fi.node)
    paths = enumerate_paths(fi.node.body)
    by_solver: Dict[str, List] = {}
    for items, end in paths:
        if end == "raise":
            continue
        solvers = []
        for kind, st in items:
            if kind == "stmt" and isinstance(st, ast.Assign):
                sc = walk.solver_call(st.value)
                if sc:
                    solvers.append((sc[0], st))
        if not solvers:
            continue
        events = walk.run_path(items)
        for ev in events:
            if ev[0] != sink:
                continue
            by_solver.setdefault(solvers[-1][0], []).append((ev, solvers[-1][1]))
        if sink == "return" and not any(e[0] == "return" for e in events):
            by_solver.setdefault(solvers[-1][0], []).append((("return", None, solvers[-1][1], {}), solvers[-1][1]))
    if not by_solver:
        res.undecided(rule, short, "no eigen-solver call found on any path", prog.loc(fi))
        return
    for solver, evs in sorted(by_solver.items()):
        desc = f"leading vectors via {solver}: eigenvector columns, descending by eigenvalue, r columns, real"
        verdicts = []
        for (kind, val, node, env), sst in evs:
            if not isinstance(val, eigen.Vecs):
                verdicts.append(("UNDEC", "result is not a tracked eigenvector matrix", node))
            else:
                v, why = eigen.judge(val)
                verdicts.append((v, why, node))
        bad = [v for v in verdicts if v[0] == "BAD"]
        und = [v for v in verdicts if v[0] == "UNDEC"]
        where = prog.loc(fi, evs[0][1])
        if bad:
            res.bad(rule, short, desc, where, bad[0][1])
        elif und:
            res.undecided(rule, short, desc, where, und[0][1])
        else:
            res.ok(rule, short, desc, where, verdicts[0][1])


def sign_rule(prog: Program, res: Result, short: str) -> None:
    fi = prog.func(short)
    desc = "sign normalisation: pivot = argmax |v| per column, flip column when pivot entry < 0"
    flag_if = None
    for n in ast.walk(fi.node):
        if isinstance(n, ast.If) and isinstance(n.test, ast.Name) and n.test.id == "flipsign":
            flag_if = n
    if flag_if is None:
        # guard-clause form:  if not flipsign: return v   ...normalisation...   return v
        body = fi.node.body
        for i, st in enumerate(body):
            if isinstance(st, ast.If) and isinstance(st.test, ast.UnaryOp) and isinstance(st.test.op, ast.Not) and isinstance(st.test.operand, ast.Name) \
                    and st.test.operand.id == "flipsign" and st.body and isinstance(st.body[-1], ast.Return) and not st.orelse:
                flag_if = ast.If(test=ast.Name(id="flipsign", ctx=ast.Load()), body=body[i + 1:], orelse=[])
                ast.copy_location(flag_if, st)
                for x in ast.walk(flag_if):
                    if not hasattr(x, "lineno"):
                        ast.copy_location(x, st)
    if flag_if is None:
        used = any(isinstance(x, ast.Name) and x.id == "flipsign" for x in ast.walk(fi.node))
        if "flipsign" in fi.params() and not used:
            res.bad("EIG-sign", short, desc, prog.loc(fi), "the flipsign parameter is no longer used: no sign normalisation is applied")
        else:
            res.undecided("EIG-sign", short, desc, prog.loc(fi), "sign normalisation region not recognised")
        return
    problems, facts = [], 0
    vec = None
    pivot = None
    for n in ast.walk(flag_if):
        if isinstance(n, ast.Call) and (dotted(n.func) or "").split(".")[-1] == "argmax":
            arg = n.args[0] if n.args else None
            if isinstance(n.func, ast.Attribute) and not (dotted(n.func) or "").startswith(("np.", "numpy.")):
                arg = n.func.value
            ax = kwarg(n, "axis") or (n.args[1] if len(n.args) > 1 else None)
            if arg is None:
                continue
            isabs = isinstance(arg, ast.Call) and (dotted(arg.func) or "").split(".")[-1] in ("abs", "absolute", "fabs")
            if not isabs:
                problems.append("pivot is argmax of the signed entries, not of |v|")
            else:
                inner = arg.args[0]
                vec = inner.id if isinstance(inner, ast.Name) else None
            if ax is None or const(ax) != 0:
                problems.append(f"argmax axis is {ast.unparse(ax) if ax is not None else 'None (flattened)'}: pivot must be per column (axis=0)")
            facts += 1
            pivot = n
        if isinstance(n, ast.Call) and (dotted(n.func) or "").split(".")[-1] == "argmin":
            problems.append("pivot is argmin")
            facts += 1
    if pivot is None and not problems:
        res.undecided("EIG-sign", short, desc, prog.loc(fi, flag_if), "no argmax pivot recognised")
        return
    # the test and the flip
    found_test = found_flip = False
    for n in ast.walk(flag_if):
        if isinstance(n, ast.If) and n is not flag_if and isinstance(n.test, ast.Compare) and len(n.test.ops) == 1:
            l, op, r = n.test.left, n.test.ops[0], n.test.comparators[0]
            if isinstance(l, ast.Subscript) and isinstance(l.value, ast.Name) and (vec is None or l.value.id == vec):
                found_test = True
                facts += 1
                if not (isinstance(op, ast.Lt) and const(r) == 0):
                    problems.append(f"flip condition is `{ast.unparse(n.test)}`, not `< 0`")
                sl = l.slice
                if isinstance(sl, ast.Tuple) and len(sl.elts) == 2:
                    # (pivot row, column i)
                    if not isinstance(sl.elts[1], ast.Name):
                        problems.append("tested entry is not (pivot row, column i)")
                    if isinstance(sl.elts[0], ast.Name) and isinstance(sl.elts[1], ast.Subscript):
                        problems.append("tested entry is (i, pivot): row/column swapped")
            for s in ast.walk(n):
                if isinstance(s, ast.AugAssign) and isinstance(s.op, ast.Mult) and isinstance(s.target, ast.Subscript):
                    found_flip = True
                    facts += 1
                    t = s.target.slice
                    if not (isinstance(t, ast.Tuple) and len(t.elts) == 2 and isinstance(t.elts[0], ast.Slice)
                            and t.elts[0].lower is None and t.elts[0].upper is None and isinstance(t.elts[1], ast.Name)):
                        problems.append(f"flip target `{ast.unparse(s.target)}` is not column i (v[:, i])")
                    if const(s.value) != -1:
                        problems.append(f"flip multiplies by {ast.unparse(s.value)}, not -1")
    if not (found_test and found_flip):
        # vectorised form: mask = v[pivot_rows, arange(ncols)] < 0 ; v[:, mask] *= -1  (or  = -v[:, mask])
        masks = {}
        for st in flag_if.body:
            for n in ast.walk(st):
                if isinstance(n, ast.Assign) and len(n.targets) == 1 and isinstance(n.targets[0], ast.Name) and isinstance(n.value, ast.Compare) \
                        and len(n.value.ops) == 1 and isinstance(n.value.left, ast.Subscript):
                    l, op, r = n.value.left, n.value.ops[0], n.value.comparators[0]
                    sl = l.slice
                    if isinstance(sl, ast.Tuple) and len(sl.elts) == 2 and isinstance(l.value, ast.Name) and (vec is None or l.value.id == vec):
                        rows_, cols_ = (fi.resolve(x) for x in sl.elts)       # named or written in place

                        def is_range(x):
                            return isinstance(x, ast.Call) and (dotted(x.func) or "").split(".")[-1] in ("arange", "range")

                        def is_pivot(x):
                            return isinstance(x, ast.Name) or (isinstance(x, ast.Call) and (dotted(x.func) or "").split(".")[-1] == "argmax")
                        col_range = is_range(cols_)
                        row_pivot = is_pivot(rows_) and not is_range(rows_)
                        if row_pivot and col_range:
                            found_test = True
                            facts += 1
                            if not (isinstance(op, ast.Lt) and const(r) == 0):
                                problems.append(f"flip condition is `{ast.unparse(n.value)}`, not `< 0`")
                            masks[n.targets[0].id] = n
                        elif is_range(rows_) and is_pivot(cols_):
                            problems.append("tested entries are (i, pivot): row/column swapped")
        for st in flag_if.body:
            for n in ast.walk(st):
                tgt = val = None
                if isinstance(n, ast.AugAssign) and isinstance(n.op, ast.Mult):
                    tgt, val = n.target, n.value
                elif isinstance(n, ast.Assign) and len(n.targets) == 1 and isinstance(n.value, ast.UnaryOp) and isinstance(n.value.op, ast.USub) \
                        and ast.unparse(n.value.operand) == ast.unparse(n.targets[0]):
                    tgt, val = n.targets[0], ast.Constant(value=-1)
                sel = tgt.slice.elts[1] if isinstance(tgt, ast.Subscript) and isinstance(tgt.slice, ast.Tuple) and len(tgt.slice.elts) == 2 else None
                if isinstance(sel, ast.Subscript) and isinstance(sel.slice, ast.Name) and sel.slice.id in masks:
                    base = fi.resolve(sel.value)
                    if isinstance(base, ast.Call) and (dotted(base.func) or "").split(".")[-1] == "arange":
                        sel = sel.slice          # np.arange(ncols)[mask] selects the masked columns
                if isinstance(sel, ast.Subscript) and const(sel.slice) == 0 and isinstance(sel.value, ast.Call) and sel.value.args \
                        and (dotted(sel.value.func) or "").split(".")[-1] in ("nonzero", "where") and isinstance(sel.value.args[0], ast.Name):
                    sel = sel.value.args[0]      # np.nonzero(mask)[0]
                if isinstance(sel, ast.Call) and (dotted(sel.func) or "").split(".")[-1] == "flatnonzero" and sel.args and isinstance(sel.args[0], ast.Name):
                    sel = sel.args[0]
                if isinstance(tgt, ast.Subscript) and isinstance(tgt.slice, ast.Tuple) and len(tgt.slice.elts) == 2 \
                        and isinstance(sel, ast.Name) and sel.id in masks:
                    found_flip = True
                    facts += 1
                    if not (isinstance(tgt.slice.elts[0], ast.Slice) and tgt.slice.elts[0].lower is None and tgt.slice.elts[0].upper is None):
                        problems.append(f"flip target `{ast.unparse(tgt)}` is not whole columns (v[:, mask])")
                    if const(val) != -1:
                        problems.append(f"flip multiplies by {ast.unparse(val)}, not -1")
    if problems:
        res.bad("EIG-sign", short, desc, prog.loc(fi, flag_if), "; ".join(problems))
    elif found_test and found_flip:
        res.ok("EIG-sign", short, desc, prog.loc(fi, flag_if))
    else:
        res.undecided("EIG-sign", short, desc, prog.loc(fi, flag_if), "flip idiom not recognised")


def branch_cond(prog: Program, short: str):
    """Normalised form of the test under which the iterative solver is chosen: (left, comparator, offset)."""
    fi = prog.func(short)
    for n in ast.walk(fi.node):
        if isinstance(n, ast.If):
            in_body = any(isinstance(c, ast.Call) and (dotted(c.func) or "").split(".")[-1] in eigen.ITERATIVE
                          for st in n.body for c in ast.walk(st))
            in_else = any(isinstance(c, ast.Call) and (dotted(c.func) or "").split(".")[-1] in eigen.ITERATIVE
                          for st in n.orelse for c in ast.walk(st))
            if not (in_body or in_else) or (in_body and in_else):
                continue
            t = fi.resolve(n.test)          # a named condition (use_iterative = r < size - 1) reads like the comparison itself
            negated = in_else
            while isinstance(t, ast.UnaryOp) and isinstance(t.op, ast.Not):
                t = t.operand
                negated = not negated
            if isinstance(t, ast.Compare) and len(t.ops) == 1:
                op = type(t.ops[0])
                left, right = t.left, t.comparators[0]
                if negated:
                    op = {ast.Lt: ast.GtE, ast.LtE: ast.Gt, ast.Gt: ast.LtE, ast.GtE: ast.Lt}.get(op, op)
                if op in (ast.Gt, ast.GtE):     # size - 1 > r  ->  r < size - 1
                    left, right = right, left
                    op = ast.Lt if op is ast.Gt else ast.LtE
                off = None
                if isinstance(right, ast.BinOp) and isinstance(right.op, ast.Sub):
                    off = const(right.right)
                elif isinstance(right, (ast.Subscript, ast.Attribute)):
                    off = 0
                return (ast.unparse(left), op.__name__, off), n
    return None, None


def unfold_conventions(prog: Program, res: Result) -> None:
    """All mode-n unfoldings that enter one Gram product list the remaining modes in the same order."""
    fi = prog.func("ttensor.ttensor.nvecs")
    sites = []
    for c in ast.walk(fi.node):
        if isinstance(c, ast.Call) and isinstance(c.func, ast.Attribute) and c.func.attr in ("to_tenmat", "to_sptenmat"):
            conv = None
            if c.func.attr == "to_tenmat":
                # to_tenmat(cdims=[n]) : rows = the remaining modes ascending, column = n  ("t" layout)
                if kwarg(c, "cdims") is not None and kwarg(c, "rdims") is None and kwarg(c, "cdims_cyclic") is None:
                    conv = "n-as-column, others ascending"
                elif kwarg(c, "rdims") is not None or c.args:
                    cyc = kwarg(c, "cdims_cyclic")
                    conv = f"n-as-row, others {const(cyc) if cyc is not None else 'ascending'}"
            else:
                cyc = kwarg(c, "cdims_cyclic") or (c.args[2] if len(c.args) > 2 else None)
                cv = const(cyc) if cyc is not None else None
                if cv == "t":
                    conv = "n-as-column, others ascending"
                elif cv in ("fc", "bc"):
                    conv = f"n-as-row, others {cv}"
                elif cyc is None:
                    conv = "n-as-row, others ascending"
            # a trailing .transpose() after .double() flips row/column roles but keeps the order of the others
            sites.append((c, conv))
    desc = "every mode-n unfolding entering the Gram product orders the remaining modes the same way"
    if len(sites) < 2:
        res.undecided("EIG-unf", fi.short, desc, prog.loc(fi), f"{len(sites)} unfolding call(s) found")
        return
    orders = {(cv.split("others ")[1] if cv else None) for _c, cv in sites}
    layouts = {(cv.split(",")[0] if cv else None) for _c, cv in sites}
    if None in orders:
        res.undecided("EIG-unf", fi.short, desc, prog.loc(fi, sites[0][0]), "an unfolding convention was not recognised")
    elif len(orders) == 1 and len(layouts) == 1:
        res.ok("EIG-unf", fi.short, desc, prog.loc(fi, sites[0][0]), f"{len(sites)} sites: {sites[0][1]}")
    else:
        res.bad("EIG-unf", fi.short, desc, prog.loc(fi, sites[0][0]),
                "the unfoldings disagree: " + "; ".join(sorted({cv for _c, cv in sites})) +
                " — the product of differently ordered unfoldings is not the mode-n Gram matrix (visible for a middle mode of a tensor with >= 3 modes)")


def complement_order(prog: Program, res: Result) -> None:
    """gather_wrap_dims: the "t" layout (used for the sparse core in ttensor.nvecs) and the cdims-only layout (used for the dense one)
    must list the remaining modes in the same order; today both are np.setdiff1d (ascending)."""
    fi = prog.func("pyttb_utils.gather_wrap_dims")
    desc = 'the "t" layout and the cdims-only layout of gather_wrap_dims list the remaining modes in the same (ascending) order'

    def classify(e: ast.expr, defs, depth=0) -> str:
        if isinstance(e, ast.Name) and e.id in defs and depth < 3:
            ks = {classify(d, defs, depth + 1) for d in defs[e.id]}
            return ks.pop() if len(ks) == 1 else "?"
        if isinstance(e, ast.Call):
            base = (dotted(e.func) or "").split(".")[-1]
            if base in ("setdiff1d", "sort", "sorted", "unique"):
                return "ascending"
            if base == "roll":
                return "cyclic"
            if base in ("array", "asarray") and e.args:
                return classify(e.args[0], defs, depth + 1)
        if isinstance(e, ast.Subscript):
            k = classify(e.value, defs, depth + 1)
            if isinstance(e.slice, ast.Slice) and e.slice.step is not None and const(e.slice.step) == -1 and k == "ascending":
                return "descending"
            return k
        if isinstance(e, ast.BinOp) and isinstance(e.op, ast.Add) and isinstance(e.left, ast.ListComp):
            return "cyclic"
        return "?"
    defs = {}
    for n in ast.walk(fi.node):
        if isinstance(n, ast.Assign) and len(n.targets) == 1 and isinstance(n.targets[0], ast.Name):
            defs.setdefault(n.targets[0].id, []).append(n.value)
    t_def = c_def = None
    for n in ast.walk(fi.node):
        if isinstance(n, ast.If):
            t = ast.unparse(n.test).replace(" ", "").replace('"', "'")
            if t == "cdims_cyclic=='t'":
                for st in n.body:
                    if isinstance(st, ast.Assign) and isinstance(st.targets[0], ast.Name) and st.targets[0].id == "rdims":
                        t_def = st
            if t == "rdimsisNoneandcdimsisnotNone":
                for st in n.body:
                    if isinstance(st, ast.Assign) and isinstance(st.targets[0], ast.Name) and st.targets[0].id == "rdims":
                        c_def = st
    if t_def is None or c_def is None:
        res.undecided("EIG-unf", fi.short, desc, prog.loc(fi), "layout branches not found")
        return
    local = {k: v for k, v in defs.items() if k not in ("rdims", "cdims")}
    kt, kc = classify(t_def.value, local), classify(c_def.value, local)
    if kt == kc == "ascending":
        res.ok("EIG-unf", fi.short, desc, prog.loc(fi, t_def), f"both {ast.unparse(c_def.value)[:40]}")
    elif "?" in (kt, kc):
        res.undecided("EIG-unf", fi.short, desc, prog.loc(fi, t_def), f'"t": {kt}; cdims-only: {kc}')
    else:
        res.bad("EIG-unf", fi.short, desc, prog.loc(fi, t_def),
                f'the "t" layout lists the remaining modes {kt} (`{ast.unparse(t_def.value)[:40]}`), the cdims-only layout {kc}: for a Tucker tensor with a '
                "sparse core the two unfoldings multiplied in nvecs use different row orders for every interior mode")


def gram_degree(prog: Program, res: Result) -> None:
    from fractions import Fraction
    from .. import degree as D
    for cls, field in (("tensor", "data"), ("sptensor", "vals"), ("ktensor", "weights"), ("ttensor", "core")):
        meths = {fi.name: fi.node for q, fi in prog.functions.items() if fi.cls == cls and not fi.parent and fi.module == "pyttb." + cls}
        fi = prog.func(f"{cls}.{cls}.nvecs")
        dg = D.DegreeOf(meths, field)
        _, seen = dg.run(meths["nvecs"], watch=("eigh", "eigsh", "eig", "eigs", "svd"))
        solvers = {id(c): c for c in ast.walk(fi.node) if isinstance(c, ast.Call) and (dotted(c.func) or "").split(".")[-1] in ("eigh", "eigsh", "eig", "eigs", "svd")}
        if not seen:
            res.undecided("EIG-gram", fi.short, f"the solver input is quadratic in self.{field}", prog.loc(fi), "no solver call reached")
        rets, _ = dg.run(meths["nvecs"])
        desc0 = f"the returned vectors are scale-free (degree 0 in self.{field}), as unit-norm eigenvectors are"
        from functools import reduce
        dr = reduce(D.join, [v for _, v in rets], "BOT") if rets else None
        dr = None if dr == "BOT" else dr
        if dr == Fraction(0):
            res.ok("EIG-gram", fi.short, desc0, prog.loc(fi, rets[-1][0]))
        elif dr is None:
            res.undecided("EIG-gram", fi.short, desc0, prog.loc(fi), "an expression outside the degree table")
        else:
            bad_ret = next((r for r, v in rets if v not in (Fraction(0), D.POLY)), rets[-1][0])
            res.bad("EIG-gram", fi.short, desc0, prog.loc(fi, bad_ret),
                    f"the result has degree {D.fmt(dr)} in self.{field}: its columns change length when the tensor is rescaled, so they are not unit "
                    "vectors (eigenvectors lifted through the unfolding have length sqrt(eigenvalue) and must be divided by exactly that)")
        for cid, d in seen.items():
            c = solvers.get(cid)
            solver = (dotted(c.func) or "").split(".")[-1] if c is not None else "?"
            want = Fraction(1) if solver == "svd" else Fraction(2)
            desc = f"the matrix handed to {solver} is homogeneous of degree {want} in self.{field}"
            where = prog.loc(fi, c) if c is not None else prog.loc(fi)
            if d == want:
                res.ok("EIG-gram", fi.short, desc, where)
            elif d is None:
                res.undecided("EIG-gram", fi.short, desc, where, "an expression outside the degree table")
            else:
                res.bad("EIG-gram", fi.short, desc, where,
                        f"`{ast.unparse(c.args[0])[:40] if c is not None else ''}` has degree {D.fmt(d)} in self.{field}: it is not X_n X_n^T "
                        "(which is quadratic in the tensor's values), so its eigenvectors are not those of the mode-n Gram matrix")


def check(prog: Program, res: Result, tier: str) -> None:
    res.explanation = __doc__.split("\n\n", 1)[1]
    res.assumptions = [
        "scipy contract: eigh/eigsh return real eigenvalues and orthonormal eigenvectors as COLUMNS (eigh ascending, "
        "eigsh unspecified order, k vectors); eig/eigs are general solvers with complex results",
        "eigsh(which='LM', default) selects largest-magnitude eigenvalues",
    ]
    res.floors = {"EIG-ret": 8, "EIG-sign": 4, "EIG-sib": 4, "EIG-unf": 2, "EIG-gram": 10}
    unfold_conventions(prog, res)
    complement_order(prog, res)
    gram_degree(prog, res)
    for short in NVECS:
        eig_ret(prog, res, short)
        sign_rule(prog, res, short)
    conds = {}
    for short in NVECS:
        c, node = branch_cond(prog, short)
        conds[short] = (c, node)
    vals = [c for c, _ in conds.values() if c is not None]
    majority = max(set(vals), key=vals.count) if vals else None
    for short, (c, node) in conds.items():
        fi = prog.func(short)
        desc = "iterative solver chosen iff r < size - 1 (same condition in all four siblings)"
        if c is None:
            res.undecided("EIG-sib", short, desc, prog.loc(fi))
        elif c[1] == "Lt" and c[2] == 1 and c == majority:
            res.ok("EIG-sib", short, desc, prog.loc(fi, node))
        else:
            res.bad("EIG-sib", short, desc, prog.loc(fi, node),
                    f"condition {c} deviates (iterative eigsh requires k < size; siblings use r < size - 1)")
