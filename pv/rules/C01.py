"""C01 — converting between tensor representations preserves the tensor.

Decided (E3 / E4a on every conversion path: constructors, find, to_sptensor, full, double, to_tensor,
to_tenmat, to_sptenmat, sptenmat.to_sptensor, from_array, gather_wrap_dims, khatrirao):
  EO-cls  all seven classes report memory order F
  EO-1    every reshape-family call passes an order that evaluates to F (or is a reviewed order-irrelevant site);
          every tt_ind2sub / tt_sub2ind call keeps first-index-fastest numbering
  EO-2    listings combined element-wise (nonzero scan vs. subscripts, scatter index vs. values) share one order
  KR      Kruskal -> dense takes both Khatri-Rao products in reverse
  INV     tenmat -> tensor un-permutes with argsort of the permutation it reshaped by
  PS      sparse matricisation / de-matricisation use one selector for the shape entries and the subscript columns,
          rows from column 0 <-> rdims and columns from column 1 <-> cdims on both sides
  REP     full / double / to_tensor of Kruskal, Tucker, sum, sparse and matricised objects read every defining
          component (weights AND factors, core AND factors, subs AND vals AND shape, every part, data AND index sets)
  IX-dom / IX-seq / IX-pair  on the sparse conversion paths (constructors, to_sptenmat, to_sptensor, full) index arrays address
          the list they were computed for and subscripts / values stay aligned (path-sensitive, E4)
  IX-cnt  sparse results are built from subscripts and values with equal symbolic row counts
  CYC     gather_wrap_dims lists the column modes of a single-row-mode matricisation as the conventions say: forward cyclic
          r+1..N-1, 0..r-1 and backward cyclic r-1..0, N-1..r+1 (compared as range pieces over symbolic N and r)
Not decided: element-for-element equality; empty-side and single-nonzero values; numerics of the Kruskal / Tucker
reconstruction.
"""
from __future__ import annotations

import ast
from typing import Dict, List

from ..model import Program, dotted, TENSOR_CLASSES, AnalysisError, kwarg, const
from ..report import Result
from . import eo_common as E

FUNCS = [
    "tensor.tensor.__init__", "tensor.tensor.find", "tensor.tensor.to_sptensor", "tensor.tensor.to_tenmat", "tensor.tensor.full",
    "tensor.tensor.double", "sptensor.sptensor.full", "sptensor.sptensor.double", "sptensor.sptensor.to_tensor",
    "sptensor.sptensor.to_sptenmat", "sptensor.sptensor.spmatrix", "ktensor.ktensor.full", "ktensor.ktensor.double",
    "ktensor.ktensor.to_tenmat", "ktensor.ktensor.to_tensor", "ttensor.ttensor.full", "ttensor.ttensor.double",
    "ttensor.ttensor.to_tensor", "sumtensor.sumtensor.full", "sumtensor.sumtensor.double", "sumtensor.sumtensor.to_tensor",
    "tenmat.tenmat.__init__", "tenmat.tenmat.to_tensor", "tenmat.tenmat.double", "sptenmat.sptenmat.__init__",
    "sptenmat.sptenmat.to_sptensor", "sptenmat.sptenmat.full", "sptenmat.sptenmat.double", "sptenmat.sptenmat.from_array",
    "pyttb_utils.gather_wrap_dims", "pyttb_utils.tt_ind2sub", "pyttb_utils.tt_sub2ind", "khatrirao.khatrirao",
]
REP = {
    "ktensor": ({"weights", "factor_matrices"}, ["full", "double", "to_tensor", "to_tenmat"]),
    "ttensor": ({"core", "factor_matrices"}, ["full", "double", "to_tensor"]),
    "sptensor": ({"subs", "vals", "shape"}, ["full", "double", "to_tensor", "to_sptenmat"]),
    "sumtensor": ({"parts"}, ["full", "double", "to_tensor"]),
    "tenmat": ({"data", "rindices", "cindices", "tshape"}, ["to_tensor"]),
    "sptenmat": ({"subs", "vals", "rdims", "cdims", "tshape"}, ["to_sptensor", "full"]),
    "tensor": ({"data"}, ["to_sptensor", "to_tenmat", "find", "double"]),
}


def check(prog: Program, res: Result, tier: str) -> None:
    res.explanation = __doc__.split("\n\n", 1)[1]
    res.assumptions = [
        "numpy contracts: default order C for reshape/ravel/flatten/unravel_index/ravel_multi_index; transpose(x, p) semantics",
        "trusted row-helper contracts (DESIGN §1); operands well-formed (rows(subs) == rows(vals) == nnz)",
    ]
    res.floors = {"EO-cls": 7, "EO-1": 18, "KR": 2, "INV": 1, "PS": 4, "REP": 18, "IX-cnt": 2, "IX-dom": 2, "CYC": 2}
    for f in FUNCS:
        prog.func(f)
    sel = lambda fi: fi.short in FUNCS
    E.eo_cls(prog, res, TENSOR_CLASSES)
    E.eo1(prog, res, sel)
    E.eo2(prog, res, sel)
    E.kr(prog, res, sel, exempt=set())
    E.inv(prog, res, ["tenmat.tenmat.to_tensor"])
    E.ps(prog, res, sel)
    for cls, (req, methods) in REP.items():
        E.rep(prog, res, cls, req, methods)
    E.cnt_ctor(prog, res, sel)
    from . import ix_common as I
    I.ix_rules(prog, res, sel, ("IX-dom", "IX-seq", "IX-pair"))
    _matricise_roles(prog, res)
    _spmatrix_shape(prog, res)
    _cyclic_conventions(prog, res)


def _range_pieces(fi, e: ast.expr, sym, depth: int = 0, env=None):
    """An index list written with range / arange pieces as [(start, stop, step), ...] over the symbols of `sym`; None = not of that form."""
    import sympy as sp
    env = env or {}
    if depth > 8:
        return None

    def num(x):
        if isinstance(x, ast.Name) and x.id in env:
            return num(env[x.id])
        if isinstance(x, ast.Constant) and isinstance(x.value, int) and not isinstance(x.value, bool):
            return sp.Integer(x.value)
        if isinstance(x, ast.UnaryOp) and isinstance(x.op, ast.USub):
            v = num(x.operand)
            return None if v is None else -v
        if isinstance(x, ast.BinOp) and isinstance(x.op, (ast.Add, ast.Sub)):
            a, b = num(x.left), num(x.right)
            if a is None or b is None:
                return None
            return a + b if isinstance(x.op, ast.Add) else a - b
        if isinstance(x, ast.Call) and dotted(x.func) == "int" and len(x.args) == 1:
            return num(x.args[0])
        t = fi.rtext(x).replace(" ", "")
        return sym.get(t)

    def rev(ps):
        out = []
        for a, b, st in reversed(ps):
            out.append((b - 1, a - 1, -1) if st == 1 else (b + 1, a + 1, 1))
        return out

    if isinstance(e, ast.Name):
        if e.id in env:
            return _range_pieces(fi, env[e.id], sym, depth + 1, env)
        r = fi.resolve(e)
        return None if r is e or isinstance(r, ast.Name) else _range_pieces(fi, r, sym, depth + 1, env)
    if isinstance(e, ast.BinOp) and isinstance(e.op, ast.Add):
        a, b = _range_pieces(fi, e.left, sym, depth + 1, env), _range_pieces(fi, e.right, sym, depth + 1, env)
        return None if a is None or b is None else a + b
    if isinstance(e, (ast.List, ast.Tuple)):
        out = []
        for x in e.elts:
            if not isinstance(x, ast.Starred):
                return None
            ps = _range_pieces(fi, x.value, sym, depth + 1, env)
            if ps is None:
                return None
            out += ps
        return out
    if isinstance(e, ast.ListComp) and len(e.generators) == 1 and not e.generators[0].ifs and isinstance(e.elt, ast.Name) \
            and isinstance(e.generators[0].target, ast.Name) and e.elt.id == e.generators[0].target.id:
        return _range_pieces(fi, e.generators[0].iter, sym, depth + 1, env)
    if isinstance(e, ast.Subscript) and isinstance(e.slice, ast.Slice) and e.slice.lower is None and e.slice.upper is None \
            and e.slice.step is not None and const(e.slice.step) == -1:
        ps = _range_pieces(fi, e.value, sym, depth + 1, env)
        return None if ps is None else rev(ps)
    if isinstance(e, ast.Call):
        nm = dotted(e.func) or ""
        base = nm.split(".")[-1]
        if base in ("array", "asarray", "list", "tuple") and len(e.args) >= 1:
            return _range_pieces(fi, e.args[0], sym, depth + 1, env)
        if base in ("concatenate", "hstack") and e.args and isinstance(e.args[0], (ast.Tuple, ast.List)):
            out = []
            for x in e.args[0].elts:
                ps = _range_pieces(fi, x, sym, depth + 1, env)
                if ps is None:
                    return None
                out += ps
            return out
        if base in ("reversed", "flip") and len(e.args) == 1:
            ps = _range_pieces(fi, e.args[0], sym, depth + 1, env)
            return None if ps is None else rev(ps)
        if base in ("range", "arange") and 1 <= len(e.args) <= 3 and not e.keywords:
            vals = [num(x) for x in e.args]
            if any(v is None for v in vals):
                return None
            if len(vals) == 1:
                return [(sp.Integer(0), vals[0], 1)]
            st = 1 if len(vals) == 2 else vals[2]
            if st not in (1, -1):
                return None
            return [(vals[0], vals[1], int(st))]
    return None


def _cyclic_conventions(prog: Program, res: Result) -> None:
    """gather_wrap_dims: with one row mode r of an N-way tensor the column modes are
         forward cyclic  "fc": r+1, ..., N-1, 0, ..., r-1        backward cyclic "bc": r-1, ..., 0, N-1, ..., r+1
    (Kiers / De Lathauwer et al., as the docstring states). Decided on the range pieces the two lists are written with."""
    import sympy as sp
    fi = prog.func("pyttb_utils.gather_wrap_dims")
    params = fi.params()
    if len(params) < 3:
        raise AnalysisError("gather_wrap_dims: unexpected signature")
    N, r = sp.Symbol("N", integer=True), sp.Symbol("r", integer=True)
    sym = {params[0]: N, f"{params[1]}[0]": r, f"{params[1]}.item()": r}
    want = {"fc": [(r + 1, N, 1), (sp.Integer(0), r, 1)], "bc": [(r - 1, sp.Integer(-1), -1), (N - 1, r, -1)]}
    names = {"fc": "forward cyclic (r+1..N-1, 0..r-1)", "bc": "backward cyclic (r-1..0, N-1..r+1)"}
    found: Dict[str, List[ast.Assign]] = {}

    def literal_of(test: ast.expr):
        if isinstance(test, ast.Compare) and len(test.ops) == 1 and isinstance(test.ops[0], ast.Eq):
            for a, b in ((test.left, test.comparators[0]), (test.comparators[0], test.left)):
                if isinstance(b, ast.Constant) and isinstance(b.value, str) and "cyclic" in fi.rtext(a):
                    return b.value
        return None

    for n in ast.walk(fi.node):
        if isinstance(n, ast.If):
            lit = literal_of(n.test)
            if lit in want:
                local = {}
                for st in n.body:
                    if isinstance(st, ast.Assign) and len(st.targets) == 1 and isinstance(st.targets[0], ast.Name) and st.targets[0].id == params[2]:
                        found.setdefault(lit, []).append((st, dict(local)))
                    elif isinstance(st, ast.Assign) and len(st.targets) == 1 and isinstance(st.targets[0], ast.Name):
                        local[st.targets[0].id] = st.value      # straight-line locals of the branch (re-used names in sibling branches)

    def norm(ps):
        # empty pieces are dropped only when provably empty; equal adjacent directions are not merged (not needed)
        return [(sp.simplify(a), sp.simplify(b), st) for a, b, st in ps]
    for lit in ("fc", "bc"):
        desc = f'the "{lit}" column modes are {names[lit]}'
        sts = found.get(lit, [])
        if not sts:
            res.undecided("CYC", fi.short, desc, prog.loc(fi), f'no assignment to `{params[2]}` under a test of the convention against "{lit}"')
            continue
        for st, local in sts:
            ps = _range_pieces(fi, st.value, sym, 0, local)
            if ps is None:
                res.undecided("CYC", fi.short, desc, prog.loc(fi, st), "the list is not written with range pieces over ndims and rdims[0]")
            elif norm(ps) == norm(want[lit]):
                res.ok("CYC", fi.short, desc, prog.loc(fi, st), "; ".join(f"range({a}, {b}, {s_})" for a, b, s_ in ps))
            else:
                res.bad("CYC", fi.short, desc, prog.loc(fi, st),
                        "the list is " + " + ".join(f"range({a}, {b}, {s_})" for a, b, s_ in ps) + ", the convention is " +
                        " + ".join(f"range({a}, {b}, {s_})" for a, b, s_ in want[lit]) +
                        " — the matricised object stays self-consistent, but its columns are not in the order the convention (and every "
                        "consumer relying on it) states")


def _spmatrix_shape(prog: Program, res: Result) -> None:
    """sptensor.spmatrix: every scipy matrix it builds is given the tensor's shape (without it scipy infers the size from the largest stored
    subscript, and trailing empty rows / columns of the tensor disappear)."""
    fi = prog.func("sptensor.sptensor.spmatrix")
    me = fi.params()[0]
    calls = [c for c in ast.walk(fi.node) if isinstance(c, ast.Call) and (dotted(c.func) or "").split(".")[-1] in
             ("coo_matrix", "csr_matrix", "csc_matrix", "coo_array", "csr_array", "csc_array")]
    desc = "the scipy matrix is built with the tensor's shape"
    if not calls:
        res.undecided("REP", fi.short, desc, prog.loc(fi), "no scipy sparse constructor found")
    for c in calls:
        shape_arg = kwarg(c, "shape")
        if shape_arg is None and len(c.args) >= 2:
            shape_arg = c.args[1]
        if shape_arg is None and len(c.args) == 1 and fi.rtext(c.args[0]).replace(" ", "") in (f"{me}.shape", f"tuple({me}.shape)"):
            shape_arg = c.args[0]          # coo_matrix(shape): an empty matrix of that shape
        if shape_arg is not None and f"{me}.shape" in fi.rtext(shape_arg):
            res.ok("REP", fi.short, desc + f": {ast.unparse(c)[:50]}", prog.loc(fi, c))
        else:
            res.bad("REP", fi.short, desc + f": {ast.unparse(c)[:50]}", prog.loc(fi, c),
                    "no shape is passed: scipy sizes the matrix by the largest stored subscript, so a tensor whose last rows / columns hold no "
                    "entry converts to a smaller matrix (and every consumer of the unfolding, e.g. nvecs, returns too few rows)")


def _matricise_roles(prog: Program, res: Result) -> None:
    # sptensor.to_sptenmat: hstack([row index, column index]); constructor gets (.., rdims, cdims, ..) in that order
    fi = prog.func("sptensor.sptensor.to_sptenmat")
    defs = {}
    for n in ast.walk(fi.node):
        if isinstance(n, ast.Assign) and isinstance(n.targets[0], ast.Name) and isinstance(n.value, ast.Call) \
                and (dotted(n.value.func) or "") == "tt_sub2ind":
            defs[n.targets[0].id] = ast.unparse(n.value)
    desc = "row index (from rdims) is column 0 and column index (from cdims) is column 1 of the matricised subscripts"
    hs = None
    for c in ast.walk(fi.node):
        if isinstance(c, ast.Call) and (dotted(c.func) or "").split(".")[-1] in ("hstack", "column_stack", "concatenate") and c.args \
                and isinstance(c.args[0], (ast.List, ast.Tuple)) and len(c.args[0].elts) == 2:
            hs = c
    if hs is None:
        res.undecided("PS", fi.short, desc, prog.loc(fi))
    else:
        a, b = (ast.unparse(x) for x in hs.args[0].elts)
        ra, rb = defs.get(a, ""), defs.get(b, "")
        if "rdims" in ra and "cdims" in rb:
            res.ok("PS", fi.short, desc, prog.loc(fi, hs), f"[{a}, {b}]")
        elif "cdims" in ra and "rdims" in rb:
            res.bad("PS", fi.short, desc, prog.loc(fi, hs), "column index is stored first: rows and columns of every matricisation are swapped")
        else:
            res.undecided("PS", fi.short, desc, prog.loc(fi, hs))
    ctor = [c for c in ast.walk(fi.node) if isinstance(c, ast.Call) and (dotted(c.func) or "").split(".")[-1] == "sptenmat"]
    desc = "the sparse matricisation is constructed with (rdims, cdims) in that order"
    if ctor and len(ctor[-1].args) >= 4:
        r, c_ = ast.unparse(ctor[-1].args[2]), ast.unparse(ctor[-1].args[3])
        if "rdims" in r and "cdims" in c_:
            res.ok("PS", fi.short, desc, prog.loc(fi, ctor[-1]))
        else:
            res.bad("PS", fi.short, desc, prog.loc(fi, ctor[-1]), f"constructor receives ({r}, {c_})")
    # sptenmat.to_sptensor: write-back selectors
    fi = prog.func("sptenmat.sptenmat.to_sptensor")
    conv = {}
    for n in ast.walk(fi.node):
        if isinstance(n, ast.Assign) and isinstance(n.targets[0], ast.Name) and isinstance(n.value, ast.Call) \
                and (dotted(n.value.func) or "") == "tt_ind2sub" and len(n.value.args) >= 2:
            shp, idx = n.value.args[0], n.value.args[1]
            sel = ast.unparse(shp.slice) if isinstance(shp, ast.Subscript) else None
            col = None
            if isinstance(idx, ast.Subscript) and isinstance(idx.slice, ast.Tuple) and len(idx.slice.elts) == 2:
                col = ast.unparse(idx.slice.elts[1])
            conv[n.targets[0].id] = (sel, col)
    n_ok = 0
    for n in ast.walk(fi.node):
        if isinstance(n, ast.Assign) and isinstance(n.targets[0], ast.Subscript) and isinstance(n.value, ast.Name) and n.value.id in conv:
            t = n.targets[0]
            if isinstance(t.slice, ast.Tuple) and len(t.slice.elts) == 2:
                dst = ast.unparse(t.slice.elts[1])
                sel, col = conv[n.value.id]
                desc = f"subscripts decoded with shape[{sel}] are written back to columns {sel}"
                if dst == sel:
                    want_col = "0" if "rdims" in (sel or "") else "1" if "cdims" in (sel or "") else None
                    if want_col is not None and col != want_col:
                        res.bad("PS", fi.short, desc, prog.loc(fi, n), f"decodes matrix column {col} with the {sel} sizes (rows are column 0, columns are column 1)")
                    else:
                        res.ok("PS", fi.short, desc, prog.loc(fi, n))
                        n_ok += 1
                else:
                    res.bad("PS", fi.short, desc, prog.loc(fi, n), f"decoded with shape[{sel}] but stored into columns {dst}")
    if n_ok == 0 and not conv:
        res.undecided("PS", fi.short, "write-back selectors of sptenmat.to_sptensor", prog.loc(fi))

    # tensor.to_tenmat: the permutation applied to the data is (rdims, cdims) - row modes first - on every path
    fi = prog.func("tensor.tensor.to_tenmat")
    desc = "the dense matricisation lays the data out by the permutation (rdims, cdims): every definition of that permutation is built from them, rows first"
    tr = [c for c in ast.walk(fi.node) if isinstance(c, ast.Call) and (dotted(c.func) or "").split(".")[-1] == "transpose" and len(c.args) >= 2]
    mv = [c for c in ast.walk(fi.node) if isinstance(c, ast.Call) and (dotted(c.func) or "").split(".")[-1] == "moveaxis" and len(c.args) == 3]

    def _is_mode_range(e):
        t = fi.rtext(e).replace(" ", "")
        return t in ("np.arange(self.ndims)", "np.arange(0,self.ndims)", "range(self.ndims)", "np.arange(len(self.shape))", "range(len(self.shape))",
                     "list(range(self.ndims))")
    inverse_move = None
    if not tr and mv:
        # np.moveaxis(a, source, destination): with destination = 0..n-1 it is transpose(a, source); with source = 0..n-1 it sends axis k to
        # position destination[k], which is the transposition by the INVERSE of destination
        src, dst = mv[0].args[1], mv[0].args[2]
        if _is_mode_range(dst) and isinstance(src, ast.Name):
            tr = [ast.Call(func=mv[0].func, args=[mv[0].args[0], src], keywords=[])]
            ast.copy_location(tr[0], mv[0])
        elif _is_mode_range(src):
            inverse_move = mv[0]
    if inverse_move is not None:
        res.bad("PS", fi.short, desc, prog.loc(fi, inverse_move),
                f"`{ast.unparse(inverse_move)[:80]}` sends axis k to position {ast.unparse(inverse_move.args[2])}[k]: the data is laid out by the INVERSE of the "
                "recorded mode order (wrong for every order that is not its own inverse)")
    elif not tr or not isinstance(tr[0].args[1], ast.Name):
        res.undecided("PS", fi.short, desc, prog.loc(fi), "transpose(self.data, <name>) not found")
    else:
        pname = tr[0].args[1].id
        pdefs = [n for n in ast.walk(fi.node) if isinstance(n, ast.Assign) and len(n.targets) == 1 and isinstance(n.targets[0], ast.Name)
                 and n.targets[0].id == pname]
        problems = []
        for d in pdefs:
            names = [x.id for x in ast.walk(d.value) if isinstance(x, ast.Name) and x.id in ("rdims", "cdims")]
            txt = ast.unparse(d.value)
            if not names:
                problems.append((d, f"`{pname} = {txt[:50]}` does not depend on rdims / cdims: the data is laid out in another mode order than the "
                                    "matricisation records (visible for a one-sided split whose modes are not ascending)"))
            elif names[0] == "cdims" and "rdims" in names:
                problems.append((d, f"`{pname} = {txt[:50]}` lists the column modes first"))
        if not pdefs:
            res.undecided("PS", fi.short, desc, prog.loc(fi, tr[0]), f"no definition of `{pname}`")
        elif problems:
            res.bad("PS", fi.short, desc, prog.loc(fi, problems[0][0]), problems[0][1])
        else:
            res.ok("PS", fi.short, desc, prog.loc(fi, tr[0]), f"{len(pdefs)} definition(s) of `{pname}`")
