"""C01 — converting between tensor representations preserves the tensor.

Decided (E3 / E4a on every conversion path: constructors, find, to_sptensor, full, double, to_tensor,
to_tenmat, to_sptenmat, sptenmat.to_sptensor, from_array, gather_wrap_dims, khatrirao):
  EO-cls  all seven classes report memory order F
  EO-1    every reshape-family call passes an order that evaluates to F (or is a reviewed order-irrelevant site);
          every tt_ind2sub / tt_sub2ind call keeps first-index-fastest numbering
  EO-2    listings combined element-wise (nonzero scan vs. subscripts, scatter index vs. values) share one order
  KR      Kruskal -> dense takes both Khatri-Rao products in reverse
  INV     tenmat -> tensor un-permutes with argsort of the permutation it reshaped by
  PS      sparse matricisation / de-matricisation use one selector for the shape entries and the subscript columns,
          rows from column 0 <-> rdims and columns from column 1 <-> cdims on both sides
  REP     full / double / to_tensor of Kruskal, Tucker, sum, sparse and matricised objects read every defining
          component (weights AND factors, core AND factors, subs AND vals AND shape, every part, data AND index sets)
  IX-dom / IX-seq / IX-pair  on the sparse conversion paths (constructors, to_sptenmat, to_sptensor, full) index arrays address
          the list they were computed for and subscripts / values stay aligned (path-sensitive, E4)
  IX-cnt  sparse results are built from subscripts and values with equal symbolic row counts
Not decided: element-for-element equality; empty-side and single-nonzero values; numerics of the Kruskal / Tucker
reconstruction.
"""
from __future__ import annotations

import ast

from ..model import Program, dotted, TENSOR_CLASSES, AnalysisError, kwarg
from ..report import Result
from . import eo_common as E

FUNCS = [
    "tensor.tensor.__init__", "tensor.tensor.find", "tensor.tensor.to_sptensor", "tensor.tensor.to_tenmat", "tensor.tensor.full",
    "tensor.tensor.double", "sptensor.sptensor.full", "sptensor.sptensor.double", "sptensor.sptensor.to_tensor",
    "sptensor.sptensor.to_sptenmat", "sptensor.sptensor.spmatrix", "ktensor.ktensor.full", "ktensor.ktensor.double",
    "ktensor.ktensor.to_tenmat", "ktensor.ktensor.to_tensor", "ttensor.ttensor.full", "ttensor.ttensor.double",
    "ttensor.ttensor.to_tensor", "sumtensor.sumtensor.full", "sumtensor.sumtensor.double", "sumtensor.sumtensor.to_tensor",
    "tenmat.tenmat.__init__", "tenmat.tenmat.to_tensor", "tenmat.tenmat.double", "sptenmat.sptenmat.__init__",
    "sptenmat.sptenmat.to_sptensor", "sptenmat.sptenmat.full", "sptenmat.sptenmat.double", "sptenmat.sptenmat.from_array",
    "pyttb_utils.gather_wrap_dims", "pyttb_utils.tt_ind2sub", "pyttb_utils.tt_sub2ind", "khatrirao.khatrirao",
]
REP = {
    "ktensor": ({"weights", "factor_matrices"}, ["full", "double", "to_tensor", "to_tenmat"]),
    "ttensor": ({"core", "factor_matrices"}, ["full", "double", "to_tensor"]),
    "sptensor": ({"subs", "vals", "shape"}, ["full", "double", "to_tensor", "to_sptenmat"]),
    "sumtensor": ({"parts"}, ["full", "double", "to_tensor"]),
    "tenmat": ({"data", "rindices", "cindices", "tshape"}, ["to_tensor"]),
    "sptenmat": ({"subs", "vals", "rdims", "cdims", "tshape"}, ["to_sptensor", "full"]),
    "tensor": ({"data"}, ["to_sptensor", "to_tenmat", "find", "double"]),
}


def check(prog: Program, res: Result, tier: str) -> None:
    res.explanation = __doc__.split("\n\n", 1)[1]
    res.assumptions = [
        "numpy contracts: default order C for reshape/ravel/flatten/unravel_index/ravel_multi_index; transpose(x, p) semantics",
        "trusted row-helper contracts (DESIGN §1); operands well-formed (rows(subs) == rows(vals) == nnz)",
    ]
    res.floors = {"EO-cls": 7, "EO-1": 18, "KR": 2, "INV": 1, "PS": 4, "REP": 18, "IX-cnt": 2, "IX-dom": 2}
    for f in FUNCS:
        prog.func(f)
    sel = lambda fi: fi.short in FUNCS
    E.eo_cls(prog, res, TENSOR_CLASSES)
    E.eo1(prog, res, sel)
    E.eo2(prog, res, sel)
    E.kr(prog, res, sel, exempt=set())
    E.inv(prog, res, ["tenmat.tenmat.to_tensor"])
    E.ps(prog, res, sel)
    for cls, (req, methods) in REP.items():
        E.rep(prog, res, cls, req, methods)
    E.cnt_ctor(prog, res, sel)
    from . import ix_common as I
    I.ix_rules(prog, res, sel, ("IX-dom", "IX-seq", "IX-pair"))
    _matricise_roles(prog, res)
    _spmatrix_shape(prog, res)


def _spmatrix_shape(prog: Program, res: Result) -> None:
    """sptensor.spmatrix: every scipy matrix it builds is given the tensor's shape (without it scipy infers the size from the largest stored
    subscript, and trailing empty rows / columns of the tensor disappear)."""
    fi = prog.func("sptensor.sptensor.spmatrix")
    me = fi.params()[0]
    calls = [c for c in ast.walk(fi.node) if isinstance(c, ast.Call) and (dotted(c.func) or "").split(".")[-1] in
             ("coo_matrix", "csr_matrix", "csc_matrix", "coo_array", "csr_array", "csc_array")]
    desc = "the scipy matrix is built with the tensor's shape"
    if not calls:
        res.undecided("REP", fi.short, desc, prog.loc(fi), "no scipy sparse constructor found")
    for c in calls:
        shape_arg = kwarg(c, "shape")
        if shape_arg is None and len(c.args) >= 2:
            shape_arg = c.args[1]
        if shape_arg is None and len(c.args) == 1 and fi.rtext(c.args[0]).replace(" ", "") in (f"{me}.shape", f"tuple({me}.shape)"):
            shape_arg = c.args[0]          # coo_matrix(shape): an empty matrix of that shape
        if shape_arg is not None and f"{me}.shape" in fi.rtext(shape_arg):
            res.ok("REP", fi.short, desc + f": {ast.unparse(c)[:50]}", prog.loc(fi, c))
        else:
            res.bad("REP", fi.short, desc + f": {ast.unparse(c)[:50]}", prog.loc(fi, c),
                    "no shape is passed: scipy sizes the matrix by the largest stored subscript, so a tensor whose last rows / columns hold no "
                    "entry converts to a smaller matrix (and every consumer of the unfolding, e.g. nvecs, returns too few rows)")


def _matricise_roles(prog: Program, res: Result) -> None:
    # sptensor.to_sptenmat: hstack([row index, column index]); constructor gets (.., rdims, cdims, ..) in that order
    fi = prog.func("sptensor.sptensor.to_sptenmat")
    defs = {}
    for n in ast.walk(fi.node):
        if isinstance(n, ast.Assign) and isinstance(n.targets[0], ast.Name) and isinstance(n.value, ast.Call) \
                and (dotted(n.value.func) or "") == "tt_sub2ind":
            defs[n.targets[0].id] = ast.unparse(n.value)
    desc = "row index (from rdims) is column 0 and column index (from cdims) is column 1 of the matricised subscripts"
    hs = None
    for c in ast.walk(fi.node):
        if isinstance(c, ast.Call) and (dotted(c.func) or "").split(".")[-1] in ("hstack", "column_stack", "concatenate") and c.args \
                and isinstance(c.args[0], (ast.List, ast.Tuple)) and len(c.args[0].elts) == 2:
            hs = c
    if hs is None:
        res.undecided("PS", fi.short, desc, prog.loc(fi))
    else:
        a, b = (ast.unparse(x) for x in hs.args[0].elts)
        ra, rb = defs.get(a, ""), defs.get(b, "")
        if "rdims" in ra and "cdims" in rb:
            res.ok("PS", fi.short, desc, prog.loc(fi, hs), f"[{a}, {b}]")
        elif "cdims" in ra and "rdims" in rb:
            res.bad("PS", fi.short, desc, prog.loc(fi, hs), "column index is stored first: rows and columns of every matricisation are swapped")
        else:
            res.undecided("PS", fi.short, desc, prog.loc(fi, hs))
    ctor = [c for c in ast.walk(fi.node) if isinstance(c, ast.Call) and (dotted(c.func) or "").split(".")[-1] == "sptenmat"]
    desc = "the sparse matricisation is constructed with (rdims, cdims) in that order"
    if ctor and len(ctor[-1].args) >= 4:
        r, c_ = ast.unparse(ctor[-1].args[2]), ast.unparse(ctor[-1].args[3])
        if "rdims" in r and "cdims" in c_:
            res.ok("PS", fi.short, desc, prog.loc(fi, ctor[-1]))
        else:
            res.bad("PS", fi.short, desc, prog.loc(fi, ctor[-1]), f"constructor receives ({r}, {c_})")
    # sptenmat.to_sptensor: write-back selectors
    fi = prog.func("sptenmat.sptenmat.to_sptensor")
    conv = {}
    for n in ast.walk(fi.node):
        if isinstance(n, ast.Assign) and isinstance(n.targets[0], ast.Name) and isinstance(n.value, ast.Call) \
                and (dotted(n.value.func) or "") == "tt_ind2sub" and len(n.value.args) >= 2:
            shp, idx = n.value.args[0], n.value.args[1]
            sel = ast.unparse(shp.slice) if isinstance(shp, ast.Subscript) else None
            col = None
            if isinstance(idx, ast.Subscript) and isinstance(idx.slice, ast.Tuple) and len(idx.slice.elts) == 2:
                col = ast.unparse(idx.slice.elts[1])
            conv[n.targets[0].id] = (sel, col)
    n_ok = 0
    for n in ast.walk(fi.node):
        if isinstance(n, ast.Assign) and isinstance(n.targets[0], ast.Subscript) and isinstance(n.value, ast.Name) and n.value.id in conv:
            t = n.targets[0]
            if isinstance(t.slice, ast.Tuple) and len(t.slice.elts) == 2:
                dst = ast.unparse(t.slice.elts[1])
                sel, col = conv[n.value.id]
                desc = f"subscripts decoded with shape[{sel}] are written back to columns {sel}"
                if dst == sel:
                    want_col = "0" if "rdims" in (sel or "") else "1" if "cdims" in (sel or "") else None
                    if want_col is not None and col != want_col:
                        res.bad("PS", fi.short, desc, prog.loc(fi, n), f"decodes matrix column {col} with the {sel} sizes (rows are column 0, columns are column 1)")
                    else:
                        res.ok("PS", fi.short, desc, prog.loc(fi, n))
                        n_ok += 1
                else:
                    res.bad("PS", fi.short, desc, prog.loc(fi, n), f"decoded with shape[{sel}] but stored into columns {dst}")
    if n_ok == 0 and not conv:
        res.undecided("PS", fi.short, "write-back selectors of sptenmat.to_sptensor", prog.loc(fi))

    # tensor.to_tenmat: the permutation applied to the data is (rdims, cdims) - row modes first - on every path
    fi = prog.func("tensor.tensor.to_tenmat")
    desc = "the dense matricisation lays the data out by the permutation (rdims, cdims): every definition of that permutation is built from them, rows first"
    tr = [c for c in ast.walk(fi.node) if isinstance(c, ast.Call) and (dotted(c.func) or "").split(".")[-1] == "transpose" and len(c.args) >= 2]
    mv = [c for c in ast.walk(fi.node) if isinstance(c, ast.Call) and (dotted(c.func) or "").split(".")[-1] == "moveaxis" and len(c.args) == 3]

    def _is_mode_range(e):
        t = fi.rtext(e).replace(" ", "")
        return t in ("np.arange(self.ndims)", "np.arange(0,self.ndims)", "range(self.ndims)", "np.arange(len(self.shape))", "range(len(self.shape))",
                     "list(range(self.ndims))")
    inverse_move = None
    if not tr and mv:
        # np.moveaxis(a, source, destination): with destination = 0..n-1 it is transpose(a, source); with source = 0..n-1 it sends axis k to
        # position destination[k], which is the transposition by the INVERSE of destination
        src, dst = mv[0].args[1], mv[0].args[2]
        if _is_mode_range(dst) and isinstance(src, ast.Name):
            tr = [ast.Call(func=mv[0].func, args=[mv[0].args[0], src], keywords=[])]
            ast.copy_location(tr[0], mv[0])
        elif _is_mode_range(src):
            inverse_move = mv[0]
    if inverse_move is not None:
        res.bad("PS", fi.short, desc, prog.loc(fi, inverse_move),
                f"`{ast.unparse(inverse_move)[:80]}` sends axis k to position {ast.unparse(inverse_move.args[2])}[k]: the data is laid out by the INVERSE of the "
                "recorded mode order (wrong for every order that is not its own inverse)")
    elif not tr or not isinstance(tr[0].args[1], ast.Name):
        res.undecided("PS", fi.short, desc, prog.loc(fi), "transpose(self.data, <name>) not found")
    else:
        pname = tr[0].args[1].id
        pdefs = [n for n in ast.walk(fi.node) if isinstance(n, ast.Assign) and len(n.targets) == 1 and isinstance(n.targets[0], ast.Name)
                 and n.targets[0].id == pname]
        problems = []
        for d in pdefs:
            names = [x.id for x in ast.walk(d.value) if isinstance(x, ast.Name) and x.id in ("rdims", "cdims")]
            txt = ast.unparse(d.value)
            if not names:
                problems.append((d, f"`{pname} = {txt[:50]}` does not depend on rdims / cdims: the data is laid out in another mode order than the "
                                    "matricisation records (visible for a one-sided split whose modes are not ascending)"))
            elif names[0] == "cdims" and "rdims" in names:
                problems.append((d, f"`{pname} = {txt[:50]}` lists the column modes first"))
        if not pdefs:
            res.undecided("PS", fi.short, desc, prog.loc(fi, tr[0]), f"no definition of `{pname}`")
        elif problems:
            res.bad("PS", fi.short, desc, prog.loc(fi, problems[0][0]), problems[0][1])
        else:
            res.ok("PS", fi.short, desc, prog.loc(fi, tr[0]), f"{len(pdefs)} definition(s) of `{pname}`")
