"""C02 — multilinear products equal their definition in every representation.

Decided (structural necessary conditions on the kernels of tensor / sptensor / ktensor / ttensor / sumtensor):
  GRAMDIR ttensor.innerprod (Tucker x Tucker): the Gram matrices applied to one tensor's core are (other's factor)^T (its own factor)
  VIDX    at every site that asks tt_dimscheck for a multiplicand index (ttv / ttm of the four classes), the multiplicand
          container is subscripted only by vidx[j], shapes / factors / modes only by dims[j], and one statement uses
          the same j for both — a container indexed by the loop counter or by dims[j] pairs multiplicands with the
          wrong modes whenever dims is not ascending or is a proper subset
  KR      Khatri-Rao products that multiply F-reshaped tensor data are taken in reverse over ascending mode lists
  EO-1    every reshape in a dense kernel is F-ordered; index conversions keep first-index-fastest numbering
  WEIGHTS an MTTKRP kernel that accepts a Kruskal operand applies its weights: it obtains the factor list through
          get_mttkrp_factors (which absorbs the weights into a factor that is NOT the skipped one) or reads .weights;
          taking operand.factor_matrices alone silently drops the weights
  FOLD    every sumtensor kernel combines parts[0] with all of parts[1:] (or iterates over all parts)
  REP     Kruskal kernels read weights AND factors, Tucker kernels core AND factors, sparse kernels subs, vals AND shape
  DTYPE   a result / accumulator array allocated with the element type of ONE operand (np.zeros(.., dtype=X.dtype)) only
          receives values computed from that operand: numpy casts silently on item assignment, so values that also
          depend on another operand (float factors into an integer tensor's accumulator) would be truncated
          (checked in every method of the tensor classes; positive fixture on every run)
  WDEG    homogeneity degree (E9, pv/degree.py): every listed kernel of tensor / sptensor / ktensor / ttensor returns a value
          that is homogeneous of degree 1 in the operand's own values (data, vals, Kruskal weights, Tucker core), computed
          like a physical dimension through products, sums, re-arrangements and calls of sibling kernels; a different
          degree means the weights / core were applied twice or dropped, a MIXED one that a constant was added
  AGG     a sparse kernel that contracts modes (ttv, collapse) projects the stored subscripts onto the remaining modes, where
          several entries then share a subscript: such a projection reaches a sparse result only through the aggregating
          constructor / accumarray, never through the plain constructor (which keeps duplicates; the last one wins on conversion)
  MOVE    the dense ttv kernel moves the contracted modes to the end of the DATA by the same permutation by which it reorders its
          SHAPE bookkeeping; the data transposition may be skipped only under a test whose failure means there is at most one
          mode (a permutation of <= 1 modes is the identity)
  PAIRED  the two mode lists of ttt are paired position by position (selfdims[k] is contracted with otherdims[k]); neither is
          replaced by the result of tt_dimscheck / sort / unique, which would sort them independently
  SC      dense look-ups by subscript arrays are normalised before use (single stored entry)
Not decided: any kernel's numbers; both sides of the 50 % densification switch; empty / scalar results.
"""
from __future__ import annotations

import ast
from typing import Dict, List, Optional, Set

from ..model import Program, FuncInfo, dotted, kwarg, const, AnalysisError, walk_no_nested
from ..report import Result
from . import eo_common as E
from . import ix_common as I

DENSE_KERNELS = ["tensor.tensor.ttv", "tensor.tensor.ttm", "tensor.tensor.mttkrp", "tensor.tensor.mttkrps", "tensor.tensor.ttt", "tensor.tensor.ttsv",
                 "tensor.tensor.innerprod", "tensor.tensor.norm", "tensor.tensor.contract", "tensor.tensor.collapse", "tensor.tensor.scale",
                 "tensor.mttv_left", "tensor.mttv_mid", "tenmat.tenmat.__mul__"]
SPARSE_KERNELS = ["sptensor.sptensor.ttv", "sptensor.sptensor.ttm", "sptensor.sptensor.mttkrp", "sptensor.sptensor.innerprod", "sptensor.sptensor.norm",
                  "sptensor.sptensor.contract", "sptensor.sptensor.collapse", "sptensor.sptensor.scale"]
REP = {
    "ktensor": ({"weights", "factor_matrices"}, ["ttv", "mttkrp", "innerprod", "norm", "mask", "full"]),
    "ttensor": ({"core", "factor_matrices"}, ["ttv", "ttm", "mttkrp", "innerprod", "norm", "reconstruct", "full"]),
    "sptensor": ({"subs", "vals", "shape"}, ["ttv", "ttm", "mttkrp", "collapse", "contract"]),
    "sumtensor": ({"parts"}, ["ttv", "mttkrp", "innerprod", "full"]),
}


def vidx_sites(prog: Program):
    for q, fi in sorted(prog.functions.items()):
        if fi.parent:
            continue
        for n in walk_no_nested(fi.node):
            if isinstance(n, ast.Assign) and isinstance(n.value, ast.Call) and (dotted(n.value.func) or "").split(".")[-1] == "tt_dimscheck":
                t = n.targets[0]
                if isinstance(t, (ast.Tuple, ast.List)) and len(t.elts) == 2 and all(isinstance(e, ast.Name) for e in t.elts) and t.elts[1].id != "_":
                    call = n.value
                    m = call.args[1] if len(call.args) > 1 else kwarg(call, "M")
                    cont = None
                    if isinstance(m, ast.Call) and isinstance(m.func, ast.Name) and m.func.id == "len" and m.args and isinstance(m.args[0], ast.Name):
                        cont = m.args[0].id
                    yield fi, n, t.elts[0].id, t.elts[1].id, cont


def vidx(prog: Program, res: Result) -> int:
    k = 0
    for fi, node, dims, vid, cont in vidx_sites(prog):
        k += 1
        desc = f"multiplicands `{cont}` are addressed through `{vid}[j]` and modes through `{dims}[j]` with one j per statement"
        if cont is None:
            res.undecided("VIDX", fi.short, desc, prog.loc(fi, node), "multiplicand container not recognised (M is not len(<name>))")
            continue
        problems = []
        uses = 0
        # only the code after the tt_dimscheck call in the same block matters (the recursive list branch)
        after = [n for n in ast.walk(fi.node) if getattr(n, "lineno", 0) > node.lineno]
        stmts = [n for n in after if isinstance(n, ast.stmt)]
        # loop variables that ARE an element of vidx / of dims: `for v in vidx`, `for v in vidx[::-1]`, `for d, v in zip(dims, vidx)`,
        # `for j, v in enumerate(vidx)`; elements bound by the same loop share their position j
        vec_elems: Dict[str, ast.AST] = {}
        dim_elems: Dict[str, ast.AST] = {}

        def seq_of(e):
            if isinstance(e, ast.Subscript) and isinstance(e.slice, ast.Slice):
                e = e.value
            if isinstance(e, ast.Call) and (dotted(e.func) or "") == "reversed" and e.args:
                e = e.args[0]
            return e.id if isinstance(e, ast.Name) else None
        for lp in [n for n in after if isinstance(n, (ast.For, ast.comprehension))]:
            it, tg = lp.iter, lp.target

            def pairs_of(tg, it, depth=0):
                """(target name, sequence it is an element of), through zip / enumerate and nested unpacking."""
                if depth > 3:
                    return []
                if isinstance(it, ast.Call) and (dotted(it.func) or "") == "zip" and isinstance(tg, (ast.Tuple, ast.List)) and len(tg.elts) == len(it.args):
                    return [p_ for t_, a_ in zip(tg.elts, it.args) for p_ in pairs_of(t_, a_, depth + 1)]
                if isinstance(it, ast.Call) and (dotted(it.func) or "") == "enumerate" and isinstance(tg, (ast.Tuple, ast.List)) and len(tg.elts) == 2 and it.args:
                    return pairs_of(tg.elts[1], it.args[0], depth + 1)
                return [(tg, it)]
            pairs = pairs_of(tg, it)
            for t_, a_ in pairs:
                if isinstance(t_, ast.Name):
                    sq = seq_of(a_)
                    if sq == vid:
                        vec_elems[t_.id] = lp
                    elif sq == dims:
                        dim_elems[t_.id] = lp
        for n in after:
            if isinstance(n, ast.Subscript) and isinstance(n.value, ast.Name) and n.value.id == cont and isinstance(n.ctx, ast.Load):
                sl = n.slice
                uses += 1
                if isinstance(sl, ast.Subscript) and isinstance(sl.value, ast.Name) and sl.value.id == vid:
                    continue
                if isinstance(sl, ast.Name) and sl.id in vec_elems:
                    continue
                if isinstance(sl, ast.Slice):
                    continue
                problems.append(f"`{ast.unparse(n)}` (line {n.lineno}) subscripts the multiplicand list with `{ast.unparse(sl)}` instead of {vid}[..]")
            # an element of vidx addresses multiplicands only
            if isinstance(n, ast.Subscript) and isinstance(n.slice, ast.Name) and n.slice.id in vec_elems and not (isinstance(n.value, ast.Name) and n.value.id == cont):
                problems.append(f"`{ast.unparse(n)[:50]}` uses the multiplicand index to address `{ast.unparse(n.value)[:30]}`")
            if isinstance(n, ast.Subscript) and isinstance(n.value, ast.Name) and n.value.id == cont and isinstance(n.slice, ast.Name) and n.slice.id in dim_elems:
                problems.append(f"`{ast.unparse(n)[:50]}` addresses the multiplicand list with a MODE (`{n.slice.id}` is an element of {dims})")
        # elements taken from different loops in one statement do not share their position
        for st in stmts:
            if isinstance(st, (ast.If, ast.For, ast.While, ast.With, ast.Try, ast.FunctionDef)):
                continue
            vs = {vec_elems[x.id] for x in ast.walk(st) if isinstance(x, ast.Name) and x.id in vec_elems}
            ds = {dim_elems[x.id] for x in ast.walk(st) if isinstance(x, ast.Name) and x.id in dim_elems}
            if vs and ds and not (vs & ds):
                problems.append(f"line {st.lineno}: a multiplicand index and a mode taken from different loops are combined")
        # same j within a statement
        for st in stmts:
            if isinstance(st, (ast.If, ast.For, ast.While, ast.With, ast.Try)):
                heads = [st.test] if isinstance(st, (ast.If, ast.While)) else [st.iter] if isinstance(st, ast.For) else []
            else:
                heads = [st]
            for h in heads:
                js_v = {ast.unparse(x.slice) for x in ast.walk(h) if isinstance(x, ast.Subscript) and isinstance(x.value, ast.Name) and x.value.id == vid}
                js_d = {ast.unparse(x.slice) for x in ast.walk(h) if isinstance(x, ast.Subscript) and isinstance(x.value, ast.Name) and x.value.id == dims
                        and not isinstance(x.slice, ast.Slice)}
                if js_v and js_d and js_v != js_d and len(js_v) == 1 and len(js_d) == 1:
                    problems.append(f"line {getattr(h, 'lineno', '?')}: multiplicand {vid}[{js_v.pop()}] is combined with mode {dims}[{js_d.pop()}]")
        # vidx must not index shapes / factors
        for n in after:
            if isinstance(n, ast.Subscript) and isinstance(n.slice, ast.Subscript) and isinstance(n.slice.value, ast.Name) and n.slice.value.id == vid \
                    and not (isinstance(n.value, ast.Name) and n.value.id == cont):
                problems.append(f"`{ast.unparse(n)[:50]}` uses the multiplicand index to address `{ast.unparse(n.value)[:30]}`")
        where = prog.loc(fi, node)
        if problems:
            res.bad("VIDX", fi.short, desc, where, "; ".join(sorted(set(problems)))[:400])
        elif uses:
            res.ok("VIDX", fi.short, desc, where, f"{uses} multiplicand access(es)")
        else:
            res.undecided("VIDX", fi.short, desc, where, "the multiplicand list is never subscripted after the call")
    return k


def weights_rule(prog: Program, res: Result) -> None:
    for q, fi in sorted(prog.functions.items()):
        if fi.parent or fi.name not in ("mttkrp", "mttkrps") or fi.cls is None:
            continue
        if len(fi.params()) < 2:
            continue
        u = fi.params()[1]
        ann = fi.annotation(u)
        accepts_k = ann is not None and "ktensor" in ast.unparse(ann)
        takes_fm = [n for n in ast.walk(fi.node) if isinstance(n, ast.Attribute) and n.attr == "factor_matrices" and isinstance(n.value, ast.Name) and n.value.id == u]
        uses_helper = [c for c in ast.walk(fi.node) if isinstance(c, ast.Call) and (dotted(c.func) or "").split(".")[-1] == "get_mttkrp_factors"
                       and c.args and isinstance(c.args[0], ast.Name) and c.args[0].id == u]
        reads_w = [n for n in ast.walk(fi.node) if isinstance(n, ast.Attribute) and n.attr == "weights" and isinstance(n.value, ast.Name) and n.value.id == u]
        delegates = [c for c in ast.walk(fi.node) if isinstance(c, ast.Call) and isinstance(c.func, ast.Attribute) and c.func.attr in ("mttkrp", "mttkrps")
                     and any(isinstance(a, ast.Name) and a.id == u for a in c.args)]
        desc = "a Kruskal operand's weights are applied (get_mttkrp_factors or .weights), not dropped"
        where = prog.loc(fi)
        if not accepts_k and not takes_fm:
            continue
        if uses_helper or reads_w:
            res.ok("WEIGHTS", fi.short, desc, prog.loc(fi, (uses_helper or reads_w)[0]), "through get_mttkrp_factors" if uses_helper else "reads .weights")
        elif takes_fm:
            res.bad("WEIGHTS", fi.short, desc, prog.loc(fi, takes_fm[0]),
                    f"`{u}.factor_matrices` is taken and `{u}.weights` is never read: for weights != 1 the result differs from the dense computation "
                    "by the weights of each component")
        elif delegates:
            res.ok("WEIGHTS", fi.short, desc, prog.loc(fi, delegates[0]), "operand forwarded unchanged to the parts' kernels", nontrivial=False)
        else:
            res.undecided("WEIGHTS", fi.short, desc, where, "how the Kruskal operand is unpacked was not recognised")
    # the helper: weights go into a factor other than the skipped one
    fi = prog.func("pyttb_utils.get_mttkrp_factors")
    desc = "get_mttkrp_factors absorbs the weights into a factor that is not the skipped mode"
    ifs = [n for n in ast.walk(fi.node) if isinstance(n, ast.If) and isinstance(n.test, ast.Compare) and ast.unparse(n.test.left) == fi.params()[1]]
    ok = None
    for n in ifs:
        c = const(n.test.comparators[0])
        tb = [const(x.args[0]) for s in n.body for x in ast.walk(s) if isinstance(x, ast.Call) and isinstance(x.func, ast.Attribute) and x.func.attr == "redistribute" and x.args]
        fb = [const(x.args[0]) for s in n.orelse for x in ast.walk(s) if isinstance(x, ast.Call) and isinstance(x.func, ast.Attribute) and x.func.attr == "redistribute" and x.args]
        if isinstance(n.test.ops[0], ast.Eq) and isinstance(c, int) and tb and fb:
            ok = (tb[0] != c) and (fb[0] == c or True) and (fb[0] != tb[0] or fb[0] != c)
            # on the else branch n != c, so redistributing into mode c is safe only if c is what the else branch uses
            ok = tb[0] != c and fb[0] == c
            detail = f"n == {c}: redistribute({tb[0]}); otherwise: redistribute({fb[0]})"
    if ok is True:
        res.ok("WEIGHTS", fi.short, desc, prog.loc(fi, ifs[0]), detail)
    elif ok is False:
        res.bad("WEIGHTS", fi.short, desc, prog.loc(fi, ifs[0]), detail + " — the weights can land in the skipped factor and are lost")
    else:
        res.undecided("WEIGHTS", fi.short, desc, prog.loc(fi))
    cp = [c for c in ast.walk(fi.node) if isinstance(c, ast.Call) and isinstance(c.func, ast.Attribute) and c.func.attr == "copy"]
    desc = "get_mttkrp_factors redistributes a COPY of the operand"
    if cp:
        res.ok("WEIGHTS", fi.short, desc, prog.loc(fi, cp[0]), nontrivial=False)
    else:
        res.bad("WEIGHTS", fi.short, desc, prog.loc(fi), "the caller's Kruskal tensor is redistributed in place")


def fold(prog: Program, res: Result) -> None:
    ci = prog.cls("sumtensor.sumtensor")
    for name in ("mttkrp", "ttv", "innerprod", "full", "double", "to_tensor"):  # norm is documented as unsupported (returns 0 with a warning)
        fi = ci.methods.get(name)
        if fi is None:
            continue
        t = ast.unparse(fi.node).replace(" ", "")
        desc = "the kernel combines every part"
        first = "self.parts[0]" in t
        rest = "self.parts[1:]" in t
        allp = "inself.parts:" in t or "inself.parts)" in t or "inself.parts]" in t
        delegating = any(isinstance(c, ast.Call) and isinstance(c.func, ast.Attribute) and isinstance(c.func.value, ast.Name) and c.func.value.id == "self"
                         for c in ast.walk(fi.node))
        if (first and rest) or allp:
            res.ok("FOLD", fi.short, desc, prog.loc(fi), "parts[0] + parts[1:]" if first else "loop over all parts")
        elif first or rest:
            res.bad("FOLD", fi.short, desc, prog.loc(fi), "only " + ("the first part" if first else "parts[1:]") + " enters the result")
        elif "self.parts" not in t and delegating:
            res.ok("FOLD", fi.short, desc, prog.loc(fi), "delegates to another kernel of the class", nontrivial=False)
        elif "self.parts" not in t:
            if any(isinstance(n, ast.Raise) or (isinstance(n, ast.Assert)) for n in fi.node.body):
                continue  # unsupported operation
            res.bad("FOLD", fi.short, desc, prog.loc(fi), "the parts are never read")
        else:
            res.undecided("FOLD", fi.short, desc, prog.loc(fi))


DTYPE_FIXTURE = """
def kernel(self, U, n):
    V = np.zeros((3, 2), dtype=self.data.dtype)
    W = np.zeros((3, 2), dtype=self.data.dtype)
    for r in range(2):
        V[:, [r]] = self.data[:, :, r].T @ U[r]
        W[:, r] = self.data[:, 0, r]
    return V, W
"""


def _value_names(e: ast.AST):
    """Names whose VALUES can flow into the value of e: the index of a subscript only selects, it is not followed."""
    if isinstance(e, ast.Subscript):
        yield from _value_names(e.value)
        return
    if isinstance(e, ast.Name) and isinstance(e.ctx, ast.Load):
        yield e.id
    if isinstance(e, ast.Call):
        nm = dotted(e.func) or ""
        base = nm.split(".")[-1] if nm else (e.func.attr if isinstance(e.func, ast.Attribute) else "")
        if base in ("transpose", "reshape", "permute", "moveaxis", "swapaxes", "squeeze", "expand_dims", "take", "tile", "repeat", "to_memory_order",
                    "zeros", "ones", "empty", "full", "arange"):
            # re-arrangements and allocations: shapes, axes and permutations do not flow into the VALUES
            if isinstance(e.func, ast.Attribute) and not nm.startswith(("np.", "numpy.", "ttb.")):
                yield from _value_names(e.func.value)
            elif e.args and base not in ("zeros", "ones", "empty", "arange"):
                yield from _value_names(e.args[0])
            return
    for c in ast.iter_child_nodes(e):
        yield from _value_names(c)


def _roots(fn: ast.FunctionDef) -> Dict[str, Set[str]]:
    """local name -> operands (parameters; `self.attr` counts as `self`) it may depend on, flow-insensitive."""
    params = [a.arg for a in fn.args.args + fn.args.kwonlyargs] + ([fn.args.vararg.arg] if fn.args.vararg else [])
    prov: Dict[str, Set[str]] = {p: {p} for p in params}
    defs = []
    for n in ast.walk(fn):
        if isinstance(n, ast.Assign):
            for t in n.targets:
                for x in ast.walk(t):
                    if isinstance(x, ast.Name) and isinstance(x.ctx, ast.Store):
                        defs.append((x.id, n.value))
                # item stores feed the container too
                if isinstance(t, ast.Subscript) and isinstance(t.value, ast.Name):
                    defs.append((t.value.id, n.value))
        elif isinstance(n, ast.AnnAssign) and n.value is not None and isinstance(n.target, ast.Name):
            defs.append((n.target.id, n.value))
        elif isinstance(n, ast.AugAssign):
            t = n.target
            if isinstance(t, ast.Name):
                defs.append((t.id, n.value))
            elif isinstance(t, ast.Subscript) and isinstance(t.value, ast.Name):
                defs.append((t.value.id, n.value))
        elif isinstance(n, (ast.For, ast.comprehension)):
            for x in ast.walk(n.target):
                if isinstance(x, ast.Name):
                    defs.append((x.id, n.iter))
    changed = True
    while changed:
        changed = False
        for name, val in defs:
            if name in params:
                continue
            src: Set[str] = set()
            for x in _value_names(val):
                src |= prov.get(x, set())
            if not src <= prov.get(name, set()):
                prov.setdefault(name, set()).update(src)
                changed = True
    return prov


def dtype_rule(prog: Program, res: Result, tree: Optional[ast.AST] = None) -> int:
    n_sites = 0
    if tree is None:
        items = [(fi.short, fi.node, fi) for q, fi in sorted(prog.functions.items())
                 if not fi.parent and fi.module in ("pyttb.tensor", "pyttb.sptensor", "pyttb.ktensor", "pyttb.ttensor", "pyttb.sumtensor",
                                                    "pyttb.tenmat", "pyttb.sptenmat")]
    else:
        items = [("fixture", [x for x in ast.walk(tree) if isinstance(x, ast.FunctionDef)][0], None)]
    for short, fn, fi in items:
        allocs = []
        for a in ast.walk(fn):
            if isinstance(a, ast.Assign) and len(a.targets) == 1 and isinstance(a.targets[0], ast.Name) and isinstance(a.value, ast.Call) \
                    and (dotted(a.value.func) or "").split(".")[-1] in ("zeros", "empty", "ones", "full", "zeros_like", "empty_like"):
                dt = kwarg(a.value, "dtype")
                if dt is None:
                    continue
                owners = {x.id for x in ast.walk(dt) if isinstance(x, ast.Name)}
                if not (isinstance(dt, ast.Attribute) and dt.attr == "dtype" and owners):
                    continue
                allocs.append((a, a.targets[0].id, dt))
        # explicit casts of a computed value to ONE operand's element type: np.array(expr, dtype=X.dtype), expr.astype(X.dtype)
        casts = []
        for c in ast.walk(fn):
            if not isinstance(c, ast.Call):
                continue
            nm = dotted(c.func) or ""
            base = nm.split(".")[-1] if nm else (c.func.attr if isinstance(c.func, ast.Attribute) else "")
            dt = src = None
            if base in ("array", "asarray", "asfortranarray", "ascontiguousarray") and nm.startswith(("np.", "numpy.")) and c.args:
                dt, src = kwarg(c, "dtype"), c.args[0]
            elif base == "astype" and isinstance(c.func, ast.Attribute):
                dt = kwarg(c, "dtype") or (c.args[0] if c.args else None)
                src = c.func.value
            if dt is None or src is None or not (isinstance(dt, ast.Attribute) and dt.attr == "dtype"):
                continue
            # logical / comparison results are 0/1: casting them to an operand's type loses nothing
            inner = src
            while isinstance(inner, ast.Call) and isinstance(inner.func, ast.Attribute) and inner.func.attr in ("reshape", "squeeze", "copy", "transpose"):
                inner = inner.func.value
            if isinstance(inner, (ast.Compare, ast.BoolOp)) or (isinstance(inner, ast.Call) and (dotted(inner.func) or "").split(".")[-1].startswith(
                    ("logical_", "isin", "isnan", "isinf", "equal", "not_equal", "greater", "less"))):
                continue
            if fi is not None and fi.name not in ("ttv", "ttm", "mttkrp", "mttkrps", "ttt", "ttsv", "innerprod", "norm", "contract", "scale", "full",
                                                  "double", "to_tensor", "reconstruct", "mttv_left", "mttv_mid", "__mul__", "to_tenmat"):
                continue          # explicit casts are judged in the multilinear kernels only (logical / comparison operators cast 0/1 values)
            casts.append((c, src, dt))
        if not allocs and not casts:
            continue
        prov = _roots(fn)
        for c, src, dt in casts:
            owner = set()
            for x in ast.walk(dt):
                if isinstance(x, ast.Name):
                    owner |= prov.get(x.id, {x.id})
            d: Set[str] = set()
            for x in _value_names(src):
                d |= prov.get(x, set())
            if not d:
                continue
            n_sites += 1
            desc = f"a value cast to `{ast.unparse(dt)}` is computed from that operand only"
            where = prog.loc(fi, c) if fi is not None else "fixture"
            if d - owner:
                res.bad("DTYPE", short, desc, where,
                        f"`{ast.unparse(c)[:80]}` casts a value that also depends on {sorted(d - owner)} to {ast.unparse(dt)}: a float result of an "
                        "integer tensor times a float matrix is truncated without a warning")
            else:
                res.ok("DTYPE", short, desc, where)
        for a, name, dt in allocs:
            owner = set()
            for x in ast.walk(dt):
                if isinstance(x, ast.Name):
                    owner |= prov.get(x.id, {x.id})
            stores = []
            for st in ast.walk(fn):
                tgt = None
                if isinstance(st, ast.Assign) and isinstance(st.targets[0], ast.Subscript) and isinstance(st.targets[0].value, ast.Name) \
                        and st.targets[0].value.id == name:
                    tgt = st
                elif isinstance(st, ast.AugAssign) and ((isinstance(st.target, ast.Subscript) and isinstance(st.target.value, ast.Name) and st.target.value.id == name)
                                                        or (isinstance(st.target, ast.Name) and st.target.id == name)):
                    tgt = st
                if tgt is not None:
                    stores.append(tgt)
            if not stores:
                continue
            n_sites += 1
            desc = f"`{name}` typed by `{ast.unparse(dt)}` only receives values computed from that operand"
            where = prog.loc(fi, a) if fi is not None else "fixture"
            foreign = None
            for st in stores:
                d: Set[str] = set()
                for x in _value_names(st.value):
                    d |= prov.get(x, set())
                if d - owner:
                    foreign = (st, sorted(d - owner))
                    break
            if foreign:
                res.bad("DTYPE", short, desc, where,
                        f"`{ast.unparse(foreign[0])[:80]}` stores values that also depend on {foreign[1]}: numpy casts them to {ast.unparse(dt)} "
                        "without a warning (a float product stored into an integer tensor's accumulator is truncated)")
            else:
                res.ok("DTYPE", short, desc, where)
    return n_sites


WDEG_TABLE = {
    ("ktensor", "weights"): ["full", "double", "to_tensor", "innerprod", "mttkrp", "ttv", "mask", "norm"],
    ("ttensor", "core"): ["full", "double", "to_tensor", "innerprod", "mttkrp", "ttv", "ttm", "norm", "reconstruct"],
    # the factor list as a whole: an operation that applies every factor once is of degree 1 PER MODE (scaling every factor by c scales the
    # result by c per mode); the Gram route of the norm is sqrt(<core x {U'U}, core>) = sqrt(degree 2) per mode
    ("ttensor", "factor_matrices"): ["full", "double", "to_tensor", "norm"],
    ("tensor", "data"): ["ttv", "mttkrp", "innerprod", "norm", "contract", "ttt", "scale", "to_tenmat", "double"],
    ("sptensor", "vals"): ["norm", "contract", "scale", "to_sptenmat", "double", "mask", "extract"],
}


def wdeg(prog: Program, res: Result) -> None:
    from fractions import Fraction
    from .. import degree as D
    for (cls, field), names in WDEG_TABLE.items():
        meths = {fi.name: fi.node for q, fi in prog.functions.items() if fi.cls == cls and not fi.parent and fi.module == "pyttb." + cls}
        dg = D.DegreeOf(meths, field)
        for n in names:
            fi = prog.func(f"{cls}.{cls}.{n}")
            d = dg.method_degree(n)
            if field == "factor_matrices":
                # the list as a whole has a degree PER MODE only while it is used as a whole; a loop that applies one factor per iteration makes
                # the engine see a growing (MIXED) degree although the code is right: only definite per-site degrees are judged
                sites = dg.return_degrees(n)
                if not sites or any(x is None or x == D.MIXED or x == "BOT" for x in sites):
                    d = None
                else:
                    wrong = [x for x in sites if x != D.POLY and x != Fraction(1)]
                    d = wrong[0] if wrong else Fraction(1)
            desc = f"the result is homogeneous of degree 1 in self.{field}" + (" (per mode)" if field == "factor_matrices" else "")
            if d == Fraction(1) or d == D.POLY:
                res.ok("WDEG", fi.short, desc, prog.loc(fi))
            elif d is None:
                res.undecided("WDEG", fi.short, desc, prog.loc(fi), "an expression outside the degree table")
            elif d == D.MIXED:
                res.bad("WDEG", fi.short, desc, prog.loc(fi),
                        f"terms of different degree in self.{field} are added (or different return sites disagree): the result is not a multilinear "
                        "function of the operand")
            else:
                res.bad("WDEG", fi.short, desc, prog.loc(fi),
                        f"the result has degree {D.fmt(d)} in self.{field}: scaling the operand by c scales the result by c**{D.fmt(d)} "
                        f"({'the ' + field + ' are never applied' if d == 0 else 'they are applied more than once'})")


def agg_contract(prog: Program, res: Result) -> None:
    for short in ("sptensor.sptensor.ttv", "sptensor.sptensor.collapse"):
        fi = prog.func(short)
        defs: Dict[str, List[ast.expr]] = {}
        for n in ast.walk(fi.node):
            if isinstance(n, ast.Assign) and len(n.targets) == 1 and isinstance(n.targets[0], ast.Name):
                defs.setdefault(n.targets[0].id, []).append(n.value)

        def is_projection(e: ast.expr, depth=0) -> bool:
            """e is (derived from) <subscripts>[:, remaining-modes selector]"""
            if depth > 4:
                return False
            if isinstance(e, ast.Name):
                return any(is_projection(d, depth + 1) for d in defs.get(e.id, []))
            if isinstance(e, ast.Call) and isinstance(e.func, ast.Attribute) and e.func.attr in ("astype", "copy"):
                return is_projection(e.func.value, depth + 1)
            if isinstance(e, ast.Subscript) and isinstance(e.slice, ast.Tuple) and len(e.slice.elts) == 2 and isinstance(e.slice.elts[0], ast.Slice):
                sel = e.slice.elts[1]
                base = ast.unparse(e.value)
                if ("subs" in base) and isinstance(sel, ast.Name) and "rem" in sel.id.lower():
                    return True
                if isinstance(sel, ast.Name):
                    for d in defs.get(sel.id, []):
                        if isinstance(d, ast.Call) and (dotted(d.func) or "").split(".")[-1] == "setdiff1d" and "subs" in base:
                            return True
            return False
        sites = [c for c in ast.walk(fi.node) if isinstance(c, ast.Call) and (dotted(c.func) or "").split(".")[-1] in ("sptensor", "from_aggregator")
                 and c.args]
        k = 0
        for c in sites:
            if not is_projection(c.args[0]):
                continue
            k += 1
            kind = (dotted(c.func) or "").split(".")[-1]
            desc = f"subscripts projected onto the remaining modes reach the result through the aggregating constructor (site #{k})"
            if kind == "from_aggregator":
                res.ok("AGG", short, desc, prog.loc(fi, c))
            else:
                res.bad("AGG", short, desc, prog.loc(fi, c),
                        f"`{ast.unparse(c)[:70]}` hands the projected subscripts to the plain constructor: entries that differ only in a contracted "
                        "mode keep separate rows with the same subscript, and only the last one survives conversion / look-up")
        if k == 0:
            res.undecided("AGG", short, "subscripts projected onto the remaining modes reach the result through the aggregating constructor",
                          prog.loc(fi), "no projected-subscript constructor site")


def move_sync(prog: Program, res: Result) -> None:
    fi = prog.func("tensor.tensor.ttv")
    desc = "data and shape bookkeeping are reordered by the same permutation; the transposition is skipped only for <= 1 mode"
    tr = [c for c in ast.walk(fi.node) if isinstance(c, ast.Call) and (dotted(c.func) or "").split(".")[-1] == "transpose" and len(c.args) >= 2]
    if not tr:
        res.undecided("MOVE", fi.short, desc, prog.loc(fi), "transpose not found")
        return
    shp = [n for n in ast.walk(fi.node) if isinstance(n, ast.Subscript) and "shape" in ast.unparse(n.value)
           and isinstance(fi.resolve(n.slice), ast.Call)]
    if not shp:
        res.undecided("MOVE", fi.short, desc, prog.loc(fi), "permuted shape not found")
        return
    pt, ps_ = fi.rtext(tr[0].args[1]).replace(" ", ""), fi.rtext(shp[0].slice).replace(" ", "")
    if pt != ps_:
        res.bad("MOVE", fi.short, desc, prog.loc(fi, tr[0]), f"data transposed by `{pt}` but shape reordered by `{ps_}`")
        return
    parents = {}
    for x in ast.walk(fi.node):
        for c in ast.iter_child_nodes(x):
            parents[id(c)] = x
    cur, tests = tr[0], []
    while id(cur) in parents:
        par = parents[id(cur)]
        if isinstance(par, ast.If) and any(cur is b or any(cur is y for y in ast.walk(b)) for b in par.body):
            tests.append(par.test)
        cur = par
    bad = None
    for t in tests:
        txt = ast.unparse(t).replace(" ", "")
        if txt not in ("self.ndims>1", "1<self.ndims", "self.ndims>=2", "self.ndims!=1", "len(self.shape)>1", "n>1"):
            bad = t
    if bad is not None:
        res.bad("MOVE", fi.short, desc, prog.loc(fi, bad),
                f"the data is transposed only when `{ast.unparse(bad)[:70]}` while the shape bookkeeping `{ps_}` is applied always: when the test fails "
                "for a tensor with several modes the later reshapes contract the wrong axes")
    else:
        res.ok("MOVE", fi.short, desc, prog.loc(fi, tr[0]), f"permutation {pt}; guards {[ast.unparse(t) for t in tests]}")


def paired_dims(prog: Program, res: Result) -> None:
    for short, pname in (("tensor.tensor.ttt", "selfdims"), ("tensor.tensor.ttt", "otherdims")):
        fi = prog.func(short)
        desc = f"the position-paired mode list `{pname}` is used in the order given"
        bad = None
        for n in ast.walk(fi.node):
            if isinstance(n, ast.Assign):
                tg = n.targets[0]
                names = [x.id for x in (tg.elts if isinstance(tg, ast.Tuple) else [tg]) if isinstance(x, ast.Name)]
                if pname in names and isinstance(n.value, ast.Call):
                    fn = (dotted(n.value.func) or "").split(".")[-1]
                    uses = any(isinstance(x, ast.Name) and x.id == pname for x in ast.walk(n.value))
                    if uses and fn in ("tt_dimscheck", "sort", "sorted", "unique", "setdiff1d", "union1d", "intersect1d"):
                        bad = (n, fn)
        if bad:
            res.bad("PAIRED", short, desc, prog.loc(fi, bad[0]),
                    f"`{pname}` is replaced by the result of {bad[1]}(...), which sorts it on its own: the k-th entries of the two lists no longer "
                    "belong together whenever the lists sort differently")
        else:
            res.ok("PAIRED", short, desc, prog.loc(fi), nontrivial=False)


def gram_direction(prog: Program, res: Result) -> None:
    """<X, Y> of two Tucker tensors: W_n = U_n^T V_n (ranks of X by ranks of Y) is applied to the core of Y, J = H x_n W_n, and the result is
    <G, J>.  The factor that is transposed must belong to the tensor whose core is NOT multiplied - otherwise every W_n is the transpose of
    what it should be (invisible for <X, X>, where W_n is symmetric)."""
    fi = prog.func("ttensor.ttensor.innerprod")
    me, you = fi.params()[0], fi.params()[1]
    desc = "Tucker x Tucker inner product: the Gram matrices applied to one core are (other tensor's factor)^T (this core's factor)"

    def owner(e: ast.AST, binds: Dict[str, str]) -> Optional[str]:
        e = fi.resolve(e)
        if isinstance(e, ast.Name):
            return binds.get(e.id)
        t = ast.unparse(e)
        for who in (me, you):
            if t.startswith(f"{who}.factor_matrices"):
                return who
        return None
    verdicts = []
    for c in ast.walk(fi.node):
        if not (isinstance(c, ast.Call) and isinstance(c.func, ast.Attribute) and c.func.attr == "ttm" and c.args
                and isinstance(c.func.value, ast.Attribute) and c.func.value.attr == "core" and isinstance(c.func.value.value, ast.Name)
                and c.func.value.value.id in (me, you)):
            continue
        core_of = c.func.value.value.id
        w = fi.resolve(c.args[0])
        if not isinstance(w, ast.ListComp) or len(w.generators) != 1:
            # accumulate loops are comprehensions after normalisation; anything else is not read
            verdicts.append(("UNDEC", c, "the list of Gram matrices is not a comprehension"))
            continue
        g = w.generators[0]
        binds: Dict[str, str] = {}
        if isinstance(g.iter, ast.Call) and (dotted(g.iter.func) or "") == "zip" and isinstance(g.target, ast.Tuple) and len(g.target.elts) == len(g.iter.args):
            for t_, a_ in zip(g.target.elts, g.iter.args):
                o = owner(a_, {})
                if isinstance(t_, ast.Name) and o:
                    binds[t_.id] = o
        elt = w.elt
        left = right = None
        if isinstance(elt, ast.Call) and isinstance(elt.func, ast.Attribute) and elt.func.attr == "dot" and len(elt.args) == 1:
            left, right = elt.func.value, elt.args[0]
        elif isinstance(elt, ast.BinOp) and isinstance(elt.op, ast.MatMult):
            left, right = elt.left, elt.right
        tl = left
        transposed_left = False
        if isinstance(tl, ast.Call) and isinstance(tl.func, ast.Attribute) and tl.func.attr == "transpose" and not tl.args:
            tl, transposed_left = tl.func.value, True
        elif isinstance(tl, ast.Attribute) and tl.attr == "T":
            tl, transposed_left = tl.value, True
        if left is None or not transposed_left:
            verdicts.append(("UNDEC", c, "Gram matrix is not of the form A.T @ B"))
            continue
        ol, orr = owner(tl, binds), owner(right, binds)
        if ol is None or orr is None:
            verdicts.append(("UNDEC", c, "factor owners not recognised"))
        elif orr == core_of and ol != core_of:
            verdicts.append(("OK", c, f"({ol} factor)^T ({orr} factor) applied to the core of {core_of}"))
        else:
            verdicts.append(("BAD", c, f"({ol} factor)^T ({orr} factor) is applied to the core of `{core_of}`: each Gram matrix is the transpose of the "
                                       f"one that maps the ranks of `{core_of}` to the ranks of the other tensor - wrong for two different Tucker "
                                       "tensors (and a shape error when their ranks differ)"))
    if not verdicts:
        res.undecided("GRAMDIR", fi.short, desc, prog.loc(fi), "no core.ttm(W) found")
    for v, c, why in verdicts:
        if v == "OK":
            res.ok("GRAMDIR", fi.short, desc, prog.loc(fi, c), why)
        elif v == "BAD":
            res.bad("GRAMDIR", fi.short, desc, prog.loc(fi, c), why)
        else:
            res.undecided("GRAMDIR", fi.short, desc, prog.loc(fi, c), why)


def check(prog: Program, res: Result, tier: str) -> None:
    res.explanation = __doc__.split("\n\n", 1)[1]
    res.assumptions = ["tt_dimscheck contract (C17): dims sorted, vidx[j] = position of the multiplicand that belongs to dims[j]",
                       "khatrirao(reverse=True) over an ascending factor list matches the F-order unfolding (C17 KRAX)"]
    res.floors = {"VIDX": 6, "KR": 9, "EO-1": 21, "WEIGHTS": 6, "FOLD": 4, "REP": 18, "DTYPE": 1, "WDEG": 30, "AGG": 2, "MOVE": 1, "PAIRED": 2, "GRAMDIR": 1}
    for f in DENSE_KERNELS + SPARSE_KERNELS:
        prog.func(f)
    vidx(prog, res)
    E.kr(prog, res, lambda fi: True, exempt={"sptensor.sptensor.allsubs", "sptensor.sptensor._set_subtensor"})
    E.eo1(prog, res, lambda fi: fi.short in DENSE_KERNELS + SPARSE_KERNELS)
    weights_rule(prog, res)
    fold(prog, res)
    wdeg(prog, res)
    agg_contract(prog, res)
    move_sync(prog, res)
    paired_dims(prog, res)
    gram_direction(prog, res)
    dtype_rule(prog, res)
    from ..report import Result as _R
    probe = _R("C02")
    dtype_rule(prog, probe, ast.parse(DTYPE_FIXTURE))
    fx = [(i.verdict, i.descriptor) for i in probe.instances]
    if sorted(v for v, _ in fx) != ["OK", "VIOLATION"]:
        raise AnalysisError(f"DTYPE positive fixture not recognised: {fx}")
    for cls, (req, methods) in REP.items():
        E.rep(prog, res, cls, req, methods)
    I.ix_rules(prog, res, lambda fi: fi.short in SPARSE_KERNELS, ("SC", "IX-dom", "IX-seq"))
