"""Helpers shared by the algorithm properties C09 C10 C11: formula conformance (E7), projected-factor calls,
must-pass-through ordering."""
from __future__ import annotations

import ast
from typing import Callable, Dict, List, Optional, Set

import sympy as sp

from ..model import Program, FuncInfo, dotted, kwarg, const
from ..report import Result
from .. import terms


def role_hook(roles: Dict[str, sp.Symbol]):
    """Map source sub-expressions to role symbols by their normalised text (e.g. 'M.norm()' -> nM)."""
    def hook(n: ast.AST, tr):
        if isinstance(n, (ast.Call, ast.Attribute, ast.Name, ast.Subscript)):
            t = ast.unparse(n)
            if t in roles:
                return roles[t]
        if isinstance(n, ast.Call):
            nm = dotted(n.func) or ""
            if nm in ("abs", "np.abs", "np.absolute") and n.args:
                return sp.Abs(tr.tr(n.args[0]))
        return None
    return hook


def formula_equals(expr: ast.expr, roles: Dict[str, sp.Symbol], want: sp.Expr, local_defs: Optional[Dict[str, ast.expr]] = None):
    """(True|False|None, detail): the source expression equals `want` as a term over the role symbols."""
    env = {}
    tr = terms.Translator(env, hooks=role_hook(roles))
    try:
        if local_defs:
            for k, v in local_defs.items():
                if k not in roles:
                    try:
                        tr.env[k] = tr.tr(v)
                    except terms.Untranslatable:
                        pass
        got = tr.tr(expr)
    except terms.Untranslatable as ex:
        return None, f"not a closed-form term: {ex}"
    z, how = terms.is_zero(got - want)
    if z is True:
        return True, f"{got}"
    if z is False:
        return False, f"source term is {got}, expected {want} ({how})"
    return None, how


_EXTREMA = {"max", "min", "maximum", "minimum", "fmax", "fmin"}


def absolute_operands(e: ast.expr, data_names: Set[str]) -> List[ast.expr]:
    """Operands of a sum / difference / max / min in `e` that do not mention any of `data_names` and are not the constant 0.
    A quantity meant to scale with the data (degree k > 0) that is added to, floored or capped by such an operand is no longer
    homogeneous: f(c*X) != c^k f(X) for small or large c.  Unary minus and parentheses are looked through; products are leaves."""
    out: List[ast.expr] = []

    def leaves(x: ast.expr, top: bool) -> None:
        if isinstance(x, ast.BinOp) and isinstance(x.op, (ast.Add, ast.Sub)):
            leaves(x.left, False), leaves(x.right, False)
            return
        if isinstance(x, ast.UnaryOp) and isinstance(x.op, (ast.USub, ast.UAdd)):
            leaves(x.operand, top)
            return
        if isinstance(x, ast.Call) and not x.keywords and len(x.args) >= 2 and (
                (isinstance(x.func, ast.Name) and x.func.id in _EXTREMA)
                or (isinstance(x.func, ast.Attribute) and x.func.attr in _EXTREMA)):
            for a in x.args:
                leaves(a, False)
            return
        if top:
            return
        if isinstance(x, ast.Constant) and isinstance(x.value, (int, float)) and not isinstance(x.value, bool) and x.value == 0:
            return
        if not any(isinstance(n, ast.Name) and n.id in data_names for n in ast.walk(x)):
            out.append(x)

    leaves(e, True)
    return out


def single_defs(fn: ast.FunctionDef) -> Dict[str, List[ast.Assign]]:
    out: Dict[str, List[ast.Assign]] = {}
    for n in ast.walk(fn):
        if isinstance(n, ast.Assign) and len(n.targets) == 1 and isinstance(n.targets[0], ast.Name):
            out.setdefault(n.targets[0].id, []).append(n)
    return out


def ttm_transposed(prog: Program, res: Result, short: str, rule: str = "TTM-T") -> int:
    """Projections onto factor matrices use the transposed factor."""
    fi = prog.func(short)
    n = 0
    for c in ast.walk(fi.node):
        if isinstance(c, ast.Call) and isinstance(c.func, ast.Attribute) and c.func.attr == "ttm" and c.args:
            n += 1
            a0 = c.args[0]
            tr = kwarg(c, "transpose") or (c.args[3] if len(c.args) > 3 else None)
            transposed = (tr is not None and const(tr) is True) or \
                         (isinstance(a0, ast.Call) and isinstance(a0.func, ast.Attribute) and a0.func.attr == "transpose") or \
                         (isinstance(a0, ast.Attribute) and a0.attr == "T")
            desc = f"projection multiplies by the transposed factor: {ast.unparse(c)[:80]}"
            # pairing: the list handed to the ttensor constructor is indexed by MODE; ttm(list, dims) pairs list[i] with dims[i],
            # so giving the processing order `dimorder` as dims applies factor i to mode dimorder[i]
            dims = kwarg(c, "dims") or (c.args[1] if len(c.args) > 1 else None)
            by_mode = {x.args[1].id for x in ast.walk(fi.node) if isinstance(x, ast.Call) and (dotted(x.func) or "").split(".")[-1] == "ttensor"
                       and len(x.args) > 1 and isinstance(x.args[1], ast.Name)}
            if isinstance(a0, ast.Name) and a0.id in by_mode and isinstance(dims, ast.Name) and dims.id == "dimorder" \
                    and "dimorder" in {a.arg for a in fi.node.args.args + fi.node.args.kwonlyargs}:
                res.bad(rule, short, f"the mode-indexed factor list is paired with the modes in order: {ast.unparse(c)[:80]}", prog.loc(fi, c),
                        f"`{a0.id}` is indexed by mode (it is the factor list of the returned ttensor) but is paired with the processing "
                        "order `dimorder`: factor i is applied to mode dimorder[i], wrong for every non-identity order")
                continue
            if transposed:
                res.ok(rule, short, desc, prog.loc(fi, c))
            else:
                res.bad(rule, short, desc, prog.loc(fi, c),
                        "the factor is applied un-transposed: the core is not the data projected onto the factor's column space "
                        "(dimension error or wrong result for non-square factors)")
    return n


# ---------------------------------------------------------------------- views of the Kruskal fields under other names
def dealias_factors(fn: ast.FunctionDef) -> ast.FunctionDef:
    """A copy of a ktensor method in which the factor matrices and weights are always spelled `self.factor_matrices[..]` / `self.weights`:

        first = self.factor_matrices[0]; first[:, idx] = -first[:, idx]      ->  self.factor_matrices[0][:, idx] = -self.factor_matrices[0][:, idx]
        column = self.factor_matrices[m][:, r]                               ->  uses of `column` read self.factor_matrices[m][:, r]
        for f in self.factor_matrices: BODY(f)                               ->  for _m in range(self.ndims): BODY(self.factor_matrices[_m])
        for i, f in enumerate(self.factor_matrices): BODY(i, f)              ->  for i in range(self.ndims): BODY(i, self.factor_matrices[i])

    Only single-assignment locals whose value is a pure view expression (subscripts / attributes of self.factor_matrices or self.weights)
    are replaced; the rewriting changes no behaviour, it removes naming differences before the scale algebra and the pattern rules look."""
    import copy
    fn = copy.deepcopy(fn)
    self_name = fn.args.args[0].arg if fn.args.args else "self"

    def is_view(e: ast.expr) -> bool:
        while isinstance(e, (ast.Subscript,)):
            e = e.value
        return isinstance(e, ast.Attribute) and e.attr in ("factor_matrices", "weights") and isinstance(e.value, ast.Name) and e.value.id == self_name

    # loops over the factor list
    k = [0]

    class Loops(ast.NodeTransformer):
        def visit_For(self, node):
            self.generic_visit(node)
            it = node.iter
            elem = idx = None
            if isinstance(it, ast.Attribute) and it.attr == "factor_matrices" and isinstance(it.value, ast.Name) and it.value.id == self_name \
                    and isinstance(node.target, ast.Name):
                elem = node.target.id
            elif isinstance(it, ast.Call) and isinstance(it.func, ast.Name) and it.func.id == "enumerate" and len(it.args) == 1 \
                    and isinstance(it.args[0], ast.Attribute) and it.args[0].attr == "factor_matrices" and isinstance(node.target, ast.Tuple) \
                    and len(node.target.elts) == 2 and all(isinstance(x, ast.Name) for x in node.target.elts):
                idx, elem = node.target.elts[0].id, node.target.elts[1].id
            if elem is None:
                return node
            if idx is None:
                k[0] += 1
                idx = f"_mode{k[0]}"
            # the element name must not be rebound in the body
            if any(isinstance(x, ast.Name) and x.id == elem and isinstance(x.ctx, ast.Store) for b in node.body for x in ast.walk(b)):
                return node
            ref = ast.Subscript(value=ast.Attribute(value=ast.Name(id=self_name, ctx=ast.Load()), attr="factor_matrices", ctx=ast.Load()),
                                slice=ast.Name(id=idx, ctx=ast.Load()), ctx=ast.Load())

            class Sub(ast.NodeTransformer):
                def visit_Name(self, n):
                    if n.id == elem and isinstance(n.ctx, ast.Load):
                        return copy.deepcopy(ref)
                    return n
            node.body = [Sub().visit(b) for b in node.body]
            node.target = ast.Name(id=idx, ctx=ast.Store())
            node.iter = ast.Call(func=ast.Name(id="range", ctx=ast.Load()),
                                 args=[ast.Attribute(value=ast.Name(id=self_name, ctx=ast.Load()), attr="ndims", ctx=ast.Load())], keywords=[])
            return ast.fix_missing_locations(node)
    fn = Loops().visit(fn)
    # alias locals
    counts, defs = {}, {}
    for n in ast.walk(fn):
        if isinstance(n, ast.Assign):
            for t in n.targets:
                for x in ast.walk(t):
                    if isinstance(x, ast.Name) and isinstance(x.ctx, ast.Store):
                        counts[x.id] = counts.get(x.id, 0) + 1
                        if x is t and len(n.targets) == 1:
                            defs[x.id] = n
        elif isinstance(n, (ast.AugAssign, ast.AnnAssign)) and isinstance(n.target, ast.Name):
            counts[n.target.id] = counts.get(n.target.id, 0) + 2
        elif isinstance(n, (ast.For, ast.comprehension)):
            for x in ast.walk(n.target):
                if isinstance(x, ast.Name):
                    counts[x.id] = counts.get(x.id, 0) + 2
    aliases = {nm: d.value for nm, d in defs.items() if counts.get(nm) == 1 and is_view(d.value)}
    if aliases:
        class Alias(ast.NodeTransformer):
            def visit_Name(self, n):
                if n.id in aliases:
                    e = copy.deepcopy(aliases[n.id])
                    # keep the context of the outermost node (store / load)
                    if hasattr(e, "ctx"):
                        e.ctx = n.ctx
                    return ast.copy_location(e, n)
                return n

            def visit_Assign(self, node):
                if len(node.targets) == 1 and isinstance(node.targets[0], ast.Name) and node.targets[0].id in aliases:
                    return ast.copy_location(ast.Pass(), node)
                return self.generic_visit(node)
        for _ in range(3):
            fn = Alias().visit(fn)
    return ast.fix_missing_locations(fn)
