"""Helpers shared by the algorithm properties C09 C10 C11: formula conformance (E7), projected-factor calls,
must-pass-through ordering."""
from __future__ import annotations

import ast
from typing import Callable, Dict, List, Optional

import sympy as sp

from ..model import Program, FuncInfo, dotted, kwarg, const
from ..report import Result
from .. import terms


def role_hook(roles: Dict[str, sp.Symbol]):
    """Map source sub-expressions to role symbols by their normalised text (e.g. 'M.norm()' -> nM)."""
    def hook(n: ast.AST, tr):
        if isinstance(n, (ast.Call, ast.Attribute, ast.Name, ast.Subscript)):
            t = ast.unparse(n)
            if t in roles:
                return roles[t]
        if isinstance(n, ast.Call):
            nm = dotted(n.func) or ""
            if nm in ("abs", "np.abs", "np.absolute") and n.args:
                return sp.Abs(tr.tr(n.args[0]))
        return None
    return hook


def formula_equals(expr: ast.expr, roles: Dict[str, sp.Symbol], want: sp.Expr, local_defs: Optional[Dict[str, ast.expr]] = None):
    """(True|False|None, detail): the source expression equals `want` as a term over the role symbols."""
    env = {}
    tr = terms.Translator(env, hooks=role_hook(roles))
    try:
        if local_defs:
            for k, v in local_defs.items():
                if k not in roles:
                    try:
                        tr.env[k] = tr.tr(v)
                    except terms.Untranslatable:
                        pass
        got = tr.tr(expr)
    except terms.Untranslatable as ex:
        return None, f"not a closed-form term: {ex}"
    z, how = terms.is_zero(got - want)
    if z is True:
        return True, f"{got}"
    if z is False:
        return False, f"source term is {got}, expected {want} ({how})"
    return None, how


def single_defs(fn: ast.FunctionDef) -> Dict[str, List[ast.Assign]]:
    out: Dict[str, List[ast.Assign]] = {}
    for n in ast.walk(fn):
        if isinstance(n, ast.Assign) and len(n.targets) == 1 and isinstance(n.targets[0], ast.Name):
            out.setdefault(n.targets[0].id, []).append(n)
    return out


def ttm_transposed(prog: Program, res: Result, short: str, rule: str = "TTM-T") -> int:
    """Projections onto factor matrices use the transposed factor."""
    fi = prog.func(short)
    n = 0
    for c in ast.walk(fi.node):
        if isinstance(c, ast.Call) and isinstance(c.func, ast.Attribute) and c.func.attr == "ttm" and c.args:
            n += 1
            a0 = c.args[0]
            tr = kwarg(c, "transpose") or (c.args[3] if len(c.args) > 3 else None)
            transposed = (tr is not None and const(tr) is True) or \
                         (isinstance(a0, ast.Call) and isinstance(a0.func, ast.Attribute) and a0.func.attr == "transpose") or \
                         (isinstance(a0, ast.Attribute) and a0.attr == "T")
            desc = f"projection multiplies by the transposed factor: {ast.unparse(c)[:80]}"
            if transposed:
                res.ok(rule, short, desc, prog.loc(fi, c))
            else:
                res.bad(rule, short, desc, prog.loc(fi, c),
                        "the factor is applied un-transposed: the core is not the data projected onto the factor's column space "
                        "(dimension error or wrong result for non-square factors)")
    return n
