"""C13 — GCP solvers keep the best model, respect bounds, sample validly and are reusable.

Decided (structural necessary conditions):
  ST-reuse   (E8) for every concrete solver class, every attribute of `self` that is mutated in the
             call closure of solve() is (re)initialised by that solve() before it is first read
             (flow-sensitive walk of solve with self-method calls inlined through the MRO)
  ST-slot    a keyed slot of a solver attribute overwritten during solve (the L-BFGS-B callback)
             does not hold a per-solve object on any normal exit
  BND-proj   every factor matrix an update_step returns is np.maximum(lower_bound, ...); the
             stochastic loop hands its lower_bound to update_step; fmin_l_bfgs_b receives
             (lower_bound, inf) bounds per variable; gcp_opt forwards the bound it obtained
  BM-sync    in the epoch loop a failed epoch is `new > previous`; the failed branch restores the
             model from a COPY of the best model, the other branch stores a COPY of the model as best
             and advances the previous objective; the returned object is that model
  TR-cover   the returned trace prefix covers the last index written (start + one per epoch)
  SMP-cnt    (E4a) every sampler returns subscripts, values and weights with equal symbolic row counts
  SMP-wt     stratified(): weight of a drawn nonzero = data.nnz / drawn nonzeros, of a drawn zero = (prod(shape) - data.nnz) / drawn zeros;
             semistrat(): data.nnz / drawn nonzeros and prod(shape) / drawn (the second block is drawn from all entries)
  SMP-lin    linear indices computed by hand in a sampler (subs @ cumprod(..shape..)) use tt_sub2ind's numbering: strides
             cumprod((1,) + shape[:-1]); no such site on the reviewed tree (fixtures keep the rule alive)
  SMP-val    values reported for drawn zeros are zeros, values of drawn nonzeros are gathered with
             the same index as their subscripts
Not decided: weight totals of the other samplers, "drawn zeros are true zeros" for the semi-stratified sampler (by design
it samples unconfirmed zeros), objective comparisons between runs.
"""
from __future__ import annotations

import ast
from typing import Dict, List, Optional, Set, Tuple

import sympy as sp

from ..model import Program, FuncInfo, ClassInfo, dotted, kwarg, const, NOCONST, calls_in, AnalysisError
from ..report import Result
from ..paths import enumerate_paths
from .. import rows as R

OPT = "pyttb.gcp.optimizers"
MUTATING_METHODS = {"append", "extend", "clear", "pop", "insert", "remove", "sort", "reverse", "update", "fill"}


# ------------------------------------------------------------------ class helpers
def mro(prog: Program, cq: str) -> List[ClassInfo]:
    out = []
    cur = prog.classes.get(cq)
    while cur is not None:
        out.append(cur)
        nxt = None
        for b in cur.bases:
            cand = f"{cur.module}.{b.split('.')[-1]}"
            if cand in prog.classes:
                nxt = prog.classes[cand]
                break
        cur = nxt
    return out


def lookup(chain: List[ClassInfo], name: str, after: Optional[ClassInfo] = None) -> Optional[Tuple[ClassInfo, FuncInfo]]:
    started = after is None
    for c in chain:
        if not started:
            if c is after:
                started = True
            continue
        if name in c.methods:
            return c, c.methods[name]
    return None


def is_abstract(fi: FuncInfo) -> bool:
    return any("abstractmethod" in d for d in fi.decorators)


class ReuseWalk:
    def __init__(self, prog: Program, chain: List[ClassInfo]):
        self.prog = prog
        self.chain = chain
        self.mut: Set[str] = set()
        self.early_reads: Dict[str, ast.AST] = {}
        self.closure: List[Tuple[ClassInfo, FuncInfo]] = []

    # closure of methods reachable from solve
    def collect(self, start: str = "solve") -> None:
        seen = set()
        work = [(None, start)]
        while work:
            after, name = work.pop()
            r = lookup(self.chain, name, after)
            if r is None or (r[0].name, name) in seen:
                continue
            seen.add((r[0].name, name))
            self.closure.append(r)
            for c in calls_in(r[1].node, nested=True):
                f = c.func
                if isinstance(f, ast.Attribute):
                    if isinstance(f.value, ast.Name) and f.value.id == "self":
                        work.append((None, f.attr))
                    elif isinstance(f.value, ast.Call) and isinstance(f.value.func, ast.Name) and f.value.func.id == "super":
                        work.append((r[0], f.attr))
        for _c, fi in self.closure:
            for n in ast.walk(fi.node):
                if isinstance(n, (ast.Assign, ast.AugAssign, ast.AnnAssign)):
                    tg = n.targets if isinstance(n, ast.Assign) else [n.target]
                    for t in tg:
                        for a in ([t] if not isinstance(t, ast.Tuple) else t.elts):
                            if isinstance(a, ast.Attribute) and isinstance(a.value, ast.Name) and a.value.id == "self":
                                self.mut.add(a.attr)
                if isinstance(n, ast.Call) and isinstance(n.func, ast.Attribute) and n.func.attr in MUTATING_METHODS:
                    v = n.func.value
                    if isinstance(v, ast.Attribute) and isinstance(v.value, ast.Name) and v.value.id == "self":
                        self.mut.add(v.attr)

    # flow-sensitive walk
    def reads_in(self, e: ast.AST, written: Set[str], cls: ClassInfo, depth: int) -> None:
        """Visit expression e in evaluation order, flag reads of unwritten state, inline self calls."""
        for n in _eval_order(e):
            if isinstance(n, ast.Attribute) and isinstance(n.ctx, ast.Load) and isinstance(n.value, ast.Name) \
                    and n.value.id == "self" and n.attr in self.mut and n.attr not in written:
                self.early_reads.setdefault(n.attr, n)
            if isinstance(n, ast.Call) and isinstance(n.func, ast.Attribute) and depth < 5:
                f = n.func
                tgt = None
                if isinstance(f.value, ast.Name) and f.value.id == "self":
                    tgt = lookup(self.chain, f.attr)
                elif isinstance(f.value, ast.Call) and isinstance(f.value.func, ast.Name) and f.value.func.id == "super":
                    tgt = lookup(self.chain, f.attr, cls)
                if tgt is not None:
                    w = self.block(tgt[1].node.body, set(written), tgt[0], depth + 1)
                    written |= w

    def block(self, body: List[ast.stmt], written: Set[str], cls: ClassInfo, depth: int) -> Set[str]:
        for st in body:
            if isinstance(st, (ast.FunctionDef, ast.ClassDef)):
                continue
            if isinstance(st, ast.If):
                self.reads_in(st.test, written, cls, depth)
                a = self.block(st.body, set(written), cls, depth)
                b = self.block(st.orelse, set(written), cls, depth)
                ta, tb = _terminates(st.body), _terminates(st.orelse)
                written = b if ta and not tb else a if tb and not ta else (a & b)
                continue
            if isinstance(st, (ast.For, ast.While)):
                self.reads_in(st.iter if isinstance(st, ast.For) else st.test, written, cls, depth)
                written = self.block(st.body, written, cls, depth)  # >= 1 iteration assumed
                written = self.block(st.orelse, written, cls, depth)
                continue
            if isinstance(st, ast.With):
                written = self.block(st.body, written, cls, depth)
                continue
            if isinstance(st, ast.Try):
                written = self.block(st.body + st.orelse + st.finalbody, written, cls, depth)
                continue
            if isinstance(st, ast.Assign):
                self.reads_in(st.value, written, cls, depth)
                for t in st.targets:
                    self._write(t, written, cls, depth)
                continue
            if isinstance(st, ast.AnnAssign):
                if st.value is not None:
                    self.reads_in(st.value, written, cls, depth)
                    self._write(st.target, written, cls, depth)
                continue
            if isinstance(st, ast.AugAssign):
                # read-modify-write
                t = st.target
                if isinstance(t, ast.Attribute) and isinstance(t.value, ast.Name) and t.value.id == "self":
                    if t.attr in self.mut and t.attr not in written:
                        self.early_reads.setdefault(t.attr, st)
                self.reads_in(st.value, written, cls, depth)
                self._write(t, written, cls, depth)
                continue
            self.reads_in(st, written, cls, depth)
        return written

    def _write(self, t: ast.expr, written: Set[str], cls, depth) -> None:
        if isinstance(t, ast.Tuple):
            for e in t.elts:
                self._write(e, written, cls, depth)
        elif isinstance(t, ast.Attribute) and isinstance(t.value, ast.Name) and t.value.id == "self":
            written.add(t.attr)
        elif isinstance(t, ast.Subscript):
            self.reads_in(t.value, written, cls, depth)


def _terminates(body: List[ast.stmt]) -> bool:
    return bool(body) and isinstance(body[-1], (ast.Return, ast.Raise))


def _eval_order(e: ast.AST):
    """Nodes of e roughly in evaluation order (children before a call node itself)."""
    out = []

    def go(n):
        if isinstance(n, (ast.FunctionDef, ast.Lambda, ast.ClassDef)):
            return
        for c in ast.iter_child_nodes(n):
            go(c)
        out.append(n)

    go(e)
    return out


# ------------------------------------------------------------------ the rules
def st_reuse(prog: Program, res: Result) -> None:
    n_classes = 0
    for cq, ci in sorted(prog.classes.items()):
        if ci.module != OPT:
            continue
        chain = mro(prog, cq)
        sol = lookup(chain, "solve")
        if sol is None:
            continue
        # concrete = every abstract method of the chain is overridden
        abstract = False
        for c in chain:
            for mname, m in c.methods.items():
                if is_abstract(m):
                    r = lookup(chain, mname)
                    if r is not None and is_abstract(r[1]):
                        abstract = True
        if abstract:
            continue
        n_classes += 1
        w = ReuseWalk(prog, chain)
        w.collect("solve")
        w.block(sol[1].node.body, set(), sol[0], 0)
        short = f"gcp.optimizers.{ci.name}.solve"
        if not w.mut:
            res.ok("ST-reuse", short, f"{ci.name}: solve() mutates no attribute of self", prog.loc(sol[1]), nontrivial=False)
        for a in sorted(w.mut):
            desc = f"{ci.name}: per-solve state self.{a} is (re)initialised by solve() before it is read"
            if a in w.early_reads:
                n = w.early_reads[a]
                res.bad("ST-reuse", short, desc, f"{prog.rel(sol[1].path)}:{getattr(n, 'lineno', '?')}",
                        f"self.{a} is read before any assignment in the same solve(): "
                        "the value left by an earlier solve on this object is used")
            else:
                res.ok("ST-reuse", short, desc, prog.loc(sol[1]))
    res.analysed["solver_classes"] = n_classes


def st_slot(prog: Program, res: Result) -> None:
    ci = prog.cls("gcp.optimizers.LBFGSB")
    sol = ci.methods.get("solve")
    init = ci.methods.get("__init__")
    if sol is None:
        raise AnalysisError("LBFGSB.solve vanished")
    # keys of dict attributes initialised by literal in __init__
    dict_keys: Dict[str, Set[str]] = {}
    if init is not None:
        for n in ast.walk(init.node):
            tgt = None
            if isinstance(n, ast.Assign):
                tgt, val = n.targets[0], n.value
            elif isinstance(n, ast.AnnAssign):
                tgt, val = n.target, n.value
            if tgt is not None and isinstance(tgt, ast.Attribute) and isinstance(val, ast.Dict):
                dict_keys[tgt.attr] = {k.value for k in val.keys if isinstance(k, ast.Constant)}
    short = "gcp.optimizers.LBFGSB.solve"
    params = set(sol.params()) - {"self"}
    finals: Dict[Tuple[str, str], List[Tuple[str, ast.AST]]] = {}
    for items, end in enumerate_paths(sol.node.body):
        if end == "raise":
            continue
        local_from_args: Set[str] = set(params)
        ctor_locals: Dict[str, str] = {}
        slot: Dict[Tuple[str, str], Tuple[str, ast.AST]] = {}
        dead = False
        for kind, st in items:
            if kind in ("if-true", "if-false"):
                t = st.test
                # `"k" not in self.attr` decided from the dict literal of __init__
                if isinstance(t, ast.Compare) and isinstance(t.ops[0], (ast.In, ast.NotIn)) and isinstance(t.left, ast.Constant) \
                        and isinstance(t.comparators[0], ast.Attribute) and t.comparators[0].attr in dict_keys:
                    present = t.left.value in dict_keys[t.comparators[0].attr]
                    truth = present if isinstance(t.ops[0], ast.In) else not present
                    if truth != (kind == "if-true"):
                        dead = True
                        break
                continue
            if kind != "stmt" or not isinstance(st, ast.Assign):
                continue
            tgt, val = st.targets[0], st.value
            names = {n.id for n in ast.walk(val) if isinstance(n, ast.Name)}
            if isinstance(tgt, ast.Name):
                if isinstance(val, ast.Call) and "Monitor" in (dotted(val.func) or ""):
                    ctor_locals[tgt.id] = dotted(val.func) or ""
                if names & local_from_args:
                    local_from_args.add(tgt.id)
            if isinstance(tgt, ast.Subscript) and isinstance(tgt.value, ast.Attribute) and isinstance(tgt.value.value, ast.Name) \
                    and tgt.value.value.id == "self" and isinstance(tgt.slice, ast.Constant):
                key = (tgt.value.attr, str(tgt.slice.value))
                if isinstance(val, ast.Name) and val.id in ctor_locals:
                    slot[key] = ("per-solve object " + ctor_locals[val.id], st)
                elif isinstance(val, ast.Attribute) and isinstance(val.value, ast.Name) and val.value.id in ctor_locals:
                    slot[key] = ("restored", st)  # monitor.callback: the value saved from the slot
                elif names & (local_from_args - {"self"}):
                    slot[key] = ("value computed from this solve's arguments", st)
                else:
                    slot[key] = ("restored", st)
        if dead:
            continue
        for key, v in slot.items():
            finals.setdefault(key, []).append(v)
    if not finals:
        res.ok("ST-slot", short, "solve() overwrites no keyed slot of a solver attribute", prog.loc(sol), nontrivial=False)
    for key, vs in sorted(finals.items()):
        desc = f"slot self.{key[0]}[{key[1]!r}] does not keep a per-solve value after solve() returns"
        bad = [v for v in vs if v[0] != "restored"]
        if bad:
            res.bad("ST-slot", short, desc, prog.loc(sol, bad[0][1]),
                    f"on a normal exit the slot still holds a {bad[0][0]}: the next solve on this object starts from it")
        else:
            res.ok("ST-slot", short, desc, prog.loc(sol, vs[0][1]))


def _is_lb_max(e: ast.expr, lb: str) -> bool:
    if isinstance(e, ast.Call):
        nm = (dotted(e.func) or "").split(".")[-1]
        if nm == "maximum" and len(e.args) == 2:
            return any(isinstance(a, ast.Name) and a.id == lb for a in e.args)
        if nm == "clip" and len(e.args) >= 2:
            return isinstance(e.args[1], ast.Name) and e.args[1].id == lb
    return False


def bnd_proj(prog: Program, res: Result) -> None:
    for cq, ci in sorted(prog.classes.items()):
        if ci.module != OPT or "update_step" not in ci.methods:
            continue
        fi = ci.methods["update_step"]
        if is_abstract(fi):
            continue
        params = fi.params()
        lb = params[3] if len(params) > 3 else "lower_bound"
        short = fi.short
        desc = "every factor returned by update_step is max(lower_bound, ...)"
        verdicts = []
        for n in ast.walk(fi.node):
            if isinstance(n, ast.Return) and n.value is not None:
                first = n.value.elts[0] if isinstance(n.value, ast.Tuple) and n.value.elts else n.value
                defn = first
                if isinstance(first, ast.Name):
                    defn = None
                    for a in ast.walk(fi.node):
                        if isinstance(a, ast.Assign) and any(isinstance(t, ast.Name) and t.id == first.id for t in a.targets):
                            defn = a.value
                if isinstance(defn, ast.ListComp):
                    verdicts.append(("OK" if _is_lb_max(defn.elt, lb) else "BAD", n))
                elif defn is not None and _is_lb_max(defn, lb):
                    verdicts.append(("OK", n))
                elif isinstance(defn, (ast.List,)):
                    verdicts.append(("OK" if all(_is_lb_max(x, lb) for x in defn.elts) else "BAD", n))
                else:
                    # built by append in a loop?
                    apps = [c for c in calls_in(fi.node) if isinstance(c.func, ast.Attribute) and c.func.attr == "append"
                            and isinstance(c.func.value, ast.Name) and isinstance(first, ast.Name) and c.func.value.id == first.id]
                    if apps:
                        verdicts.append(("OK" if all(_is_lb_max(c.args[0], lb) for c in apps) else "BAD", n))
                    else:
                        verdicts.append(("UNDEC", n))
        if not verdicts:
            res.undecided("BND-proj", short, desc, prog.loc(fi), "no return found")
        elif any(v[0] == "BAD" for v in verdicts):
            res.bad("BND-proj", short, desc, prog.loc(fi, verdicts[0][1]),
                    "a returned factor is not projected onto [lower_bound, inf): entries below the loss's bound can be returned")
        elif any(v[0] == "UNDEC" for v in verdicts):
            res.undecided("BND-proj", short, desc, prog.loc(fi, verdicts[0][1]))
        else:
            res.ok("BND-proj", short, desc, prog.loc(fi, verdicts[0][1]))
    # the stochastic loop forwards lower_bound
    sol = prog.func("gcp.optimizers.StochasticSolver.solve")
    desc = "solve() passes its lower_bound to update_step"
    found = None
    for c in calls_in(sol.node):
        if isinstance(c.func, ast.Attribute) and c.func.attr == "update_step":
            a = c.args[2] if len(c.args) > 2 else kwarg(c, "lower_bound")
            found = (isinstance(a, ast.Name) and a.id == "lower_bound", c)
    if found is None:
        res.undecided("BND-proj", sol.short, desc, prog.loc(sol))
    elif found[0]:
        res.ok("BND-proj", sol.short, desc, prog.loc(sol, found[1]))
    else:
        res.bad("BND-proj", sol.short, desc, prog.loc(sol, found[1]), "update_step does not receive the solve's lower bound")
    # L-BFGS-B bounds
    lsol = prog.func("gcp.optimizers.LBFGSB.solve")
    desc = "fmin_l_bfgs_b receives (lower_bound, inf) for every variable"
    found = None
    for c in calls_in(lsol.node):
        if (dotted(c.func) or "").split(".")[-1] == "fmin_l_bfgs_b":
            b = kwarg(c, "bounds")
            ok = False
            if b is not None:
                for t in ast.walk(b):
                    if isinstance(t, ast.Tuple) and len(t.elts) == 2 and isinstance(t.elts[0], ast.Name) and t.elts[0].id == "lower_bound":
                        up = t.elts[1]
                        if (dotted(up) or "") in ("np.inf", "numpy.inf", "inf", "math.inf") or const(up) is None:
                            ok = True
            found = (ok, c)
    if found is None:
        res.undecided("BND-proj", lsol.short, desc, prog.loc(lsol))
    elif found[0]:
        res.ok("BND-proj", lsol.short, desc, prog.loc(lsol, found[1]))
    else:
        res.bad("BND-proj", lsol.short, desc, prog.loc(lsol, found[1]), "bounds do not start at lower_bound for every variable")
    # gcp_opt forwards the bound it obtained from setup / the user's tuple
    g = prog.func("gcp_opt.gcp_opt")
    desc = "gcp_opt hands the loss's lower bound to the optimizer"
    lbname = None
    for n in ast.walk(g.node):
        if isinstance(n, ast.Assign) and isinstance(n.targets[0], ast.Tuple) and len(n.targets[0].elts) == 3:
            e = n.targets[0].elts[2]
            if isinstance(e, ast.Name):
                lbname = e.id
    calls = [c for c in calls_in(g.node) if isinstance(c.func, ast.Attribute) and c.func.attr == "solve"]
    if lbname is None or not calls:
        res.undecided("BND-proj", g.short, desc, prog.loc(g))
    else:
        for c in calls:
            a = c.args[4] if len(c.args) > 4 else kwarg(c, "lower_bound")
            if isinstance(a, ast.Name) and a.id == lbname:
                res.ok("BND-proj", g.short, desc + f" ({ast.unparse(c.func.value)}.solve, call {calls.index(c)})", prog.loc(g, c))
            else:
                res.bad("BND-proj", g.short, desc + f" ({ast.unparse(c.func.value)}.solve, call {calls.index(c)})", prog.loc(g, c),
                        f"5th argument is {ast.unparse(a) if a is not None else 'missing'}, not the bound returned with the handles")


def bm_sync(prog: Program, res: Result) -> None:
    sol = prog.func("gcp.optimizers.StochasticSolver.solve")
    short = sol.short
    # roles: cur = name assigned from estimate(...) inside the epoch loop; the failure test compares it with prev
    fail_if = None
    for n in ast.walk(sol.node):
        if isinstance(n, ast.If) and isinstance(n.test, ast.Name):
            # definition of the test name
            for a in ast.walk(sol.node):
                if isinstance(a, ast.Assign) and isinstance(a.targets[0], ast.Name) and a.targets[0].id == n.test.id \
                        and isinstance(a.value, ast.Compare):
                    # the branch that copies models
                    if any(isinstance(c, ast.Call) and isinstance(c.func, ast.Attribute) and c.func.attr == "copy" for c in ast.walk(n)):
                        fail_if = (n, a.value)
        elif isinstance(n, ast.If) and isinstance(n.test, ast.Compare):
            if any(isinstance(c, ast.Call) and isinstance(c.func, ast.Attribute) and c.func.attr == "copy" for b in n.body for c in ast.walk(b)) \
                    and n.orelse:
                fail_if = (n, n.test)
    if fail_if is None:
        raise AnalysisError("StochasticSolver.solve: failed-epoch branch not found")
    node, cmp_ = fail_if
    l, op, r = cmp_.left, cmp_.ops[0], cmp_.comparators[0]
    if not (isinstance(l, ast.Name) and isinstance(r, ast.Name)):
        res.undecided("BM-sync", short, "failed epoch is `new objective > previous objective`", prog.loc(sol, cmp_))
        return
    # which is cur: assigned from estimate() in the loop
    est_names = set()
    for a in ast.walk(sol.node):
        if isinstance(a, ast.Assign) and isinstance(a.targets[0], ast.Name) and isinstance(a.value, ast.Call) \
                and (dotted(a.value.func) or "").split(".")[-1] == "estimate":
            est_names.add(a.targets[0].id)
    if l.id in est_names and r.id not in est_names:
        cur, prev, ok = l.id, r.id, isinstance(op, (ast.Gt, ast.GtE))
    elif r.id in est_names and l.id not in est_names:
        cur, prev, ok = r.id, l.id, isinstance(op, (ast.Lt, ast.LtE))
    else:
        res.undecided("BM-sync", short, "failed epoch is `new objective > previous objective`", prog.loc(sol, cmp_))
        return
    desc = "failed epoch is `new objective > previous objective`"
    if ok:
        res.ok("BM-sync", short, desc, prog.loc(sol, cmp_), ast.unparse(cmp_))
    else:
        res.bad("BM-sync", short, desc, prog.loc(sol, cmp_), f"test is `{ast.unparse(cmp_)}`: improving epochs are rolled back")

    def assigns(body):
        out = {}
        for st in body:
            if isinstance(st, ast.Assign) and isinstance(st.targets[0], ast.Name):
                out[st.targets[0].id] = st.value
        return out

    fa, sa = assigns(node.body), assigns(node.orelse)
    ret_model = None
    for n in ast.walk(sol.node):
        if isinstance(n, ast.Return) and isinstance(n.value, ast.Tuple) and isinstance(n.value.elts[0], ast.Name):
            ret_model = n.value.elts[0].id
    # model names: the success branch stores best := model.copy()
    best = model = None
    for k, v in sa.items():
        if isinstance(v, ast.Call) and isinstance(v.func, ast.Attribute) and v.func.attr == "copy" and isinstance(v.func.value, ast.Name):
            best, model = k, v.func.value.id
    desc = "successful epoch stores a COPY of the current model as the best model"
    if best is None:
        # maybe aliasing assignment best = model
        alias = [(k, v.id) for k, v in sa.items() if isinstance(v, ast.Name) and v.id == ret_model]
        if alias:
            res.bad("BM-sync", short, desc, prog.loc(sol, node), f"`{alias[0][0]} = {alias[0][1]}` shares the object: later updates change the 'best' model too")
        else:
            res.bad("BM-sync", short, desc, prog.loc(sol, node), "the non-failed branch does not record the model as best")
        return
    res.ok("BM-sync", short, desc, prog.loc(sol, node), f"{best} = {model}.copy()")
    desc = "failed epoch restores the model from a COPY of the best model"
    v = fa.get(model)
    if isinstance(v, ast.Call) and isinstance(v.func, ast.Attribute) and v.func.attr == "copy" and isinstance(v.func.value, ast.Name) \
            and v.func.value.id == best:
        res.ok("BM-sync", short, desc, prog.loc(sol, node), f"{model} = {best}.copy()")
    elif isinstance(v, ast.Name) and v.id == best:
        res.bad("BM-sync", short, desc, prog.loc(sol, node), f"`{model} = {best}` aliases the best model: the next update overwrites it")
    else:
        res.bad("BM-sync", short, desc, prog.loc(sol, node), "the failed branch does not reset the model to the best one")
    desc = "successful epoch advances the previous objective"
    v = sa.get(prev)
    if isinstance(v, ast.Name) and v.id == cur:
        res.ok("BM-sync", short, desc, prog.loc(sol, node), f"{prev} = {cur}")
    else:
        res.bad("BM-sync", short, desc, prog.loc(sol, node), f"{prev} is not updated to {cur} on success")
    desc = "the returned model is the one kept in sync with the best model"
    if ret_model == model:
        res.ok("BM-sync", short, desc, prog.loc(sol), nontrivial=False)
    else:
        res.bad("BM-sync", short, desc, prog.loc(sol), f"returns {ret_model}, the synced model is {model}")
    desc = "the failed-epoch counter is reset at the start of solve and incremented by the failure flag"
    # covered by ST-reuse for the reset; the increment:
    inc = [n for n in ast.walk(sol.node) if isinstance(n, ast.AugAssign) and isinstance(n.target, ast.Attribute)
           and isinstance(n.op, ast.Add) and isinstance(n.value, ast.Name) and isinstance(node.test, ast.Name) and n.value.id == node.test.id]
    if inc:
        res.ok("BM-sync", short, desc, prog.loc(sol, inc[0]))


def _affine(e: ast.expr, var: str) -> Optional[int]:
    """c such that e == var + c."""
    if isinstance(e, ast.Name) and e.id == var:
        return 0
    if isinstance(e, ast.BinOp) and isinstance(e.op, (ast.Add, ast.Sub)):
        a, b = e.left, e.right
        if isinstance(a, ast.Name) and a.id == var and isinstance(const(b), int):
            return const(b) if isinstance(e.op, ast.Add) else -const(b)
        if isinstance(b, ast.Name) and b.id == var and isinstance(const(a), int) and isinstance(e.op, ast.Add):
            return const(a)
    return None


def tr_cover(prog: Program, res: Result) -> None:
    sol = prog.func("gcp.optimizers.StochasticSolver.solve")
    short = sol.short
    loop = None
    for n in sol.node.body:
        if isinstance(n, ast.For) and isinstance(n.target, ast.Name):
            loop = n
    if loop is None:
        raise AnalysisError("StochasticSolver.solve: epoch loop not found")
    var = loop.target.id
    written: Dict[str, int] = {}
    for n in ast.walk(loop):
        if isinstance(n, ast.Assign) and isinstance(n.targets[0], ast.Subscript) and isinstance(n.targets[0].value, ast.Name):
            c = _affine(n.targets[0].slice, var)
            if c is not None:
                nm = n.targets[0].value.id
                written[nm] = max(written.get(nm, c), c)
    n_checked = 0
    for n in ast.walk(sol.node):
        if isinstance(n, ast.Subscript) and isinstance(n.ctx, ast.Load) and isinstance(n.value, ast.Name) and n.value.id in written \
                and isinstance(n.slice, ast.Slice) and n.slice.upper is not None and n not in list(ast.walk(loop)):
            c = _affine(sol.resolve(n.slice.upper, keep=(var,)), var)      # a named bound (n_recorded = n_epoch + 2) reads as its definition
            nm = n.value.id
            desc = f"returned prefix of {nm} covers the entry written for the last epoch"
            n_checked += 1
            if c is None:
                res.undecided("TR-cover", short, desc, prog.loc(sol, n))
            elif c == written[nm] + 1:
                res.ok("TR-cover", short, desc, prog.loc(sol, n), f"written at [{var}+{written[nm]}], returned [:{var}+{c}]")
            elif c <= written[nm]:
                res.bad("TR-cover", short, desc, prog.loc(sol, n),
                        f"last epoch writes index {var}+{written[nm]} but the returned slice stops at {var}+{c} (exclusive): "
                        "the last completed epoch is missing from the trace")
            else:
                res.bad("TR-cover", short, desc, prog.loc(sol, n),
                        f"returned slice [:{var}+{c}] extends past the last written index {var}+{written[nm]}: unwritten zeros are reported")
    res.analysed["trace_slices"] = n_checked


def smp_cnt(prog: Program, res: Result) -> None:
    ev = R.RowEval(prog)
    n = 0
    for q, fi in sorted(prog.functions.items()):
        if fi.module != "pyttb.gcp.samplers" or fi.cls or fi.parent:
            continue
        r = fi.node.returns
        if r is None or ast.unparse(r) != "sample_type":
            continue
        n += 1
        rets = ev.run(fi)
        desc = "returned subscripts, values and weights have equal row counts"
        if not rets:
            res.undecided("SMP-cnt", fi.short, desc, prog.loc(fi), "no evaluable return path")
            continue
        verdict, why = "EQ", ""
        for v in rets:
            if not (isinstance(v, R.Tup) and len(v.elts) == 3 and all(isinstance(x, R.Arr) for x in v.elts)):
                verdict, why = "UNK", "return value is not a triple of arrays"
                break
            s, vals, w = v.elts
            for a, b, what in ((s, vals, "subscripts vs values"), (s, w, "subscripts vs weights")):
                c, reason = R.compare_counts(a.rows, b.rows)
                if c == "NE":
                    why = (why + "; " if verdict == "NE" else "") + f"{what}: {reason}"
                    verdict = "NE"
                elif c == "UNK" and verdict == "EQ":
                    verdict, why = "UNK", f"{what}: {reason}"
            if verdict == "NE":
                break
        if verdict == "EQ":
            res.ok("SMP-cnt", fi.short, desc, prog.loc(fi), f"rows = {rets[0].elts[0].rows}")
        elif verdict == "NE":
            res.bad("SMP-cnt", fi.short, desc, prog.loc(fi), why)
        else:
            res.undecided("SMP-cnt", fi.short, desc, prog.loc(fi), why)
    res.analysed["samplers"] = n
    # nonzeros(): subscripts and values gathered with the same index
    fi = prog.func("gcp.samplers.nonzeros")
    desc = "sampled nonzero values are gathered with the same index as their subscripts"
    idx = {}
    for a in ast.walk(fi.node):
        # data.subs[rows, :] / data.vals[rows] wherever they are gathered (assigned to a local or returned directly)
        if isinstance(a, ast.Subscript) and isinstance(a.ctx, ast.Load) and isinstance(a.value, ast.Attribute) and a.value.attr in ("subs", "vals"):
            first = a.slice.elts[0] if isinstance(a.slice, ast.Tuple) else a.slice
            if not isinstance(first, ast.Slice):
                idx.setdefault(a.value.attr, fi.rtext(first))
    if set(idx) == {"subs", "vals"}:
        if idx["subs"] == idx["vals"]:
            res.ok("SMP-val", fi.short, desc, prog.loc(fi), f"both indexed by {idx['subs']}")
        else:
            res.bad("SMP-val", fi.short, desc, prog.loc(fi), f"subs[{idx['subs']}] paired with vals[{idx['vals']}]")
    else:
        res.undecided("SMP-val", fi.short, desc, prog.loc(fi))
    # drawn zeros are reported with value zero
    for nm in ("stratified", "semistrat"):
        fi = prog.func(f"gcp.samplers.{nm}")
        desc = "values reported for the drawn zeros are zeros"
        cat = None
        for a in ast.walk(fi.node):
            if isinstance(a, ast.Call) and (dotted(a.func) or "").split(".")[-1] == "concatenate" and a.args \
                    and isinstance(a.args[0], ast.Tuple) and len(a.args[0].elts) == 2:
                second = a.args[0].elts[1]
                if isinstance(second, ast.Name) and "val" in second.id:
                    cat = second.id
        if cat is None:
            res.undecided("SMP-val", fi.short, desc, prog.loc(fi))
            continue
        d = None
        for a in ast.walk(fi.node):
            if isinstance(a, ast.Assign) and isinstance(a.targets[0], ast.Name) and a.targets[0].id == cat:
                d = a.value
        if isinstance(d, ast.Call) and (dotted(d.func) or "").split(".")[-1] in ("zeros", "zeros_like"):
            res.ok("SMP-val", fi.short, desc, prog.loc(fi, d))
        else:
            res.bad("SMP-val", fi.short, desc, prog.loc(fi, d) if d is not None else prog.loc(fi),
                    f"the zero block of the values is {ast.unparse(d) if d is not None else 'undefined'}")


def _weight_coefficient(fi, name: str):
    """The scalar every entry of the weight vector `name` ends up with, as an expression: the vector is np.ones(..) (times a scalar, or np.full
    with it) and may be scaled in place afterwards.  None when it is built any other way."""
    def ones(e):
        return isinstance(e, ast.Call) and (dotted(e.func) or "").split(".")[-1] in ("ones", "ones_like")
    factors: List[ast.expr] = []
    first = None
    n_def = 0
    for n in ast.walk(fi.node):
        if isinstance(n, ast.Assign) and len(n.targets) == 1 and isinstance(n.targets[0], ast.Name) and n.targets[0].id == name:
            n_def += 1
            v = n.value
            first = first or n
            if ones(v):
                continue
            if isinstance(v, ast.Name) and v.id != name:
                # a plain re-naming of a vector built under another name (e.g. by an inlined helper)
                sub, at = _weight_coefficient(fi, v.id)
                if sub is None:
                    return None, None
                factors.append(sub)
                first = at
                continue
            if isinstance(v, ast.BinOp) and isinstance(v.op, ast.Mult) and (ones(v.left) or ones(v.right)):
                factors.append(v.right if ones(v.left) else v.left)
            elif isinstance(v, ast.Call) and (dotted(v.func) or "").split(".")[-1] == "full" and len(v.args) >= 2:
                factors.append(v.args[1])
            else:
                return None, None
        elif isinstance(n, ast.AugAssign) and isinstance(n.target, ast.Name) and n.target.id == name:
            if not isinstance(n.op, ast.Mult):
                return None, None
            first = first or n
            factors.append(n.value)
    if n_def != 1 or not factors:
        return None, None
    e = factors[0]
    for f in factors[1:]:
        e = ast.BinOp(left=e, op=ast.Mult(), right=f)
    return e, first


def smp_weights(prog: Program, res: Result) -> None:
    """stratified(): each drawn nonzero stands for (stored nonzeros / drawn nonzeros) entries and each drawn zero for
    (all entries - stored nonzeros) / drawn zeros: the weights total the entries they stand for.  semistrat(): the second block is drawn from
    ALL entries (a drawn "zero" may be a stored nonzero; the loss corrects for it), so each of its samples stands for all entries / number
    drawn.  Decided as terms over the data's own counts (data.nnz, prod(data.shape)) and the two requested sample counts."""
    import sympy as sp
    from . import alg_common as A
    NNZ, TOT, a, b = sp.Symbol("NNZ", positive=True), sp.Symbol("TOT", positive=True), sp.Symbol("a", positive=True), sp.Symbol("b", positive=True)
    for fname, pos, second in (("stratified", (0, 2, 3), (TOT - NNZ) / b), ("semistrat", (0, 1, 2), TOT / b)):
        fi = prog.func(f"gcp.samplers.{fname}")
        ps = fi.params()
        head = f"weights of a {fname} sample total the entries they stand for"
        if len(ps) <= max(pos):
            res.undecided("SMP-wt", fi.short, head, prog.loc(fi), "signature changed")
            continue
        data, n_nz, n_z = (ps[i] for i in pos)
        roles = {f"{data}.nnz": NNZ, f"np.prod({data}.shape)": TOT, f"prod({data}.shape)": TOT, f"math.prod({data}.shape)": TOT, n_nz: a, n_z: b}
        # the two weight vectors: the operands of the concatenation that is returned last
        wnames = None
        sd = fi.single_defs()
        for r in ast.walk(fi.node):
            if isinstance(r, ast.Return) and isinstance(r.value, ast.Tuple) and len(r.value.elts) == 3:
                w = r.value.elts[2]
                if isinstance(w, ast.Name) and w.id in sd:
                    w = sd[w.id]            # one step only: the operands of the concatenation keep their names
                if isinstance(w, ast.Call) and (dotted(w.func) or "").split(".")[-1] in ("concatenate", "hstack") and w.args \
                        and isinstance(w.args[0], (ast.Tuple, ast.List)) and len(w.args[0].elts) == 2 and all(isinstance(x, ast.Name) for x in w.args[0].elts):
                    wnames = [x.id for x in w.args[0].elts]
        if wnames is None:
            res.undecided("SMP-wt", fi.short, head, prog.loc(fi), "weight vectors not identified")
            continue
        for nm, want, what in ((wnames[0], NNZ / a, "drawn nonzero"), (wnames[1], second, "sample of the second block")):
            desc = f"every {what} carries weight {want} (entries it stands for / number drawn)"
            coef, at = _weight_coefficient(fi, nm)
            if coef is None:
                res.undecided("SMP-wt", fi.short, desc, prog.loc(fi), f"`{nm}` is not a vector of ones times a scalar")
                continue
            ok, how = A.formula_equals(fi.resolve(coef), roles, want)
            if ok is True:
                res.ok("SMP-wt", fi.short, desc, prog.loc(fi, at), how)
            elif ok is False:
                res.bad("SMP-wt", fi.short, desc, prog.loc(fi, at), how + ": the weights no longer total the entries of the stratum, so every "
                        "function / gradient estimate built from the sample is biased")
            else:
                res.undecided("SMP-wt", fi.short, desc, prog.loc(fi, at), how)


def smp_lin(prog: Program, res: Result) -> None:
    """Hand-written linear indices in the samplers (subs @ strides instead of tt_sub2ind): the rejection test of the zero sampler compares
    them with tt_sub2ind indices of the nonzeros, so the strides must be the first-subscript-fastest ones, cumprod((1,) + shape[:-1]).
    The reviewed tree has no such site (it calls tt_sub2ind); fixtures keep the rule from passing vacuously."""
    from .C20 import _stride_idiom
    bad_fx = _stride_idiom(ast.parse("def f(data, subs):\n    strides = np.cumprod((1, *data.shape[1:]))\n    return subs @ strides\n"))
    ok_fx = _stride_idiom(ast.parse("def f(data, subs):\n    strides = np.cumprod((1, *data.shape[:-1]))\n    return subs @ strides\n"))
    if not (bad_fx and bad_fx[0] is False and ok_fx and ok_fx[0] is True):
        raise AnalysisError("SMP-lin stride fixtures not recognised")
    for q, fi in sorted(prog.functions.items()):
        if fi.module != "pyttb.gcp.samplers":
            continue
        v = _stride_idiom(fi.node)
        if v is None:
            continue
        desc = "linear indices computed by hand use the first-subscript-fastest strides of the shape (the numbering of tt_sub2ind)"
        if v[0]:
            res.ok("SMP-lin", fi.short, desc, prog.loc(fi, v[2]))
        else:
            res.bad("SMP-lin", fi.short, desc, prog.loc(fi, v[2]),
                    v[1].replace("the positions leave the diagonal for every non-cubical shape",
                                 "the indices no longer match tt_sub2ind's for any non-cubical shape: drawn 'zeros' are not tested against the "
                                 "stored nonzeros they coincide with"))


def check(prog: Program, res: Result, tier: str) -> None:
    res.explanation = __doc__.split("\n\n", 1)[1]
    res.assumptions = [
        "loops of solve() execute at least once (a zero-iteration epoch loop leaves `step` unbound and raises anyway)",
        "operands well-formed: rows(x.subs) == rows(x.vals) == x.nnz",
        "self-method calls resolve through the class's MRO; no monkey-patching of solver objects",
    ]
    res.floors = {"ST-reuse": 4, "ST-slot": 1, "BND-proj": 7, "BM-sync": 5, "TR-cover": 3, "SMP-cnt": 3, "SMP-val": 3}
    st_reuse(prog, res)
    st_slot(prog, res)
    bnd_proj(prog, res)
    bm_sync(prog, res)
    tr_cover(prog, res)
    smp_cnt(prog, res)
    smp_lin(prog, res)
    smp_weights(prog, res)
