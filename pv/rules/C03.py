"""C03 — sparse element-wise arithmetic, logic and comparison match dense semantics.

Decided (E4 + finite tables, on the sparse operators and logical_* / elemfun / ones / scale):
  IX-dom / IX-seq / IX-pair / IX-kind   pairing provenance in *, /, ==, !=, _compare, logical_*: values of the two
          operands are combined only when aligned by construction; indices address the list they were computed for
  SC      a dense lookup tensor[subs] (a Python float when one entry is selected) is normalised before it is
          subscripted or transposed — the "exactly one stored entry" path
  CONV    the rich comparisons hand (op, converse(op), include_zero = "op holds for 0 vs 0") to _compare:
          (lt,gt,False) (le,ge,True) (gt,lt,False) (ge,le,True) — finite and exhaustive
  CNTPRED the aggregating logical operators reduce the stacked subscript lists by group size:
          and <=> count == 2, or <=> count >= 1, xor <=> count == 1
  ZERO    values are retained in a sparse result unless they are zero (a `!= 0` test, not a sign test)
  SUBNEG  every return of sptensor.__sub__ that is built from the right operand alone (shortcut for an empty left operand) negates it
  FILL    sparse / sparse fills the complement classes as dense division does: x/0 -> signed infinity,
          0/x -> 0, 0/0 -> NaN
  LOGIC   the dense logical_and / _or / _xor / _not (the sparse ones delegate to them for dense and scalar right-hand sides) apply the numpy
          ufunc of the same name to the operands themselves or to their `!= 0` truth value — not to a sign test, which reads negative entries as false
  IX-cnt  result constructors receive equally many subscripts and values (symbolic row counts)
Not decided: result values; NaN/inf placement beyond the provenance of the subscript sets; sparse / dense division
at positions where both operands are zero (the code only visits stored entries).
"""
from __future__ import annotations

import ast
import operator

from typing import Dict, List, Optional, Tuple

from ..model import Program, dotted, const, kwarg, AnalysisError, walk_no_nested, arg_or_kw
from ..report import Result
from . import ix_common as I
from . import eo_common as E

OPS = ["__add__", "__sub__", "__mul__", "__rmul__", "__truediv__", "__rtruediv__", "__eq__", "__ne__", "__lt__", "__le__", "__gt__",
       "__ge__", "_compare", "logical_and", "logical_or", "logical_xor", "logical_not", "elemfun", "ones", "scale", "__neg__", "__pos__",
       "innerprod", "mask"]
CONVERSE = {"lt": ("gt", False), "le": ("ge", True), "gt": ("lt", False), "ge": ("le", True)}
DUNDER = {"__lt__": "lt", "__le__": "le", "__gt__": "gt", "__ge__": "ge"}


def conv_table(prog: Program, res: Result) -> None:
    for dn, op in DUNDER.items():
        fi = prog.func(f"sptensor.sptensor.{dn}")
        desc = f"{dn} delegates to _compare with ({op}, {CONVERSE[op][0]}, include_zero={CONVERSE[op][1]})"
        call = None
        for c in ast.walk(fi.node):
            if isinstance(c, ast.Call) and isinstance(c.func, ast.Attribute) and c.func.attr == "_compare":
                call = c
        if call is None:
            res.undecided("CONV", fi.short, desc, prog.loc(fi), "no call to _compare")
            continue
        a = [(dotted(x) or "").split(".")[-1] for x in call.args[1:3]]
        inc = call.args[3] if len(call.args) > 3 else kwarg(call, "include_zero")
        incv = const(inc) if inc is not None else False
        want = (op, CONVERSE[op][0], CONVERSE[op][1])
        got = (a[0] if a else None, a[1] if len(a) > 1 else None, incv)
        if got == want:
            res.ok("CONV", fi.short, desc, prog.loc(fi, call))
        else:
            res.bad("CONV", fi.short, desc, prog.loc(fi, call),
                    f"passes {got}: a wrong converse or zero flag mis-marks every position where one or both operands are implicit zeros")


def cnt_pred(prog: Program, res: Result) -> None:
    want = {"logical_and": ("Eq", 2), "logical_or": ("GtE", 1), "logical_xor": ("Eq", 1)}
    for name, (opname, k) in want.items():
        fi = prog.func(f"sptensor.sptensor.{name}")
        desc = f"{name} of two sparse tensors keeps a position iff its count in the stacked lists is {'==' if opname == 'Eq' else '>='} {k}"
        preds = []
        for c in ast.walk(fi.node):
            if isinstance(c, ast.Call) and (dotted(c.func) or "").split(".")[-1] == "from_aggregator":
                for a in list(c.args) + [kw.value for kw in c.keywords]:
                    if isinstance(a, ast.Name):
                        # a named predicate (nested or module-level function whose body is `return <comparison>`) reads like the lambda
                        cands = [d for d in ast.walk(fi.node) if isinstance(d, ast.FunctionDef) and d.name == a.id and d is not fi.node]
                        q_ = f"{fi.module}.{a.id}"
                        if not cands and q_ in prog.functions:
                            cands = [prog.functions[q_].node]
                        for d in cands:
                            body = [st for st in d.body if not (isinstance(st, ast.Expr) and isinstance(st.value, ast.Constant))]
                            if len(body) == 1 and isinstance(body[0], ast.Return) and isinstance(body[0].value, ast.Compare):
                                a = ast.Lambda(args=d.args, body=body[0].value)
                    if isinstance(a, ast.Lambda) and isinstance(a.body, ast.Compare) and len(a.body.ops) == 1:
                        preds.append((a, c))
        if not preds:
            res.undecided("CNTPRED", fi.short, desc, prog.loc(fi), "no aggregation lambda found")
            continue
        for lam, c in preds:
            cmp_ = lam.body
            left, op_, right = cmp_.left, cmp_.ops[0], cmp_.comparators[0]
            islen = isinstance(left, ast.Call) and isinstance(left.func, ast.Name) and left.func.id == "len"
            v = const(right)
            # normalise integer comparisons: > k-1  == >= k
            norm = None
            if islen and isinstance(v, int):
                t = type(op_).__name__
                if t == "Gt":
                    norm = ("GtE", v + 1)
                elif t in ("Eq", "GtE"):
                    norm = (t, v)
                else:
                    norm = (t, v)
            if norm == (opname, k):
                res.ok("CNTPRED", fi.short, desc, prog.loc(fi, c), ast.unparse(lam))
            elif norm is None:
                res.undecided("CNTPRED", fi.short, desc, prog.loc(fi, c), ast.unparse(lam))
            else:
                res.bad("CNTPRED", fi.short, desc, prog.loc(fi, c), f"predicate is `{ast.unparse(lam.body)}`")


def zero_filter(prog: Program, res: Result) -> None:
    for name in ("elemfun",):
        fi = prog.func(f"sptensor.sptensor.{name}")
        desc = "entries are dropped only when the new value is zero"
        found = False
        for c in ast.walk(fi.node):
            if isinstance(c, ast.Call) and (dotted(c.func) or "").split(".")[-1] in ("where", "nonzero", "flatnonzero") and c.args:
                a = c.args[0]
                found = True
                if isinstance(a, ast.Compare) and len(a.ops) == 1:
                    t = type(a.ops[0]).__name__
                    if t == "NotEq" and const(a.comparators[0]) == 0:
                        res.ok("ZERO", fi.short, desc, prog.loc(fi, c), ast.unparse(a))
                    else:
                        res.bad("ZERO", fi.short, desc, prog.loc(fi, c),
                                f"retention test is `{ast.unparse(a)}`: entries with other non-zero values (e.g. negative ones) are dropped")
                else:
                    res.ok("ZERO", fi.short, desc, prog.loc(fi, c), "np.nonzero of the values", nontrivial=False)
        if not found:
            res.undecided("ZERO", fi.short, desc, prog.loc(fi))


def _doc_order(node: ast.AST):
    """Nodes in document (evaluation) order."""
    yield node
    for c in ast.iter_child_nodes(node):
        yield from _doc_order(c)


def fill_table(prog: Program, res: Result) -> None:
    fi = prog.func("sptensor.sptensor.__truediv__")
    me = fi.params()[0] if fi.params() else "self"
    you = fi.params()[1] if len(fi.params()) > 1 else "other"
    defs: Dict[str, List[ast.AST]] = {}
    for n in walk_no_nested(fi.node):
        if isinstance(n, ast.Assign):
            for t in n.targets:
                if isinstance(t, ast.Name):
                    defs.setdefault(t.id, []).append(n.value)
                elif isinstance(t, ast.Tuple) and isinstance(n.value, ast.Tuple) and len(t.elts) == len(n.value.elts):
                    for te, ve in zip(t.elts, n.value.elts):
                        if isinstance(te, ast.Name):
                            defs.setdefault(te.id, []).append(ve)

    def index_set(e: ast.AST, depth: int = 0) -> Optional[Tuple[str, str]]:
        """(owner, 'nz' | 'zero'): the stored subscripts of an operand, or the complement of them (all subscripts minus the stored ones)."""
        if depth > 5:
            return None
        if isinstance(e, ast.Attribute) and e.attr == "subs" and isinstance(e.value, ast.Name) and e.value.id in (me, you):
            return ("self" if e.value.id == me else "other", "nz")
        if isinstance(e, ast.Call) and isinstance(e.func, ast.Attribute) and e.func.attr == "allsubs" and isinstance(e.func.value, ast.Name) \
                and e.func.value.id in (me, you):
            return ("self" if e.func.value.id == me else "other", "zero")      # every subscript: the complement of an empty stored set
        if isinstance(e, ast.Subscript):
            base = index_set(e.value, depth + 1)
            sl = e.slice.elts[0] if isinstance(e.slice, ast.Tuple) and e.slice.elts else e.slice
            for _ in range(3):
                if isinstance(sl, ast.Name) and len(defs.get(sl.id, [])) == 1:
                    sl = defs[sl.id][0]
            if base is not None and base[1] == "zero" and isinstance(sl, ast.Call) and (dotted(sl.func) or "").split(".")[-1] == "tt_setdiff_rows" \
                    and len(sl.args) == 2:
                full, stored = index_set(sl.args[0], depth + 1), index_set(sl.args[1], depth + 1)
                if full == base and stored == (base[0], "nz"):
                    return base
            return None
        if isinstance(e, ast.Name) and e.id in defs:
            got = {index_set(d, depth + 1) for d in defs[e.id]}
            if len(got) == 1:
                return next(iter(got))
        return None

    # every class of positions: m = tt_intersect_rows(A, B), followed (before the next class) by the value its rows are filled with
    classes = []
    cur = None
    stmts = [n for n in walk_no_nested(fi.node) if isinstance(n, (ast.Assign, ast.Expr))]
    stmts.sort(key=lambda n: (n.lineno, n.col_offset))
    order = {id(n): k for k, n in enumerate(_doc_order(fi.node))}
    stmts.sort(key=lambda n: order.get(id(n), 0))
    for n in stmts:
        if isinstance(n, ast.Assign) and isinstance(n.value, ast.Call) and (dotted(n.value.func) or "").split(".")[-1] == "tt_intersect_rows" \
                and len(n.value.args) == 2:
            cur = (index_set(n.value.args[0]), index_set(n.value.args[1]), n)
            continue
        if cur is None:
            continue
        fill = None
        if isinstance(n, ast.Expr) and isinstance(n.value, ast.Call) and isinstance(n.value.func, ast.Attribute) and n.value.func.attr == "fill":
            fill = n.value.args[0] if n.value.args else None
        elif isinstance(n, ast.Assign):
            for c in ast.walk(n.value):
                if isinstance(c, ast.Call) and (dotted(c.func) or "") in ("np.full", "numpy.full"):
                    fill = arg_or_kw(c, 1, "fill_value")
                    break
            if fill is None and isinstance(n.value, ast.BinOp) and "inf" in ast.unparse(n.value):
                fill = n.value
            if fill is None and isinstance(n.value, ast.BinOp) and isinstance(n.value.op, ast.Mult):
                for side, oth in ((n.value.left, n.value.right), (n.value.right, n.value.left)):
                    if isinstance(oth, ast.Call) and (dotted(oth.func) or "") in ("np.ones", "numpy.ones"):
                        fill = side
        if fill is not None:
            classes.append((cur[0], cur[1], fill, n))
            cur = None

    for a, b, fill, node in classes:
        cls = {(("self", "nz"), ("other", "zero")): "x/0", (("other", "nz"), ("self", "zero")): "0/x",
               (("self", "zero"), ("other", "zero")): "0/0", (("other", "zero"), ("self", "nz")): "x/0",
               (("self", "zero"), ("other", "nz")): "0/x", (("other", "zero"), ("self", "zero")): "0/0"}.get((a, b))
        if cls is None:
            continue
        ft = ast.unparse(fill) if fill is not None else ""
        desc = f"sparse / sparse fills the {cls} positions like dense division"
        want = {"x/0": "inf", "0/x": "0", "0/0": "nan"}[cls]
        ok = (want == "inf" and "inf" in ft) or (want == "0" and const(fill) == 0) or (want == "nan" and "nan" in ft)
        if ok:
            res.ok("FILL", fi.short, desc, prog.loc(fi, node), f"fill {ft}")
        else:
            res.bad("FILL", fi.short, desc, prog.loc(fi, node), f"positions where {cls} are filled with {ft}; dense division gives {want}"
                    + (" with the sign of x" if want == "inf" else ""))


def sub_shortcuts(prog: Program, res: Result) -> None:
    """a - b with an operand that stores nothing: the shortcut for an empty LEFT operand returns the NEGATED right operand (and the shortcut
    for an empty right operand the left one unchanged).  Every return of __sub__ that is built from `other` alone must negate it."""
    fi = prog.func("sptensor.sptensor.__sub__")
    me, you = fi.params()[0], fi.params()[1]
    n = 0
    for r in ast.walk(fi.node):
        if not (isinstance(r, ast.Return) and r.value is not None):
            continue
        names = {x.id for x in ast.walk(r.value) if isinstance(x, ast.Name)}
        if you in names and me not in names:
            v = fi.resolve(r.value)
            negated = (isinstance(v, ast.UnaryOp) and isinstance(v.op, ast.USub)) \
                or (isinstance(v, ast.BinOp) and isinstance(v.op, ast.Mult) and (const(v.left) == -1 or const(v.right) == -1)) \
                or (isinstance(v, ast.Call) and isinstance(v.func, ast.Attribute) and v.func.attr == "__neg__")
            desc = f"a return of __sub__ built from `{you}` alone is its negation: {ast.unparse(r)[:50]}"
            n += 1
            if negated:
                res.ok("SUBNEG", fi.short, desc, prog.loc(fi, r))
            else:
                res.bad("SUBNEG", fi.short, desc, prog.loc(fi, r),
                        f"`{ast.unparse(r.value)[:50]}` is returned as the difference: when the left operand stores nothing, a - b comes out as +b "
                        "(and a + b, which is computed as a - (-b), as -b)")
    if n == 0:
        res.undecided("SUBNEG", fi.short, "a return of __sub__ built from the right operand alone is its negation", prog.loc(fi))


def dense_logic(prog: Program, res: Result) -> None:
    for op in ("logical_and", "logical_or", "logical_xor", "logical_not"):
        fi = prog.func(f"tensor.tensor.{op}")
        desc = f"np.{op} is applied to the operands as they are (truth value = `!= 0`)"
        calls = [c for c in ast.walk(fi.node) if isinstance(c, ast.Call) and (dotted(c.func) or "").split(".")[0] in ("np", "numpy")
                 and (dotted(c.func) or "").split(".")[-1].startswith("logical_")]
        if not calls:
            res.undecided("LOGIC", fi.short, desc, prog.loc(fi), "no numpy logical ufunc found")
            continue
        for c in calls:
            base = dotted(c.func).split(".")[-1]
            if base != op:
                res.bad("LOGIC", fi.short, desc, prog.loc(fi, c), f"`{op}` computes np.{base}")
                continue
            verdict, why = "OK", ""
            for a in c.args:
                a = fi.resolve(a)
                if isinstance(a, (ast.Name, ast.Attribute)):
                    continue
                if isinstance(a, ast.Compare) and len(a.ops) == 1:
                    k = const(a.comparators[0])
                    if isinstance(a.ops[0], ast.NotEq) and k == 0 and not isinstance(k, bool):
                        continue
                    if isinstance(a.ops[0], (ast.Gt, ast.Lt, ast.GtE, ast.LtE)):
                        verdict, why = "BAD", (f"`{ast.unparse(a)}` is a sign / size test: entries on the other side of it count as false, dense and "
                                               "sparse results (and the dense route of the sparse operator) disagree for negative values")
                        break
                if isinstance(a, ast.Call) and isinstance(a.func, ast.Attribute) and a.func.attr == "astype" and a.args \
                        and ast.unparse(a.args[0]) in ("bool", "np.bool_") and isinstance(a.func.value, (ast.Name, ast.Attribute)):
                    continue
                verdict, why = ("UND", f"operand `{ast.unparse(a)[:50]}` is neither the raw operand nor its `!= 0` truth value") if verdict == "OK" else (verdict, why)
            if verdict == "OK":
                res.ok("LOGIC", fi.short, desc, prog.loc(fi, c), ast.unparse(c)[:60])
            elif verdict == "BAD":
                res.bad("LOGIC", fi.short, desc, prog.loc(fi, c), why)
            else:
                res.undecided("LOGIC", fi.short, desc, prog.loc(fi, c), why)


def check(prog: Program, res: Result, tier: str) -> None:
    res.explanation = __doc__.split("\n\n", 1)[1]
    res.assumptions = ["row-helper contracts are trusted (C17 does not prove them)", "operands well-formed; tensor[subs] returns one value per row",
                       "the dense operators (tenfun) are the meaning"]
    res.floors = {"IX-dom": 20, "IX-seq": 8, "IX-pair": 8, "SC": 6, "CONV": 4, "CNTPRED": 3, "ZERO": 1, "FILL": 3, "IX-cnt": 12, "IX-agg": 1, "LOGIC": 4}
    names = {f"sptensor.sptensor.{o}" for o in OPS}
    for n in names:
        prog.func(n)
    sel = lambda fi: fi.short in names
    I.ix_rules(prog, res, sel)
    conv_table(prog, res)
    cnt_pred(prog, res)
    # the count predicates of the logical operators are reducers of the aggregating constructor: they must run for every group
    from .C06 import agg_every_path
    agg_every_path(prog, res)
    zero_filter(prog, res)
    fill_table(prog, res)
    sub_shortcuts(prog, res)
    dense_logic(prog, res)
    E.cnt_ctor(prog, res, sel)
