"""C03 — sparse element-wise arithmetic, logic and comparison match dense semantics.

Decided (E4 + finite tables, on the sparse operators and logical_* / elemfun / ones / scale):
  IX-dom / IX-seq / IX-pair / IX-kind   pairing provenance in *, /, ==, !=, _compare, logical_*: values of the two
          operands are combined only when aligned by construction; indices address the list they were computed for
  SC      a dense lookup tensor[subs] (a Python float when one entry is selected) is normalised before it is
          subscripted or transposed — the "exactly one stored entry" path
  CONV    the rich comparisons hand (op, converse(op), include_zero = "op holds for 0 vs 0") to _compare:
          (lt,gt,False) (le,ge,True) (gt,lt,False) (ge,le,True) — finite and exhaustive
  CNTPRED the aggregating logical operators reduce the stacked subscript lists by group size:
          and <=> count == 2, or <=> count >= 1, xor <=> count == 1
  ZERO    values are retained in a sparse result unless they are zero (a `!= 0` test, not a sign test)
  FILL    sparse / sparse fills the complement classes as dense division does: x/0 -> signed infinity,
          0/x -> 0, 0/0 -> NaN
  IX-cnt  result constructors receive equally many subscripts and values (symbolic row counts)
Not decided: result values; NaN/inf placement beyond the provenance of the subscript sets; sparse / dense division
at positions where both operands are zero (the code only visits stored entries).
"""
from __future__ import annotations

import ast
import operator

from ..model import Program, dotted, const, kwarg, AnalysisError
from ..report import Result
from . import ix_common as I
from . import eo_common as E

OPS = ["__add__", "__sub__", "__mul__", "__rmul__", "__truediv__", "__rtruediv__", "__eq__", "__ne__", "__lt__", "__le__", "__gt__",
       "__ge__", "_compare", "logical_and", "logical_or", "logical_xor", "logical_not", "elemfun", "ones", "scale", "__neg__", "__pos__",
       "innerprod", "mask"]
CONVERSE = {"lt": ("gt", False), "le": ("ge", True), "gt": ("lt", False), "ge": ("le", True)}
DUNDER = {"__lt__": "lt", "__le__": "le", "__gt__": "gt", "__ge__": "ge"}


def conv_table(prog: Program, res: Result) -> None:
    for dn, op in DUNDER.items():
        fi = prog.func(f"sptensor.sptensor.{dn}")
        desc = f"{dn} delegates to _compare with ({op}, {CONVERSE[op][0]}, include_zero={CONVERSE[op][1]})"
        call = None
        for c in ast.walk(fi.node):
            if isinstance(c, ast.Call) and isinstance(c.func, ast.Attribute) and c.func.attr == "_compare":
                call = c
        if call is None:
            res.undecided("CONV", fi.short, desc, prog.loc(fi), "no call to _compare")
            continue
        a = [(dotted(x) or "").split(".")[-1] for x in call.args[1:3]]
        inc = call.args[3] if len(call.args) > 3 else kwarg(call, "include_zero")
        incv = const(inc) if inc is not None else False
        want = (op, CONVERSE[op][0], CONVERSE[op][1])
        got = (a[0] if a else None, a[1] if len(a) > 1 else None, incv)
        if got == want:
            res.ok("CONV", fi.short, desc, prog.loc(fi, call))
        else:
            res.bad("CONV", fi.short, desc, prog.loc(fi, call),
                    f"passes {got}: a wrong converse or zero flag mis-marks every position where one or both operands are implicit zeros")


def cnt_pred(prog: Program, res: Result) -> None:
    want = {"logical_and": ("Eq", 2), "logical_or": ("GtE", 1), "logical_xor": ("Eq", 1)}
    for name, (opname, k) in want.items():
        fi = prog.func(f"sptensor.sptensor.{name}")
        desc = f"{name} of two sparse tensors keeps a position iff its count in the stacked lists is {'==' if opname == 'Eq' else '>='} {k}"
        preds = []
        for c in ast.walk(fi.node):
            if isinstance(c, ast.Call) and (dotted(c.func) or "").split(".")[-1] == "from_aggregator":
                for a in list(c.args) + [kw.value for kw in c.keywords]:
                    if isinstance(a, ast.Lambda) and isinstance(a.body, ast.Compare) and len(a.body.ops) == 1:
                        preds.append((a, c))
        if not preds:
            res.undecided("CNTPRED", fi.short, desc, prog.loc(fi), "no aggregation lambda found")
            continue
        for lam, c in preds:
            cmp_ = lam.body
            left, op_, right = cmp_.left, cmp_.ops[0], cmp_.comparators[0]
            islen = isinstance(left, ast.Call) and isinstance(left.func, ast.Name) and left.func.id == "len"
            v = const(right)
            # normalise integer comparisons: > k-1  == >= k
            norm = None
            if islen and isinstance(v, int):
                t = type(op_).__name__
                if t == "Gt":
                    norm = ("GtE", v + 1)
                elif t in ("Eq", "GtE"):
                    norm = (t, v)
                else:
                    norm = (t, v)
            if norm == (opname, k):
                res.ok("CNTPRED", fi.short, desc, prog.loc(fi, c), ast.unparse(lam))
            elif norm is None:
                res.undecided("CNTPRED", fi.short, desc, prog.loc(fi, c), ast.unparse(lam))
            else:
                res.bad("CNTPRED", fi.short, desc, prog.loc(fi, c), f"predicate is `{ast.unparse(lam.body)}`")


def zero_filter(prog: Program, res: Result) -> None:
    for name in ("elemfun",):
        fi = prog.func(f"sptensor.sptensor.{name}")
        desc = "entries are dropped only when the new value is zero"
        found = False
        for c in ast.walk(fi.node):
            if isinstance(c, ast.Call) and (dotted(c.func) or "").split(".")[-1] in ("where", "nonzero", "flatnonzero") and c.args:
                a = c.args[0]
                found = True
                if isinstance(a, ast.Compare) and len(a.ops) == 1:
                    t = type(a.ops[0]).__name__
                    if t == "NotEq" and const(a.comparators[0]) == 0:
                        res.ok("ZERO", fi.short, desc, prog.loc(fi, c), ast.unparse(a))
                    else:
                        res.bad("ZERO", fi.short, desc, prog.loc(fi, c),
                                f"retention test is `{ast.unparse(a)}`: entries with other non-zero values (e.g. negative ones) are dropped")
                else:
                    res.ok("ZERO", fi.short, desc, prog.loc(fi, c), "np.nonzero of the values", nontrivial=False)
        if not found:
            res.undecided("ZERO", fi.short, desc, prog.loc(fi))


def fill_table(prog: Program, res: Result) -> None:
    fi = prog.func("sptensor.sptensor.__truediv__")
    # find  moresubs = tt_intersect_rows(A, B) ... morevals.fill(X)  triples in order
    classes = []
    cur = None
    for n in ast.walk(fi.node):
        pass
    stmts = [n for n in ast.walk(fi.node) if isinstance(n, (ast.Assign, ast.Expr))]
    stmts.sort(key=lambda n: n.lineno)
    for n in stmts:
        if isinstance(n, ast.Assign) and isinstance(n.value, ast.Call) and (dotted(n.value.func) or "") == "tt_intersect_rows" and len(n.value.args) == 2:
            cur = tuple(ast.unparse(a) for a in n.value.args)
        if isinstance(n, ast.Expr) and isinstance(n.value, ast.Call) and isinstance(n.value.func, ast.Attribute) and n.value.func.attr == "fill" and cur:
            classes.append((cur, n.value.args[0] if n.value.args else None, n))
            cur = None
        if isinstance(n, ast.Assign) and cur and isinstance(n.targets[0], ast.Name) and "vals" in n.targets[0].id and isinstance(n.value, ast.BinOp) \
                and "inf" in ast.unparse(n.value):
            classes.append((cur, n.value, n))
            cur = None

    def role(a: str) -> str:
        return "zero" if "Zero" in a else "nz"

    for (a, b), fill, node in classes:
        ra, rb = role(a), role(b)
        owner_a = "self" if "self" in a.lower() else "other"
        owner_b = "self" if "self" in b.lower() else "other"
        cls = {(("self", "nz"), ("other", "zero")): "x/0", (("other", "nz"), ("self", "zero")): "0/x",
               (("self", "zero"), ("other", "zero")): "0/0"}.get(((owner_a, ra), (owner_b, rb)))
        if cls is None:
            continue
        ft = ast.unparse(fill) if fill is not None else ""
        desc = f"sparse / sparse fills the {cls} positions like dense division"
        want = {"x/0": "inf", "0/x": "0", "0/0": "nan"}[cls]
        ok = (want == "inf" and "inf" in ft) or (want == "0" and const(fill) == 0) or (want == "nan" and "nan" in ft)
        if ok:
            res.ok("FILL", fi.short, desc, prog.loc(fi, node), f"fill {ft}")
        else:
            res.bad("FILL", fi.short, desc, prog.loc(fi, node), f"positions where {cls} are filled with {ft}; dense division gives {want}"
                    + (" with the sign of x" if want == "inf" else ""))


def check(prog: Program, res: Result, tier: str) -> None:
    res.explanation = __doc__.split("\n\n", 1)[1]
    res.assumptions = ["row-helper contracts are trusted (C17 does not prove them)", "operands well-formed; tensor[subs] returns one value per row",
                       "the dense operators (tenfun) are the meaning"]
    res.floors = {"IX-dom": 20, "IX-seq": 8, "IX-pair": 8, "SC": 6, "CONV": 4, "CNTPRED": 3, "ZERO": 1, "FILL": 3, "IX-cnt": 12, "IX-agg": 1}
    names = {f"sptensor.sptensor.{o}" for o in OPS}
    for n in names:
        prog.func(n)
    sel = lambda fi: fi.short in names
    I.ix_rules(prog, res, sel)
    conv_table(prog, res)
    cnt_pred(prog, res)
    # the count predicates of the logical operators are reducers of the aggregating constructor: they must run for every group
    from .C06 import agg_every_path
    agg_every_path(prog, res)
    zero_filter(prog, res)
    fill_table(prog, res)
    E.cnt_ctor(prog, res, sel)
