"""C12 — GCP losses, gradients and their tensor-level evaluation are mutually consistent.

Decided (structural necessary conditions, DESIGN §4 C12):
  GRAD-deriv   for every objective registered in fg_setup.setup, d/d model of the selected
               function handle equals the selected gradient handle (symbolic derivative, E7),
               with the same extra parameter bound on both
  REG-exh      every member of handles.Objectives has a branch in setup
  DOM-lb       log / negative or fractional power / division arguments that are affine in the
               model are positive at the registered lower bound
  FG-agree     in fg.evaluate and fg_est.estimate the per-entry term that is summed into the
               objective differentiates (w.r.t. the model value) to the per-entry term that is
               pushed through MTTKRP / the sparse accumulation, under every None/not-None
               configuration of the optional weights / correction range
  SPLIT        tensor.mttkrps (all N products in two sweeps around a split mode): the factor blocks are contiguous - the in-between slice of
               sweep 1 ends where the tail Khatri-Rao block begins, sweep 2 starts where the head block ends, in-between slices start at k + 1
               (integer terms; an off-by-one bound is a definite defect: a factor contracted twice or never)
Not decided: all-modes vs per-mode equality, sampled == exact with unit weights, MTTKRP numerics.
"""
from __future__ import annotations

import ast
import itertools
from typing import Dict, List, Optional, Tuple

import sympy as sp

from ..model import Program, dotted, AnalysisError
from ..report import Result
from .. import terms

DATA = sp.Symbol("data", real=True)
MODEL = sp.Symbol("model", real=True)


def _module_consts(prog: Program, module: str) -> Dict[str, sp.Expr]:
    env: Dict[str, sp.Expr] = {}
    vals: Dict[str, float] = {}
    for st in prog.modules[module].tree.body:
        if isinstance(st, ast.Assign) and len(st.targets) == 1 and isinstance(st.targets[0], ast.Name):
            v = st.value
            if isinstance(v, ast.Constant) and isinstance(v.value, (int, float)) and not isinstance(v.value, bool):
                nm = st.targets[0].id
                vals[nm] = v.value
                if v.value > 0:
                    env[nm] = sp.Symbol(nm, positive=True)
                elif v.value == 0:
                    env[nm] = sp.Integer(0)
                else:
                    env[nm] = sp.Symbol(nm, negative=True)
    return env, vals


def _handle_term(prog: Program, fname: str, bound: Dict[str, sp.Expr]):
    fi = prog.func(f"gcp.handles.{fname}")
    params = fi.params()
    if len(params) < 2:
        raise terms.Untranslatable(f"{fname} has fewer than two parameters")
    consts, _ = _module_consts(prog, "pyttb.gcp.handles")
    env = dict(consts)
    env[params[0]] = DATA
    env[params[1]] = MODEL
    for p in params[2:]:
        env[p] = bound.get(p, sp.Symbol(f"param_{p}", real=True))
    return terms.function_term(fi.node, env)


def _resolve_handle(prog: Program, e: ast.expr, mi_imports) -> Optional[Tuple[str, Dict[str, str]]]:
    """(handles function name, {kwarg: text of bound expression})"""
    if isinstance(e, ast.Call) and (dotted(e.func) or "").split(".")[-1] == "partial" and e.args:
        inner = _resolve_handle(prog, e.args[0], mi_imports)
        if inner is None or len(e.args) > 1:
            return None
        kw = dict(inner[1])
        for k in e.keywords:
            if k.arg is None:
                return None
            kw[k.arg] = ast.unparse(k.value)
        return inner[0], kw
    d = dotted(e)
    if d is None:
        return None
    parts = d.split(".")
    if len(parts) == 2 and mi_imports.get(parts[0]) in ("pyttb.gcp.handles",):
        nm = parts[1]
    elif len(parts) == 1 and mi_imports.get(parts[0], "").startswith("pyttb.gcp.handles."):
        nm = mi_imports[parts[0]].split(".")[-1]
    else:
        return None
    if prog.has_func(f"gcp.handles.{nm}"):
        return nm, {}
    return None


def _objective_of_test(test: ast.expr) -> List[str]:
    """Objectives members selected by an if-test like `objective == Objectives.X`."""
    out = []
    if isinstance(test, ast.Compare) and len(test.ops) == 1 and isinstance(test.ops[0], (ast.Eq, ast.Is, ast.In)):
        for side in [test.left] + list(test.comparators):
            for n in ast.walk(side):
                d = dotted(n) if isinstance(n, ast.Attribute) else None
                if d and d.split(".")[-2:-1] == ["Objectives"]:
                    out.append(d.split(".")[-1])
    return out


def _branches(fn: ast.FunctionDef):
    """Yield (objective members, body) along the top-level if/elif chain(s)."""
    for st in fn.body:
        cur = st
        while isinstance(cur, ast.If):
            objs = _objective_of_test(cur.test)
            if objs:
                yield objs, cur.body
            if len(cur.orelse) == 1 and isinstance(cur.orelse[0], ast.If):
                cur = cur.orelse[0]
            else:
                break


def _last_assign(body: List[ast.stmt], name: str) -> Optional[ast.expr]:
    val = None
    for st in body:
        for n in ast.walk(st):
            if isinstance(n, ast.Assign) and any(isinstance(t, ast.Name) and t.id == name for t in n.targets):
                val = n.value
            elif isinstance(n, ast.AnnAssign) and isinstance(n.target, ast.Name) and n.target.id == name and n.value:
                val = n.value
    return val


def _lb_value(e: Optional[ast.expr]):
    if e is None:
        return None
    if isinstance(e, ast.Constant) and isinstance(e.value, (int, float)):
        return sp.nsimplify(e.value)
    if isinstance(e, ast.UnaryOp) and isinstance(e.op, ast.USub):
        v = _lb_value(e.operand)
        return None if v is None else -v
    d = dotted(e)
    if d in ("np.inf", "numpy.inf", "math.inf"):
        return sp.oo
    return None


def _domain_obligations(term: sp.Expr):
    """Sub-terms that must be positive: log arguments, bases of negative/non-integer powers."""
    obl = []
    for sub in sp.preorder_traversal(term):
        if isinstance(sub, sp.log):
            obl.append(("log", sub.args[0]))
        elif isinstance(sub, sp.Pow):
            b, ex = sub.args
            if not b.has(MODEL):
                continue
            if ex.is_integer and ex.is_nonnegative:
                continue
            if ex.is_number and ex.is_integer and ex > 0:
                continue
            obl.append(("pow", b))
    return obl


def check(prog: Program, res: Result, tier: str) -> None:
    res.explanation = __doc__.split("\n\n", 1)[1]
    res.assumptions = [
        "sympy as term normaliser; a residual that evaluates non-zero at an exact point is not identically zero",
        "comparison masks are piecewise constant in the model value",
        "numpy element-wise functions have their textbook derivatives",
    ]
    res.floors = {"GRAD-deriv": 10, "REG-exh": 10, "DOM-lb": 8, "FG-agree": 6, "KR": 3, "EO-1": 4, "SPLIT": 1}
    setup = prog.func("gcp.fg_setup.setup")
    mi = prog.modules["pyttb.gcp.fg_setup"]
    consts, constvals = _module_consts(prog, "pyttb.gcp.handles")
    where_setup = prog.loc(setup)

    # names returned: (function, gradient, lower bound)
    ret_names = None
    for st in setup.node.body:
        if isinstance(st, ast.Return) and isinstance(st.value, ast.Tuple) and len(st.value.elts) == 3 \
                and all(isinstance(x, ast.Name) for x in st.value.elts):
            ret_names = [x.id for x in st.value.elts]
    if ret_names is None:
        raise AnalysisError("fg_setup.setup no longer returns a 3-tuple of names (function, gradient, lower bound)")

    members = []
    objcls = prog.cls("gcp.handles.Objectives")
    for st in objcls.node.body:
        if isinstance(st, ast.Assign) and isinstance(st.targets[0], ast.Name):
            members.append(st.targets[0].id)
    covered: Dict[str, List[ast.stmt]] = {}
    for objs, body in _branches(setup.node):
        for o in objs:
            covered.setdefault(o, body)
    for mname in members:
        if mname in covered:
            res.ok("REG-exh", "gcp.fg_setup.setup", f"Objectives.{mname} has a branch", where_setup)
        else:
            res.bad("REG-exh", "gcp.fg_setup.setup", f"Objectives.{mname} has a branch", where_setup,
                    "enum member is not dispatched; setup raises 'Unknown objective' for a built-in loss")

    for mname, body in covered.items():
        fn = "gcp.fg_setup.setup"
        desc = f"d/dmodel(function handle) == gradient handle for Objectives.{mname}"
        fe, ge, le = (_last_assign(body, n) for n in ret_names)
        where = f"{prog.rel(setup.path)}:{body[0].lineno}"
        if fe is None or ge is None:
            res.undecided("GRAD-deriv", fn, desc, where, "handle assignments not found in the branch")
            continue
        fh, gh = _resolve_handle(prog, fe, mi.imports), _resolve_handle(prog, ge, mi.imports)
        if fh is None or gh is None:
            res.undecided("GRAD-deriv", fn, desc, where, "handle expression not resolvable to pyttb.gcp.handles")
            continue
        # extra parameters: the same expression bound on both sides gets the same symbol
        bound_syms: Dict[str, sp.Symbol] = {}

        def bind(kw):
            out = {}
            for k, txt in kw.items():
                bound_syms.setdefault(txt, sp.Symbol("extra_" + str(len(bound_syms)), positive=True))
                out[k] = bound_syms[txt]
            return out

        try:
            fterm, _ = _handle_term(prog, fh[0], bind(fh[1]))
            gterm, _ = _handle_term(prog, gh[0], bind(gh[1]))
        except terms.Untranslatable as ex:
            res.undecided("GRAD-deriv", fn, desc, where, f"not a closed-form term: {ex}")
            res.unmodelled.append(str(ex))
            continue
        # unify masks between the two translations: same key -> same symbol is guaranteed only
        # within one Translator, so re-translate both with a shared translator
        try:
            fterm, gterm = _shared_terms(prog, fh, gh, bind)
        except terms.Untranslatable as ex:
            res.undecided("GRAD-deriv", fn, desc, where, f"not a closed-form term: {ex}")
            continue
        residual = sp.diff(fterm, MODEL) - gterm
        z, how = terms.is_zero(residual)
        pair = f"{fh[0]} / {gh[0]}"
        if z is True:
            res.ok("GRAD-deriv", fn, desc, where, f"{pair}: {how}")
        elif z is False:
            res.bad("GRAD-deriv", fn, desc, where, f"{pair}: gradient is not the derivative of the loss: {how}")
        else:
            res.undecided("GRAD-deriv", fn, desc, where, f"{pair}: {how}")

        # domain
        lb = _lb_value(le)
        ddesc = f"loss of Objectives.{mname} is defined at and above its lower bound"
        if lb is None:
            res.undecided("DOM-lb", fn, ddesc, where, "lower bound is not a literal")
            continue
        lbv = -sp.oo if lb == -sp.oo else lb
        verdict, why = "OK", []
        numeric = {consts[k]: sp.nsimplify(constvals[k]) for k in consts if isinstance(consts[k], sp.Symbol)}
        for kind, arg in _domain_obligations(fterm) + _domain_obligations(gterm):
            a = sp.expand(arg)
            co = a.coeff(MODEL, 1)
            rest = sp.simplify(a - co * MODEL)
            if a.has(MODEL) and not rest.has(MODEL) and co.is_number and co > 0 and not rest.has(DATA):
                if lbv == -sp.oo:
                    verdict = "BAD"
                    why.append(f"{kind} argument {arg} is unbounded below when the model is unbounded below")
                else:
                    val = (co * lbv + rest).subs(numeric)
                    free = val.free_symbols
                    if free:
                        if verdict == "OK":
                            verdict = "UNDEC"
                        why.append(f"{kind} argument {arg} at lower bound depends on {free}")
                    elif not (val > 0):
                        verdict = "BAD"
                        why.append(f"{kind} argument {arg} is {val} at the lower bound {lbv}")
                    else:
                        why.append(f"{kind}({arg}) > 0 at lb={lbv}")
            elif arg.has(MODEL):
                # exp(model)+c with c >= 0 is positive everywhere
                e2 = arg.subs(sp.exp(MODEL), sp.Symbol("EXPM", positive=True))
                if not e2.has(MODEL) and e2.is_positive:
                    why.append(f"{kind}({arg}) positive everywhere")
                else:
                    if verdict == "OK":
                        verdict = "UNDEC"
                    why.append(f"{kind} argument {arg} not affine in the model")
        if verdict == "OK":
            res.ok("DOM-lb", fn, ddesc, where, "; ".join(why) or "no log/power/division of the model",
                   nontrivial=bool(why))
        elif verdict == "BAD":
            res.bad("DOM-lb", fn, ddesc, where, "; ".join(why))
        else:
            res.undecided("DOM-lb", fn, ddesc, where, "; ".join(why))

    _fg_agree(prog, res)
    # the exact gradient goes through tensor.mttkrps: its helpers follow the F / reverse-Khatri-Rao convention
    from . import eo_common as E
    helpers = {"tensor.tensor.mttkrps", "tensor.mttv_left", "tensor.mttv_mid"}
    E.kr(prog, res, lambda fi: fi.short in helpers, exempt=set())
    E.eo1(prog, res, lambda fi: fi.short in helpers)
    _split_cover(prog, res)
    fg = prog.func("gcp.fg.evaluate")
    desc = "the gradient tensor is pushed through mttkrps with the model's own factor list"
    c = [x for x in ast.walk(fg.node) if isinstance(x, ast.Call) and isinstance(x.func, ast.Attribute) and x.func.attr == "mttkrps"]
    if c and c[0].args and ast.unparse(c[0].args[0]) == f"{fg.params()[0]}.factor_matrices":
        res.ok("FG-agree", fg.short, desc, prog.loc(fg, c[0]))
    elif c:
        res.bad("FG-agree", fg.short, desc, prog.loc(fg, c[0]), f"mttkrps receives {ast.unparse(c[0].args[0]) if c[0].args else 'nothing'}")
    else:
        res.undecided("FG-agree", fg.short, desc, prog.loc(fg))


def _split_cover(prog: Program, res: Result) -> None:
    """tensor.mttkrps computes all N products in two sweeps around a split mode s.  Sweep 1 starts from the data contracted with the TAIL block
    of factors (khatrirao(*U[L:])) and, for mode k, contracts the modes k+1 .. X-1 in between (mttv_mid(W, U[k+1:X])); sweep 2 starts from the
    HEAD block (khatrirao(*U[:H])) and runs over k = a, a+1, ...  For every mode k to receive ALL factors but its own the blocks must be
    contiguous: X == L (the in-between slice ends where the tail block begins) and a == H (the second sweep starts where the head block ends);
    the in-between slices start at k + 1.  Compared as integer terms; an off-by-one is a definite defect."""
    import sympy as sp
    fi = prog.func("tensor.tensor.mttkrps")
    desc = "the factor blocks of the two sweeps of mttkrps are contiguous (every mode receives all factors but its own)"

    def term(e):
        if e is None:
            return None
        e = fi.resolve(e)
        if isinstance(e, ast.Constant) and isinstance(e.value, int) and not isinstance(e.value, bool):
            return sp.Integer(e.value)
        if isinstance(e, ast.BinOp) and isinstance(e.op, (ast.Add, ast.Sub)):
            a, b = term(e.left), term(e.right)
            if a is None or b is None:
                return None
            return a + b if isinstance(e.op, ast.Add) else a - b
        return sp.Symbol(ast.unparse(e).replace(" ", ""), integer=True)

    def starred_slice(c):
        if len(c.args) == 1 and isinstance(c.args[0], ast.Starred) and isinstance(c.args[0].value, ast.Subscript) \
                and isinstance(c.args[0].value.slice, ast.Slice):
            return c.args[0].value.slice
        return None
    krs = sorted([c for c in ast.walk(fi.node) if isinstance(c, ast.Call) and (dotted(c.func) or "").split(".")[-1] == "khatrirao"],
                 key=lambda c: c.lineno)
    loops = [st for st in fi.node.body if isinstance(st, ast.For)]
    mids = []
    for lp in loops:
        m = [c for c in ast.walk(lp) if isinstance(c, ast.Call) and (dotted(c.func) or "").split(".")[-1] == "mttv_mid" and len(c.args) >= 2
             and isinstance(fi.resolve(c.args[1]), ast.Subscript) and isinstance(fi.resolve(c.args[1]).slice, ast.Slice)]
        if m and isinstance(lp.target, ast.Name) and isinstance(lp.iter, ast.Call) and dotted(lp.iter.func) == "range":
            mids.append((lp, fi.resolve(m[0].args[1]).slice))
    if len(krs) != 2 or len(mids) != 2 or any(starred_slice(c) is None for c in krs):
        res.undecided("SPLIT", fi.short, desc, prog.loc(fi), f"{len(krs)} Khatri-Rao blocks, {len(mids)} sweeps with an in-between slice (2 and 2 on the reviewed tree)")
        return
    tail, head = starred_slice(krs[0]), starred_slice(krs[1])
    (lp1, sl1), (lp2, sl2) = mids

    def absent(x):
        x = fi.resolve(x) if x is not None else None
        return x is None or (isinstance(x, ast.Constant) and x.value is None)
    facts = []
    k1, k2 = sp.Symbol(lp1.target.id, integer=True), sp.Symbol(lp2.target.id, integer=True)
    start2 = term(lp2.iter.args[0]) if len(lp2.iter.args) >= 2 else sp.Integer(0)
    facts.append(("the in-between slice of sweep 1 ends where the tail block begins", term(sl1.upper), term(tail.lower), lp1))
    facts.append(("the in-between slice of sweep 1 starts after the mode being computed", term(sl1.lower), k1 + 1, lp1))
    facts.append(("sweep 2 starts where the head block ends", start2, term(head.upper), lp2))
    facts.append(("the in-between slice of sweep 2 starts after the mode being computed", term(sl2.lower), k2 + 1, lp2))
    if not absent(tail.upper) or (not absent(head.lower) and term(head.lower) != 0) or not absent(sl2.upper):
        res.undecided("SPLIT", fi.short, desc, prog.loc(fi), "block bounds not of the reviewed form (tail U[L:], head U[:H], second in-between slice U[k+1:])")
        return
    bad, und = [], []
    for what, a, b, at in facts:
        if a is None or b is None:
            und.append(what)
            continue
        d = sp.simplify(a - b)
        if d == 0:
            continue
        (bad if d.is_number else und).append(f"{what}: {a} vs {b}")
    if bad:
        res.bad("SPLIT", fi.short, desc, prog.loc(fi, lp1), "; ".join(bad) + " — a factor is contracted twice or not at all for the modes of that sweep "
                "(visible only when the split mode is not the first one: non-cubical 3-way or >= 4-way data)")
    elif und:
        res.undecided("SPLIT", fi.short, desc, prog.loc(fi, lp1), "; ".join(und))
    else:
        res.ok("SPLIT", fi.short, desc, prog.loc(fi, lp1), f"tail block from {term(tail.lower)}, head block up to {term(head.upper)}")


def _shared_terms(prog, fh, gh, bind):
    consts, _ = _module_consts(prog, "pyttb.gcp.handles")
    tr = terms.Translator({})
    outs = []
    for nm, kw in (fh, gh):
        fi = prog.func(f"gcp.handles.{nm}")
        params = fi.params()
        env = dict(consts)
        env[params[0]] = DATA
        env[params[1]] = MODEL
        b = bind(kw)
        for p in params[2:]:
            env[p] = b.get(p, sp.Symbol(f"param_{p}", real=True))
        ret, locals_ = terms.inline_single_return(fi.node)
        tr.env = env
        for name, e in locals_.items():
            tr.env[name] = tr.tr(e)
        outs.append(tr.tr(ret))
    return outs[0], outs[1]


# ----------------------------------------------------------------------
# FG-agree: symbolic per-entry evaluation of evaluate / estimate

class _SymExec:
    """Straight-line symbolic evaluation of the per-entry value flowing into F and G.

    Arrays are abstracted to their generic entry; X[idx] -> X (entry at a selected
    position), np.sum(X) -> X tagged as the summed term.  `p is None` tests on parameters
    are decided by the configuration.
    """

    def __init__(self, fi, config: Dict[str, bool], fsym, gsym):
        self.fi = fi
        self.config = config  # param -> is None?
        self.env: Dict[str, sp.Expr] = {}
        self.summed: Dict[str, sp.Expr] = {}
        self.grad_sink: Optional[sp.Expr] = None
        self.F = sp.Function("f")
        self.G = sp.Function("g")
        self.fname, self.gname = fsym, gsym
        self.notes: List[str] = []

    def hook(self, n, tr):
        if isinstance(n, ast.Subscript):
            return tr.tr(n.value)  # generic selected entry
        if isinstance(n, ast.Attribute):
            d = dotted(n)
            if d and not d.startswith(("np.", "numpy.", "math.")):
                return sp.Symbol(d.replace(".", "_"), real=True)
        if isinstance(n, ast.Call):
            name = dotted(n.func) or ""
            if name == self.fname and len(n.args) == 2:
                return self.F(tr.tr(n.args[0]), tr.tr(n.args[1]))
            if name == self.gname and len(n.args) == 2:
                return self.G(tr.tr(n.args[0]), tr.tr(n.args[1]))
            base = name.split(".")[-1]
            if base in ("sum",) and n.args:
                return tr.tr(n.args[0])
            if base == "float" and n.args:
                return tr.tr(n.args[0])
        return None

    def cond(self, test: ast.expr) -> Optional[bool]:
        if isinstance(test, ast.Compare) and len(test.ops) == 1 and isinstance(test.left, ast.Name) \
                and isinstance(test.comparators[0], ast.Constant) and test.comparators[0].value is None:
            nm = test.left.id
            if nm in self.config:
                isnone = self.config[nm]
                return isnone if isinstance(test.ops[0], ast.Is) else (not isnone)
        if isinstance(test, ast.BoolOp) and isinstance(test.op, ast.And):
            vals = [self.cond(v) for v in test.values]
            if any(v is False for v in vals):
                return False
            if all(v is True for v in vals):
                return True
        return None

    def run(self, body, tr):
        for st in body:
            if isinstance(st, ast.Expr):
                continue
            if isinstance(st, ast.If):
                c = self.cond(st.test)
                if c is True:
                    if self.run(st.body, tr):
                        return True
                elif c is False:
                    if self.run(st.orelse, tr):
                        return True
                else:
                    # unrelated test (validation / lambda_check): must not bind tracked values
                    continue
                continue
            if isinstance(st, ast.Return):
                return True
            if isinstance(st, ast.Raise):
                return True
            if isinstance(st, (ast.Assign, ast.AnnAssign)):
                tgt = st.targets[0] if isinstance(st, ast.Assign) else st.target
                val = st.value
                if val is None:
                    continue
                if isinstance(tgt, ast.Name):
                    self._sinks(val, tr)
                    try:
                        tr.env[tgt.id] = tr.tr(val)
                    except terms.Untranslatable:
                        if _opaque_rhs(val):
                            tr.env[tgt.id] = sp.Symbol(tgt.id, real=True)      # a value the evaluator does not look into (x.full().data)
                        else:
                            tr.env.pop(tgt.id, None)
                    continue
                if isinstance(tgt, ast.Tuple):
                    for e in tgt.elts:
                        if isinstance(e, ast.Name):
                            tr.env[e.id] = sp.Symbol(e.id, real=True)
                    continue
                if isinstance(tgt, ast.Subscript):
                    self._sinks(val, tr)
                    # X[selector] = v on a tracked local: the generic entry is either left alone or replaced by v
                    if isinstance(tgt.value, ast.Name) and tgt.value.id in tr.env:
                        try:
                            v = tr.tr(val)
                            if not hasattr(self, "inds"):
                                self.inds = {}
                            key = ast.unparse(tgt.slice)
                            ind = self.inds.setdefault(key, sp.Symbol(f"IND{len(self.inds) + 1}", nonnegative=True))
                            tr.env[tgt.value.id] = tr.env[tgt.value.id] * (1 - ind) + v * ind
                        except terms.Untranslatable:
                            tr.env.pop(tgt.value.id, None)
                    continue
            if isinstance(st, ast.AugAssign):
                base = st.target
                while isinstance(base, ast.Subscript):
                    base = base.value
                if isinstance(base, ast.Name) and base.id in tr.env:
                    try:
                        v = tr.tr(st.value)
                        cur = tr.env[base.id]
                        op = st.op
                        if isinstance(op, ast.Sub):
                            tr.env[base.id] = cur - v
                        elif isinstance(op, ast.Add):
                            tr.env[base.id] = cur + v
                        elif isinstance(op, ast.Mult):
                            tr.env[base.id] = cur * v
                        elif isinstance(op, ast.Div):
                            tr.env[base.id] = cur / v
                        else:
                            tr.env.pop(base.id, None)
                    except terms.Untranslatable:
                        tr.env.pop(base.id, None)
                continue
            if isinstance(st, ast.For):
                self.run(st.body, tr)
                continue
        return False

    def _sinks(self, val, tr):
        # the gradient sink: data handed to ttb.tensor(...) or a scipy sparse constructor
        for c in ast.walk(val):
            if isinstance(c, ast.Call):
                nm = (dotted(c.func) or "")
                base = nm.split(".")[-1]
                if base in ("tensor",) and c.args:
                    try:
                        self.grad_sink = tr.tr(c.args[0])
                    except terms.Untranslatable:
                        pass
                if base in ("csr_array", "csr_matrix", "coo_matrix", "coo_array", "csc_array", "csc_matrix") and c.args \
                        and isinstance(c.args[0], ast.Tuple) and c.args[0].elts:
                    try:
                        self.grad_sink = tr.tr(c.args[0].elts[0])
                    except terms.Untranslatable:
                        pass


def _fg_agree(prog: Program, res: Result) -> None:
    for short, optional in (("gcp.fg.evaluate", ["weights"]), ("gcp.fg_est.estimate", ["crng"])):
        fi = prog.func(short)
        params = fi.params()
        if "function_handle" not in params or "gradient_handle" not in params:
            raise AnalysisError(f"{short}: handle parameters renamed")
        # optional params = those tested against None in the body (other than the handles)
        tested = set()
        for n in ast.walk(fi.node):
            if isinstance(n, ast.Compare) and isinstance(n.left, ast.Name) and n.left.id in params \
                    and isinstance(n.comparators[0], ast.Constant) and n.comparators[0].value is None:
                tested.add(n.left.id)
        opts = sorted(tested - {"function_handle", "gradient_handle"})
        ret_pair = None
        for n in ast.walk(fi.node):
            if isinstance(n, ast.Return) and isinstance(n.value, ast.Tuple) and len(n.value.elts) == 2 \
                    and all(isinstance(e, ast.Name) for e in n.value.elts):
                ret_pair = [e.id for e in n.value.elts]
        if ret_pair is None:
            raise AnalysisError(f"{short}: no `return F, G`")
        for combo in itertools.product([False, True], repeat=len(opts)):
            config = {"function_handle": False, "gradient_handle": False}
            config.update(dict(zip(opts, combo)))
            desc = "d/dmodel(per-entry objective term) == per-entry gradient term; " + \
                   ", ".join(f"{o} {'is None' if v else 'given'}" for o, v in zip(opts, combo))
            ex = _SymExec(fi, config, "function_handle", "gradient_handle")
            env = {}
            for p in params:
                if p in config and p not in opts:
                    continue
                if config.get(p):
                    continue
                env[p] = sp.Symbol(p, real=True)
            # the model value symbol: whatever is passed as 2nd arg to the handles
            tr = terms.Translator(env, hooks=ex.hook)
            # locals that name the model values: bind unknown locals lazily as symbols
            _bind_unknown_locals(fi, tr)
            ex.run(fi.node.body, tr)
            Fv = tr.env.get(ret_pair[0])
            Gsink = ex.grad_sink
            where = prog.loc(fi)
            if Fv is None or Gsink is None:
                res.undecided("FG-agree", short, desc, where, "objective term or gradient sink not found")
                continue
            # model symbol = second argument of f(...)
            fcalls = [a for a in Fv.atoms(sp.Function) if a.func == ex.F]
            if not fcalls:
                res.undecided("FG-agree", short, desc, where, "function handle not applied in the objective term")
                continue
            margs = {c.args[1] for c in fcalls}
            if len(margs) != 1 or not list(margs)[0].is_Symbol:
                res.undecided("FG-agree", short, desc, where, f"model argument not a single symbol: {margs}")
                continue
            msym = list(margs)[0]
            dF = sp.diff(Fv, msym)
            # g(d, m) := d f(d, m)/dm
            d_ = sp.Dummy("d")
            m_ = sp.Dummy("m")
            Gs = Gsink.replace(ex.G, lambda a, b: sp.Derivative(ex.F(a, m_), m_).subs(m_, b) if not b.is_Symbol else sp.diff(ex.F(a, b), b))
            z = sp.simplify(dF.doit() - Gs.doit())
            # the objective is the WEIGHTED sum: with weights given, the per-entry term is weights * f(data, model)
            if "weights" in opts and config.get("weights") is False and "weights" in tr.env and z == 0:
                wsym = tr.env["weights"]
                want = wsym * list(fcalls)[0]
                dz = sp.simplify(Fv - want)
                wdesc = "with weights given, the per-entry objective term is weights * loss (a weighted sum, not a mask)"
                if dz == 0:
                    res.ok("FG-agree", short, wdesc, where, f"{Fv}")
                else:
                    res.bad("FG-agree", short, wdesc, where,
                            f"the term is {Fv}, not {want}: weights other than 0 and 1 do not weight the loss (objective and gradient agree with each "
                            "other but both belong to a different objective)")
            if z == 0:
                res.ok("FG-agree", short, desc, where, f"objective term {Fv}; gradient term {Gsink}")
            else:
                res.bad("FG-agree", short, desc, where,
                        f"objective term {Fv} differentiates to {dF}, but the gradient term is {Gsink} (residual {z})")


def _bind_unknown_locals(fi, tr) -> None:
    """Locals defined by calls the symbolic evaluator does not model become fresh symbols."""
    for n in ast.walk(fi.node):
        if isinstance(n, ast.Assign):
            for t in n.targets:
                elts = t.elts if isinstance(t, ast.Tuple) else [t]
                for e in elts:
                    if isinstance(e, ast.Name) and e.id not in tr.env:
                        # only bind names that are not recomputed from tracked values
                        if isinstance(t, ast.Tuple) or _opaque_rhs(n.value):
                            tr.env[e.id] = sp.Symbol(e.id, real=True)


def _opaque_rhs(v: ast.expr) -> bool:
    if isinstance(v, ast.Attribute):
        return True
    if isinstance(v, ast.Subscript):
        return _opaque_rhs(v.value)
    if isinstance(v, ast.Call):
        nm = dotted(v.func) or ""
        if nm.split(".")[-1] in ("full", "estimate_helper", "normalize"):
            return True
    return False
