"""C04 — entry reads and writes behave like an F-ordered mutable array over any history.

Decided (necessary structural conditions on the read / write paths of tensor.py and sptensor.py):
  IX-dom / IX-seq / IX-kind   in sptensor._set_subscripts / _set_subtensor / __getitem__ / extract / subdims and the
          renumbering helpers: the change / delete / insert groups are built from aligned masks, existing entries are
          addressed by their position in self.subs (not in the new subscript list), looked-up values are aligned
  EO-1    every linear <-> subscript conversion on the read / write paths numbers entries first-index-fastest
          (tt_ind2sub / tt_sub2ind with their F default, no order override; F reshapes)
  DISPATCH every indexing variant (linear, subscripts, subtensor) is handled by __getitem__ and __setitem__ of both
          classes, and an unrecognised key is rejected rather than ignored
  SORTER  positions returned by np.searchsorted(.., sorter=s) are mapped back through s before they index the unsorted array
          (no such call on today's tree; positive fixture checked on every run)
  SLICE   the positions a slice key selects are obtained by normalising it against the mode's extent (range(n)[s],
          np.arange(n)[s], s.indices(n)): raw .start / .stop / .step fields (or `field or default`) never flow into position
          arithmetic - range / arange bounds, comparisons or arithmetic with subscripts - where negative and None bounds and the
          step would be lost; using .stop only to size growth (None test, max with the extent) is fine
  GROW    growth pads with zeros: dense growth allocates np.zeros of the enlarged shape and copies the old block;
          every completing path of the sparse writes passes through the extent update (must-pass-through)
Cross-reference: that keys and right-hand sides are not modified is decided by C05 (AL-mut / AL-cap) and that a
rejected assignment leaves the receiver unchanged by C19 (ES-order).
Not decided: the history semantics itself (last writer wins, dense/sparse agreement over sequences of operations) —
an unbounded relation between states that no static argument here reaches.
"""
from __future__ import annotations

import ast

from ..model import Program, dotted, AnalysisError, const
from ..report import Result
from . import ix_common as I
from . import eo_common as E

SPARSE = ["sptensor.sptensor.__getitem__", "sptensor.sptensor.__setitem__", "sptensor.sptensor._set_subscripts",
          "sptensor.sptensor._set_subtensor", "sptensor.sptensor.extract", "sptensor.sptensor.subdims"]
DENSE = ["tensor.tensor.__getitem__", "tensor.tensor.__setitem__", "tensor.tensor._set_linear", "tensor.tensor._set_subscripts",
         "tensor.tensor._set_subtensor"]
UTILS = ["pyttb_utils.tt_renumber", "pyttb_utils.tt_renumberdim", "pyttb_utils.tt_irenumber", "pyttb_utils.tt_ind2sub", "pyttb_utils.tt_sub2ind",
         "pyttb_utils.get_index_variant"]


def dispatch(prog: Program, res: Result) -> None:
    members = [st.targets[0].id for st in prog.cls("pyttb_utils.IndexVariant").node.body
               if isinstance(st, ast.Assign) and isinstance(st.targets[0], ast.Name)]
    handled_required = [m for m in members if m != "UNKNOWN"]
    for short in ("tensor.tensor.__setitem__", "sptensor.sptensor.__setitem__", "tensor.tensor.__getitem__", "sptensor.sptensor.__getitem__"):
        fi = prog.func(short)
        seen = set()
        for n in ast.walk(fi.node):
            if isinstance(n, ast.Compare):
                for side in [n.left] + list(n.comparators):
                    d = dotted(side) or ""
                    if d.startswith("IndexVariant."):
                        seen.add(d.split(".")[1])
        uses_variant = any(isinstance(c, ast.Call) and (dotted(c.func) or "") == "get_index_variant" for c in ast.walk(fi.node))
        desc = "every indexing variant is dispatched"
        if not uses_variant:
            res.undecided("DISPATCH", short, desc, prog.loc(fi), "does not classify the key with get_index_variant")
            continue
        missing = [m for m in handled_required if m not in seen]
        if missing:
            res.bad("DISPATCH", short, desc, prog.loc(fi), f"variants {missing} are classified by get_index_variant but never handled here")
        else:
            res.ok("DISPATCH", short, desc, prog.loc(fi), f"handles {sorted(seen)}")
        # fall-through rejects
        desc = "an unrecognised key is rejected"
        last = fi.node.body[-1]
        rejects = isinstance(last, ast.Raise) or (isinstance(last, ast.Assert) and isinstance(last.test, ast.Constant) and last.test.value is False)
        if not rejects:
            # the rejection may sit in front of the last handled case (`if <not the remaining variant>: raise` ... `return <last case>`):
            # then no path falls off the end, and some raise is not nested under a recognised variant
            from ..guards import _always_leaves

            def is_reject(st):
                return isinstance(st, ast.Raise) or (isinstance(st, ast.Assert) and isinstance(st.test, ast.Constant) and st.test.value is False)
            top_level_reject = any(isinstance(st, ast.If) and not st.orelse and st.body and is_reject(st.body[-1]) for st in fi.node.body)
            rejects = _always_leaves(fi.node.body) and top_level_reject
        if rejects:
            res.ok("DISPATCH", short, desc, prog.loc(fi, last), nontrivial=False)
        else:
            res.bad("DISPATCH", short, desc, prog.loc(fi, last), "the function falls off its end (returns None) for a key it does not recognise")


def grow(prog: Program, res: Result) -> None:
    for short in ("tensor.tensor._set_subtensor", "tensor.tensor._set_subscripts"):
        fi = prog.func(short)
        desc = "growth allocates zeros of the enlarged shape and copies the existing entries into it"
        z = [c for c in ast.walk(fi.node) if isinstance(c, ast.Call) and (dotted(c.func) or "").split(".")[-1] in ("zeros",)]
        other = [c for c in ast.walk(fi.node) if isinstance(c, ast.Call) and (dotted(c.func) or "").split(".")[-1] in ("empty", "ones", "full")]
        copies = [n for n in ast.walk(fi.node) if isinstance(n, ast.Assign) and isinstance(n.targets[0], ast.Subscript)
                  and isinstance(n.value, ast.Attribute) and n.value.attr == "data"]
        if z and copies and not other:
            res.ok("GROW", short, desc, prog.loc(fi, z[0]))
        elif other:
            res.bad("GROW", short, desc, prog.loc(fi, other[0]), f"the enlarged array comes from {ast.unparse(other[0])[:60]}: new positions are not zero")
        elif z and not copies:
            res.bad("GROW", short, desc, prog.loc(fi, z[0]), "the old entries are not copied into the enlarged array")
        else:
            res.undecided("GROW", short, desc, prog.loc(fi))


def grow_sparse(prog: Program, res: Result) -> None:
    """The extent of a sparse tensor is explicit state: every write path that can complete recomputes it
    (must-pass-through `self.shape = ...`), whatever values are written - a zero written beyond the extent grows it too."""
    from ..paths import enumerate_paths
    for short in ("sptensor.sptensor._set_subscripts", "sptensor.sptensor._set_subtensor"):
        fi = prog.func(short)
        desc = "every completing path of the sparse write recomputes the extent (writing beyond it grows the tensor, also for zeros)"
        tot, bad, und = 0, None, None
        for items, end in enumerate_paths(fi.node.body, limit=400000):
            if end == "raise":
                continue
            tot += 1
            if any(k == "stmt" and isinstance(st, ast.Assign) and ast.unparse(st.targets[0]) == "self.shape" for k, st in items):
                continue
            tests = [ast.unparse(st.test) for k, st in items if k in ("if-true", "if-false")]
            last = [st for k, st in items if k in ("stmt", "return")]
            node = last[-1] if last else fi.node
            if any("self.shape" in t or "newshape" in t or "newsz" in t or "newsiz" in t for t in tests):
                und = und or node     # skipped under a test about the extent itself: idiom not modelled
            else:
                bad = bad or (node, tests[-1] if tests else "")
        if bad:
            res.bad("GROW", short, desc, prog.loc(fi, bad[0]),
                    f"a path ends at `{ast.unparse(bad[0])[:50]}` without updating self.shape, and no test on that path looks at the extent "
                    f"(last decision: `{bad[1][:70]}`): a write beyond the current extent on this path leaves the shape unchanged")
        elif und is not None:
            res.undecided("GROW", short, desc, prog.loc(fi, und), "extent update skipped under a test that mentions the extent")
        elif tot:
            res.ok("GROW", short, desc, prog.loc(fi), f"{tot} completing paths, all pass through the extent update")
        else:
            res.undecided("GROW", short, desc, prog.loc(fi), "no completing path")


def slice_norm(prog: Program, res: Result, tree=None) -> int:
    n_sites = 0
    if tree is None:
        items = [(fi.short, fi.node, fi) for q, fi in sorted(prog.functions.items())
                 if not fi.parent and fi.module in ("pyttb.pyttb_utils", "pyttb.sptensor", "pyttb.tensor")]
    else:
        items = [("fixture", x, None) for x in ast.walk(tree) if isinstance(x, ast.FunctionDef)]
    for short, fn, fi in items:
        # slice.indices(n) normalises start, stop AND step: a site that keeps the first two and drops the third selects the whole interval
        for a in ast.walk(fn):
            call = a.value if isinstance(a, ast.Assign) else None
            if not (isinstance(call, ast.Call) and isinstance(call.func, ast.Attribute) and call.func.attr == "indices" and len(call.args) == 1):
                continue
            t = a.targets[0] if len(a.targets) == 1 else None
            step_name = None
            kept = None
            if isinstance(t, (ast.Tuple, ast.List)) and len(t.elts) == 3 and all(isinstance(e, ast.Name) for e in t.elts):
                step_name, kept = t.elts[2].id, True
                used = step_name != "_" and any(isinstance(x, ast.Name) and x.id == step_name and isinstance(x.ctx, ast.Load) for x in ast.walk(fn))
            elif isinstance(t, ast.Name):
                used = any(isinstance(x, ast.Subscript) and isinstance(x.value, ast.Name) and x.value.id == t.id and const(x.slice) == 2 for x in ast.walk(fn)) \
                    or any(isinstance(x, ast.Starred) and isinstance(x.value, ast.Name) and x.value.id == t.id for x in ast.walk(fn))
                kept = True
            if kept:
                n_sites += 1
                desc_s = "a slice key normalised with slice.indices keeps its step"
                where_s = prog.loc(fi, a) if fi is not None else "fixture"
                if used:
                    res.ok("SLICE", short, desc_s, where_s)
                else:
                    res.bad("SLICE", short, desc_s, where_s,
                            f"`{ast.unparse(a)[:70]}` drops the step: a strided key (s[a:b:2]) then selects every position of [a, b), so the read / "
                            "write touches entries the same key on a dense tensor leaves alone")
        raw = [a for a in ast.walk(fn) if isinstance(a, ast.Attribute) and a.attr in ("start", "stop", "step") and isinstance(a.ctx, ast.Load)
               and not (isinstance(a.value, ast.Name) and a.value.id in ("self", "np"))]
        if not raw:
            continue
        parents = {}
        for x in ast.walk(fn):
            for c in ast.iter_child_nodes(x):
                parents[id(c)] = x
        # names defined from a raw field (directly or through `field or default` / arithmetic)
        carriers: Dict[str, ast.AST] = {}
        changed = True
        while changed:
            changed = False
            for a in ast.walk(fn):
                if isinstance(a, ast.Assign) and len(a.targets) == 1 and isinstance(a.targets[0], ast.Name) and a.targets[0].id not in carriers:
                    v = a.value
                    if isinstance(v, ast.Call):
                        continue         # max(shape, key.stop), len(...), ... produce extents, not raw bounds
                    uses = [x for x in ast.walk(v) if (x in raw) or (isinstance(x, ast.Name) and x.id in carriers)]
                    if uses:
                        carriers[a.targets[0].id] = a
                        changed = True

        def position_use(node) -> Optional[ast.AST]:
            """the enclosing construct when `node` (a raw field or a carrier name) is used as a position"""
            cur = node
            while id(cur) in parents:
                par = parents[id(cur)]
                if isinstance(par, ast.Call):
                    nm = (dotted(par.func) or "").split(".")[-1]
                    if nm in ("arange", "range", "linspace"):
                        return par
                    if nm in ("max", "min", "append", "len", "isinstance", "int"):
                        return None
                if isinstance(par, ast.Compare):
                    others = [par.left] + list(par.comparators)
                    if any(isinstance(o, ast.Constant) and o.value is None for o in others):
                        return None
                    if any(isinstance(x, ast.Subscript) or (isinstance(x, ast.Name) and "sub" in x.id.lower())
                           for o in others if o is not cur for x in ast.walk(o)):
                        return par
                    return None
                if isinstance(par, ast.BinOp) and isinstance(par.op, ast.Mod):
                    return par
                if isinstance(par, ast.stmt):
                    return None
                cur = par
            return None
        bad = None
        for a in raw:
            u = position_use(a)
            if u is not None:
                bad = bad or (a, u)
        for nm, d in carriers.items():
            for x in ast.walk(fn):
                if isinstance(x, ast.Name) and x.id == nm and isinstance(x.ctx, ast.Load):
                    u = position_use(x)
                    if u is not None:
                        bad = bad or (d, u)
        n_sites += 1
        desc = "slice keys are normalised against the extent before they select positions"
        where = prog.loc(fi, raw[0]) if fi is not None else "fixture"
        if bad:
            src, use = bad
            res.bad("SLICE", short, desc, prog.loc(fi, use) if fi is not None else "fixture",
                    f"a raw slice field (`{ast.unparse(src)[:50]}`) reaches `{ast.unparse(use)[:60]}`: negative bounds, an explicit 0 and the step are not "
                    "interpreted the way range(n)[s] / numpy do, so the key addresses other positions than the same key on a dense tensor")
        else:
            res.ok("SLICE", short, desc, where, "raw fields only size growth")
    return n_sites


SLICE_FIXTURE = """
def f(region, subs, shape):
    start = region.start or 0
    stop = region.stop or shape
    return (subs >= start) & (subs < stop)
def g(key, shape):
    if key.stop is None:
        return shape
    return max(shape, key.stop)
def h(region, subs, n):
    start, stop, _ = region.indices(n)
    return (subs >= start) & (subs < stop)
def k(region, n):
    start, stop, step = region.indices(n)
    return range(start, stop, step)
"""


def sorter_rule(prog: Program, res: Result, functions=None, tree=None) -> int:
    """np.searchsorted(a, v, sorter=s) answers positions in the SORTED order of a; used as positions in a itself they
    must be mapped back through s (s[np.searchsorted(...)])."""
    n = 0
    items = [(fi.short, fi.node, fi) for q, fi in sorted(prog.functions.items()) if not fi.parent and fi.module in ("pyttb.pyttb_utils", "pyttb.sptensor", "pyttb.tensor")] \
        if tree is None else [("fixture", tree, None)]
    for short, node, fi in items:
        parents = {}
        for x in ast.walk(node):
            for c in ast.iter_child_nodes(x):
                parents[id(c)] = x
        for c in ast.walk(node):
            if isinstance(c, ast.Call) and (dotted(c.func) or "").split(".")[-1] == "searchsorted":
                srt = None
                for k in c.keywords:
                    if k.arg == "sorter":
                        srt = k.value
                if srt is None:
                    continue
                n += 1
                par = parents.get(id(c))
                mapped = isinstance(par, ast.Subscript) and par.slice is c and ast.unparse(par.value) == ast.unparse(srt)
                # assigned to a name that is later used as index of the sorter
                if not mapped and isinstance(par, ast.Assign) and isinstance(par.targets[0], ast.Name):
                    nm = par.targets[0].id
                    mapped = any(isinstance(x, ast.Subscript) and ast.unparse(x.value) == ast.unparse(srt) and isinstance(x.slice, ast.Name) and x.slice.id == nm
                                 for x in ast.walk(node))
                desc = f"positions from np.searchsorted(.., sorter=s) are mapped back through s: {ast.unparse(c)[:70]}"
                where = prog.loc(fi, c) if fi is not None else "fixture"
                if mapped:
                    res.ok("SORTER", short, desc, where)
                else:
                    res.bad("SORTER", short, desc, where,
                            "the result indexes the sorted order of the searched array, not the array itself: wrong whenever that array is not ascending")
    return n


def check(prog: Program, res: Result, tier: str) -> None:
    res.explanation = __doc__.split("\n\n", 1)[1]
    res.assumptions = ["row-helper contracts; operands well-formed", "tt_ind2sub / tt_sub2ind numbering is decided by C17"]
    res.floors = {"IX-dom": 12, "IX-kind": 3, "EO-1": 5, "DISPATCH": 4, "GROW": 4, "SLICE": 2}
    for f in SPARSE + DENSE + UTILS:
        prog.func(f)
    I.ix_rules(prog, res, lambda fi: fi.short in SPARSE + UTILS, ("IX-dom", "IX-seq", "IX-kind", "IX-pair"))
    E.eo1(prog, res, lambda fi: fi.short in SPARSE + DENSE + UTILS)
    dispatch(prog, res)
    grow(prog, res)
    grow_sparse(prog, res)
    slice_norm(prog, res)
    from ..report import Result as _R2
    probe = _R2("C04")
    slice_norm(prog, probe, tree=ast.parse(SLICE_FIXTURE))
    if sorted(i.verdict for i in probe.instances) != ["OK", "OK", "VIOLATION", "VIOLATION"]:
        raise AnalysisError(f"SLICE fixtures not recognised: {[(i.verdict, i.detail[:40]) for i in probe.instances]}")
    sorter_rule(prog, res)
    # expected count on the tree is zero: keep a positive fixture so that the rule cannot pass vacuously for ever
    from ..report import Result as _R
    fx = ast.parse("def f(rng, idx):\n    return np.searchsorted(rng, idx, sorter=np.argsort(rng))\n")
    tmp = _R("C04")
    sorter_rule(prog, tmp, tree=fx)
    if not any(i.verdict == "VIOLATION" for i in tmp.instances):
        raise AnalysisError("SORTER rule did not fire on its positive fixture")
