"""Shared instantiation of the E4 engines (pv/ix.py, pv/rows.py) used by C03 C04 C06 C20 C02."""
from __future__ import annotations

import ast
from typing import Callable, Dict, Iterable, List, Optional

from ..model import Program, FuncInfo, dotted, kwarg, const
from ..report import Result
from .. import ix

_cache: Dict[str, ix.IxWalk] = {}
_cache_prog = [None]


def walk(prog: Program, fi: FuncInfo) -> ix.IxWalk:
    if _cache_prog[0] is not prog:
        _cache.clear()
        _cache_prog[0] = prog
    if fi.qualname not in _cache:
        _cache[fi.qualname] = ix.IxWalk(prog, fi)
    return _cache[fi.qualname]


def ix_rules(prog: Program, res: Result, select: Callable[[FuncInfo], bool], rules: Iterable[str] = ("IX-dom", "IX-seq", "IX-pair", "IX-kind", "SC")) -> int:
    n = 0
    rules = set(rules)
    for q, fi in sorted(prog.functions.items()):
        if fi.parent or not select(fi):
            continue
        w = walk(prog, fi)
        for f in w.findings:
            if f.rule not in rules:
                continue
            n += 1
            where = prog.loc(fi, f.node)
            if f.ok:
                res.ok(f.rule, fi.short, f.desc, where, f.detail)
            else:
                res.bad(f.rule, fi.short, f.desc, where, f.detail)
    return n
