"""C05 — operations never modify their operands and never alias them.

Decided (E2 alias / ownership / mutation analysis; may-analysis over all paths, summaries to fixpoint):
  AL-mut   a public operation that is not documented as in-place writes no storage reachable from an
           operand (tensor objects, ndarray / list / array-like arguments); a documented in-place
           operation writes only its receiver
  AL-ret   a public class operation that returns a new ndarray / list / pyttb / sparse object returns
           nothing that shares array storage with an operand (handing back the operand object itself,
           or sharing under the function's own copy=False flag, is not aliasing)
  AL-cap   an operation that writes into an operand (the in-place family: __setitem__, update, ...) stores
           no reference to ANOTHER operand's array storage there (values are copied in)
  AL-ctor  with copying enabled (the default) every attribute a constructor stores is fresh
A finding is reported at the function in which the write / the view chain occurs: findings that exist
only because an already-reported public callee misbehaves are attributed to that callee (the caller is
re-analysed with the callee assumed repaired).
Not decided: bit-for-bit equality as such (only absence of writes); aliasing through values whose kind or
producing API is not modelled (reported as UNDECIDED with the unmodelled API listed).
"""
from __future__ import annotations

import ast
from typing import Dict, List, Optional, Set, Tuple

from ..model import Program, FuncInfo, TENSOR_CLASSES, AnalysisError
from ..report import Result
from .. import al

ALGORITHMS = {"cp_als", "cp_apr", "gcp_opt", "hosvd", "tucker_als"}
INPLACE_WORDS = ("in place", "in-place", "inplace")


def inplace_table(prog: Program, public: Dict[str, FuncInfo]) -> Dict[str, str]:
    out: Dict[str, str] = {}
    for q, fi in public.items():
        doc = fi.docstring().lower()
        if any(w in doc for w in INPLACE_WORDS):
            out[q] = "docstring says in place"
        elif fi.name in ("__setitem__", "__init__", "__delitem__", "__setattr__") or q.endswith(".setter"):
            out[q] = f"{fi.name} is a receiver-mutating protocol method"
    return out


def _fmt(roots) -> str:
    return ", ".join(sorted({p for p, _ in roots}))


def _param_kind(fi: FuncInfo, p: str) -> str:
    if fi.cls and not fi.is_staticmethod and fi.params() and p == fi.params()[0]:
        return "self"
    ann = fi.annotation(p)
    return al.kind_from_annotation(ast.unparse(ann))[0] if ann is not None else "unk"


def _protected(fi: FuncInfo, path: str) -> bool:
    p = path.split(".")[0]
    k = _param_kind(fi, p)
    if k == "self":
        return fi.cls in TENSOR_CLASSES and not fi.is_classmethod
    if k == "imm":
        return False
    return True


def _optin(fi: FuncInfo, guards) -> bool:
    """Sharing that happens only when the caller passed copy=False to THIS function is documented opt-in."""
    return any(p == "copy" and v is False for p, v in guards) and "copy" in fi.params()


def mut_findings(fi: FuncInfo, s: al.Summary, inplace: bool):
    bad, und = set(), set()
    for (path, gs) in s.mut:
        if not _protected(fi, path):
            continue
        if inplace and path.split(".")[0] == fi.params()[0]:
            continue
        bad.add((path, gs))
    for (path, gs) in s.umut:
        if not _protected(fi, path):
            continue
        if inplace and path.split(".")[0] == fi.params()[0]:
            continue
        und.add((path, gs))
    return bad, und - bad


def cap_findings(fi: FuncInfo, s: al.Summary):
    bad = set()
    for (path, gs) in s.cap:
        src, _, hold = path.partition("=>")
        if _optin(fi, gs) or not _protected(fi, src) or not _protected(fi, hold):
            continue
        bad.add((path, gs))
    return bad


def ret_findings(fi: FuncInfo, s: al.Summary):
    r = s.ret
    if r is None or r.kind == "imm":
        return set(), set()
    ident = {p for p, _ in r.sh}
    bad, und = set(), set()
    for (path, gs) in r.dp:
        if path in ident:
            continue
        if _optin(fi, gs) or not _protected(fi, path):
            continue
        bad.add((path, gs))
    for (path, gs) in r.ud:
        if path in ident or _optin(fi, gs) or not _protected(fi, path):
            continue
        und.add((path, gs))
    return bad, und - bad


def check(prog: Program, res: Result, tier: str) -> None:
    res.explanation = __doc__.split("\n\n", 1)[1]
    res.assumptions = [
        "numpy/scipy view-vs-copy contracts as tabulated in pv/npapi.py",
        "Python augmented assignment semantics (in place for ndarray/list, rebinding for immutables and for classes without __i*__)",
        "parameter kinds from annotations / isinstance narrowing; un-annotated operator operands are resolved by narrowing",
        "no reflection / monkey patching",
    ]
    eng = al.Engine(prog)
    eng.solve()
    public = prog.public_surface()
    inplace = inplace_table(prog, public)
    res.analysed.update({"public_operations": len(public), "documented_inplace": len(inplace), "fixpoint_passes": eng.passes})
    n_doc = sum(1 for v in inplace.values() if v.startswith("docstring"))
    if n_doc < 5:
        raise AnalysisError(f"only {n_doc} operations documented as in-place were found (5 confirmed by hand)")
    res.floors = {"AL-mut": 250, "AL-ret": 150, "AL-ctor": 7, "AL-cap": 250}

    def accountable_ret(fi: FuncInfo) -> bool:
        return fi.cls in TENSOR_CLASSES and fi.name != "__init__" and not fi.qualname.endswith(".setter")

    # phase 1: who violates on the plain fixpoint
    violators: Set[str] = set()
    for q, fi in public.items():
        s = eng.sums.get(q)
        if s is None:
            continue
        b, _ = mut_findings(fi, s, q in inplace)
        if b:
            violators.add(q)
        if accountable_ret(fi):
            b, _ = ret_findings(fi, s)
            if b:
                violators.add(q)
        if cap_findings(fi, s):
            violators.add(q)

    # phase 2: attribute each finding to the function where it originates
    attributed = eng.solve_attributed(violators) if violators else eng.sums
    for q, fi in sorted(public.items()):
        s = eng.sums.get(q)
        if s is None:
            continue
        s_local = attributed.get(q, s)
        where = prog.loc(fi)
        is_in = q in inplace
        # ---- AL-mut
        bad, und = mut_findings(fi, s_local, is_in)
        full_bad, _ = mut_findings(fi, s, is_in)
        desc_ok = "writes only its receiver" if is_in else "writes no storage reachable from an operand"
        if bad:
            why = "; ".join(sorted({s_local.mut_why.get(p, "") for p, _ in bad} - {""}))[:400]
            res.bad("AL-mut", fi.short, f"writes operand storage: {_fmt(bad)}", where, why or "write reaches an operand")
        elif full_bad:
            res.ok("AL-mut", fi.short, desc_ok, where, f"(writes to {_fmt(full_bad)} happen inside an already reported public callee)")
        elif und:
            res.undecided("AL-mut", fi.short, desc_ok, where,
                          f"possible write to {_fmt(und)} through an unmodelled call: {sorted(s.unknown_calls)[:4]}")
        else:
            res.ok("AL-mut", fi.short, desc_ok, where, nontrivial=bool(s.mut or fi.params()))
        # ---- AL-cap
        if fi.name != "__init__":
            bad = cap_findings(fi, s_local)
            full = cap_findings(fi, s)
            desc_ok = "keeps no reference to another operand's storage in an operand"
            if bad:
                why = "; ".join(sorted({s_local.cap_why.get(p, "") for p, _ in bad} - {""}))[:300]
                res.bad("AL-cap", fi.short, f"stores operand storage into another operand: {_fmt(bad)}", where, why)
            elif full:
                res.ok("AL-cap", fi.short, desc_ok, where, "(capture happens inside an already reported public callee)")
            else:
                res.ok("AL-cap", fi.short, desc_ok, where, nontrivial=bool(s.mut))
        # ---- AL-ret
        if accountable_ret(fi) and s.ret is not None and s.ret.kind != "imm":
            bad, und = ret_findings(fi, s_local)
            full_bad, _ = ret_findings(fi, s)
            if bad:
                res.bad("AL-ret", fi.short, f"result shares storage with: {_fmt(bad)}", where,
                        (s_local.ret.why or "view chain from an operand reaches the result")[:400])
            elif full_bad:
                res.ok("AL-ret", fi.short, "result is independent of the operands", where,
                       f"(sharing of {_fmt(full_bad)} originates in an already reported public callee)")
            elif und and not s.unknown_calls and s_local.ret.kind == "obj" \
                    and all(any(g.startswith("@") and g[1:] in fi.params() for g, _v in gs) for _p, gs in und):
                # the only thing between the operand and the result is a function SUPPLIED BY THE CALLER: the property quantifies over
                # every input, and a function that hands back (a view of) its argument (lambda v: v, np.real on real data, np.asarray)
                # is one of them
                fn_names = sorted({g[1:] for _p, gs in und for g, _v in gs if g.startswith("@")})
                res.bad("AL-ret", fi.short, f"result shares storage with: {_fmt(und)}", where,
                        f"whenever the caller's function `{', '.join(fn_names)}` returns (a view of) its argument (e.g. `lambda v: v`): "
                        "what it returns is stored in the result without a copy")
            elif und:
                res.undecided("AL-ret", fi.short, "result is independent of the operands", where,
                              f"possible sharing of {_fmt(und)} through an unmodelled call: {sorted(s.unknown_calls)[:4]}")
            else:
                res.ok("AL-ret", fi.short, "result is independent of the operands", where)
    # ---- AL-ctor
    for c in TENSOR_CLASSES:
        ci = prog.tensor_class(c)
        if ci is None:
            raise AnalysisError(f"tensor class {c} vanished")
        init = ci.methods.get("__init__")
        if init is None:
            res.undecided("AL-ctor", f"{c}.{c}.__init__", "stores only fresh values when copying is enabled", prog.loc(ci.methods[next(iter(ci.methods))]))
            continue
        s = eng.sums[init.qualname]
        bad, und = set(), set()
        for attr, fav in s.fields.items():
            for path, gs in fav.dp:
                if ("copy", False) in gs or not _protected(init, path):
                    continue
                bad.add((f"{path} -> .{attr}", gs))
            for path, gs in fav.ud:
                if ("copy", False) in gs or not _protected(init, path):
                    continue
                und.add((f"{path} -> .{attr}", gs))
        desc = "stores only fresh values when copying is enabled (default)"
        if not s.fields:
            res.undecided("AL-ctor", init.short, desc, prog.loc(init), "no attribute stores recognised")
        elif bad:
            res.bad("AL-ctor", init.short, f"with copy enabled the constructor keeps a reference: {_fmt(bad)}", prog.loc(init))
        elif und:
            res.undecided("AL-ctor", init.short, desc, prog.loc(init), f"possible reference kept: {_fmt(und)}")
        else:
            res.ok("AL-ctor", init.short, desc, prog.loc(init), f"fields {sorted(s.fields)}")
    res.unmodelled = sorted(eng.unmodelled)
