"""C10 — Tucker decompositions meet their error bound and structural contract.

Decided (structural necessary conditions in hosvd.py / tucker_als.py):
  THR     the per-mode threshold equals tol^2 * ||X||^2 / d with ||X||^2 the collapsed element-wise square (E7), and it is compared with
          the reverse cumulative sums of the eigenvalues (the discarded tail's energy), not with the eigenvalues themselves
  UNITS   index vs count: `np.where(..)[0][-1]` is an INDEX, a requested rank a COUNT; the stop of the slice that
          selects the leading eigenvectors is a COUNT on every reaching definition of the rank (an index needs + 1,
          a count must not get it)
  EIG     hosvd stores eigenvector COLUMNS of the symmetric solver, permuted by a descending argsort keyed on that
          call's eigenvalues and truncated to a leading prefix (E6) — orthonormality then follows from eigh's contract;
          the reverse cumulative sum is taken over the DESCENDING eigenvalues
  SLOT    the factor computed while processing mode k is stored in slot k of the returned list (or, if collected in
          processing order, put back with argsort of that order — never gathered by the order itself)
  TTM-T   every projection (sequential shrink, final core, HOOI sweep, HOOI core) multiplies by the transposed factor
  FIT     Tucker-ALS reports fit = 1 - sqrt(|nX^2 - nG^2|) / nX with nG the norm of the current core (E7), the sweep
          excludes the mode being solved and solves it with nvecs of the projected tensor
Cross-reference: data / ranks / guess are not modified — C05.
Not decided: the error bound itself, monotone fit, numerical orthonormality.
"""
from __future__ import annotations

import ast
from typing import Dict, List, Optional

import sympy as sp

from ..model import Program, dotted, kwarg, const, AnalysisError
from ..report import Result
from .. import eigen
from ..paths import enumerate_paths
from . import alg_common as A


def thr(prog: Program, res: Result) -> None:
    fi = prog.func("hosvd.hosvd")
    defs = A.single_defs(fi.node)
    tol, nx2, d = sp.Symbol("tol", positive=True), sp.Symbol("normxsqr", positive=True), sp.Symbol("d", positive=True)
    desc = "eigenvalue-sum threshold == tol^2 * ||X||^2 / d"
    if "eigsumthresh" not in defs:
        res.undecided("THR", fi.short, desc, prog.loc(fi), "threshold variable not found")
        return
    e = defs["eigsumthresh"][0].value
    # max(T, 0) == T for the non-negative T = tol^2 ||X||^2 / d: look through it
    if isinstance(e, ast.Call) and not e.keywords and len(e.args) == 2 and (dotted(e.func) or "").split(".")[-1] in ("max", "maximum", "fmax"):
        rest = [a for a in e.args if not (isinstance(a, ast.Constant) and not isinstance(a.value, bool) and a.value == 0)]
        if len(rest) == 1:
            e = rest[0]
    roles = {"tol": tol, "normxsqr": nx2, "d": d}
    ok, how = A.formula_equals(e, roles, tol**2 * nx2 / d)
    where = prog.loc(fi, defs["eigsumthresh"][0])
    absolute = A.absolute_operands(e, {"normxsqr", "input_tensor"})
    if absolute:
        # a floor / cap / offset that does not scale with the data: for data small (or large) enough the threshold is not
        # tol^2 ||X||^2 / d, so the discarded energy is no longer bounded by tol^2 ||X||^2
        ok, how = False, (f"the threshold is combined with `{ast.unparse(absolute[0])}`, which does not scale with ||X||^2: for data of "
                          "small enough magnitude the threshold is not tol^2 ||X||^2 / d and the error bound is lost")
    if ok is True:
        res.ok("THR", fi.short, desc, where, how)
    elif ok is False:
        res.bad("THR", fi.short, desc, where, how)
    else:
        res.undecided("THR", fi.short, desc, where, how)
    # what the threshold is compared with: the energy of the discarded TAIL (reverse cumulative sums), not single eigenvalues
    all_defs: Dict[str, List[ast.expr]] = {}
    for n in ast.walk(fi.node):
        if isinstance(n, ast.Assign) and len(n.targets) == 1 and isinstance(n.targets[0], ast.Name):
            all_defs.setdefault(n.targets[0].id, []).append(n.value)

    def reaches_cumsum(e: ast.expr, seen=(), names=("cumsum",)) -> bool:
        for x in ast.walk(e):
            if isinstance(x, ast.Call) and ((dotted(x.func) or "").split(".")[-1] in names
                                            or (isinstance(x.func, ast.Attribute) and x.func.attr in names)):
                return True
            if isinstance(x, ast.Name) and x.id in all_defs and x.id not in seen:
                if any(reaches_cumsum(d, seen + (x.id,), names) for d in all_defs[x.id]):
                    return True
        return False
    cmps = [c for c in ast.walk(fi.node) if isinstance(c, ast.Compare) and len(c.ops) == 1
            and any(isinstance(x, ast.Name) and x.id == "eigsumthresh" for x in ast.walk(c))]
    desc2 = "the threshold is compared with the reverse cumulative sums of the eigenvalues (energy of the discarded tail)"
    if not cmps:
        res.undecided("THR", fi.short, desc2, prog.loc(fi), "no comparison with the threshold found")
    for c in cmps:
        sides = [c.left, c.comparators[0]]
        other = [x for x in sides if not any(isinstance(y, ast.Name) and y.id == "eigsumthresh" for y in ast.walk(x))]
        if len(other) != 1:
            res.undecided("THR", fi.short, desc2, prog.loc(fi, c), "comparison form not recognised")
        elif reaches_cumsum(other[0]):
            res.ok("THR", fi.short, desc2, prog.loc(fi, c), ast.unparse(c))
        elif reaches_cumsum(other[0], names=("sum", "accumulate", "add", "cumulative_sum", "dot", "trace", "nansum", "reduce")):
            res.undecided("THR", fi.short, desc2, prog.loc(fi, c), f"`{ast.unparse(other[0])}` is built by a summation other than np.cumsum")
        else:
            res.bad("THR", fi.short, desc2, prog.loc(fi, c),
                    f"`{ast.unparse(other[0])}` is not derived from a cumulative sum: single eigenvalues are compared with a bound on their SUM, so several "
                    "small trailing eigenvalues that together exceed the budget are all discarded and the error bound is missed")
    desc = "||X||^2 is the sum of the squared entries and d the number of modes"
    nx = ast.unparse(defs["normxsqr"][0].value) if "normxsqr" in defs else ""
    dd = ast.unparse(defs["d"][0].value) if "d" in defs else ""
    if "** 2" in nx and "collapse" in nx and dd.endswith(".ndims"):
        res.ok("THR", fi.short, desc, prog.loc(fi, defs["normxsqr"][0]), f"normxsqr = {nx}; d = {dd}")
    elif nx and dd:
        res.bad("THR", fi.short, desc, prog.loc(fi, defs["normxsqr"][0]), f"normxsqr = {nx}; d = {dd}")
    else:
        res.undecided("THR", fi.short, desc, prog.loc(fi))


def _unit(e: ast.expr) -> Optional[str]:
    """INDEX for `np.where(..)[0][-1]` / argmax-like picks, COUNT for `that + 1`, len(..), .size, .shape[..]."""
    if isinstance(e, ast.BinOp) and isinstance(e.op, ast.Add) and const(e.right) == 1:
        u = _unit(e.left)
        return "COUNT" if u == "INDEX" else ("COUNT+1" if u == "COUNT" else None)
    if isinstance(e, ast.BinOp) and isinstance(e.op, ast.Sub) and const(e.right) == 1:
        u = _unit(e.left)
        return "INDEX" if u == "COUNT" else None
    if isinstance(e, ast.Subscript) and const(e.slice) == -1:
        inner = e.value
        if isinstance(inner, ast.Subscript) and isinstance(inner.value, ast.Call) and (dotted(inner.value.func) or "").split(".")[-1] in ("where", "nonzero", "flatnonzero"):
            return "INDEX"
        if isinstance(inner, ast.Call) and (dotted(inner.func) or "").split(".")[-1] in ("flatnonzero",):
            return "INDEX"
    if isinstance(e, ast.Call):
        nm = (dotted(e.func) or "").split(".")[-1]
        if nm in ("argmax", "argmin"):
            return "INDEX"
        if nm in ("len", "count_nonzero", "sum"):
            return "COUNT"
    return None


def units(prog: Program, res: Result) -> None:
    fi = prog.func("hosvd.hosvd")
    # reaching definitions of ranks[k]: the caller's ranks (COUNT) and the automatic choice
    auto = [n for n in ast.walk(fi.node) if isinstance(n, ast.Assign) and isinstance(n.targets[0], ast.Subscript)
            and isinstance(n.targets[0].value, ast.Name) and n.targets[0].value.id == "ranks"]
    desc = "the number of leading eigenvectors kept equals the rank (requested: a count; chosen: last index + 1)"
    sl = None
    for n in ast.walk(fi.node):
        val = None
        if isinstance(n, ast.Assign) and isinstance(n.targets[0], ast.Subscript) and "factor_matrices" in ast.unparse(n.targets[0].value):
            val = n.value
        elif isinstance(n, ast.Expr) and isinstance(n.value, ast.Call) and isinstance(n.value.func, ast.Attribute) and n.value.func.attr == "append" \
                and "factor_matrices" in ast.unparse(n.value.func.value) and n.value.args:
            val = n.value.args[0]
        if val is not None:
            for s in ast.walk(fi.resolve(val)):
                if isinstance(s, ast.Slice) and s.upper is not None:
                    sl = (s, n)
    if not auto or sl is None:
        res.undecided("UNITS", fi.short, desc, prog.loc(fi), "rank assignment or eigenvector slice not found")
        return
    u_auto = _unit(auto[0].value)
    up = sl[0].upper
    plus = isinstance(up, ast.BinOp) and isinstance(up.op, ast.Add) and const(up.right) == 1
    base = up.left if plus else up
    is_rank = "ranks[" in ast.unparse(base)
    if not is_rank or u_auto is None:
        res.undecided("UNITS", fi.short, desc, prog.loc(fi, sl[1]), f"slice stop {ast.unparse(up)}, automatic rank unit {u_auto}")
        return
    # unit of the slice stop per reaching definition of ranks[k]
    stop_user = "COUNT+1" if plus else "COUNT"
    stop_auto = {"INDEX": "COUNT" if plus else "INDEX", "COUNT": "COUNT+1" if plus else "COUNT"}.get(u_auto)
    where = prog.loc(fi, sl[1])
    problems = []
    if stop_user != "COUNT":
        problems.append(f"for requested ranks the slice stop `{ast.unparse(up)}` is the requested count + 1: one factor column too many "
                        "(ranks (2,2,2) give a (3,3,3) core)")
    if stop_auto != "COUNT":
        problems.append(f"for automatically chosen ranks `{ast.unparse(auto[0].value)[:60]}` is a {u_auto} and the slice stop `{ast.unparse(up)}` "
                        f"is a {stop_auto}: " + ("the last needed eigenvector is dropped (error bound violated)" if stop_auto == "INDEX" else "one column too many"))
    if problems:
        res.bad("UNITS", fi.short, desc, where, "; ".join(problems))
    else:
        res.ok("UNITS", fi.short, desc, where, f"chosen rank is {ast.unparse(auto[0].value)[:50]} ({u_auto}); slice stop {ast.unparse(up)}")


def eig(prog: Program, res: Result) -> None:
    fi = prog.func("hosvd.hosvd")
    walk = eigen.EigenWalk(fi.node)
    verdicts = []
    for items, end in enumerate_paths(fi.node.body, limit=20000):
        if end == "raise":
            continue
        for ev in walk.run_path(items):
            if ev[0] == "store" and isinstance(ev[1], eigen.Vecs):
                verdicts.append((eigen.judge(ev[1]), ev[2]))
    desc = "stored factors are eigenvector columns, descending by eigenvalue, leading prefix, symmetric solver"
    if not verdicts:
        res.undecided("EIG", fi.short, desc, prog.loc(fi), "no eigenvector store tracked")
    else:
        bad = [v for v in verdicts if v[0][0] == "BAD"]
        if bad:
            res.bad("EIG", fi.short, desc, prog.loc(fi, bad[0][1]), bad[0][0][1])
        else:
            res.ok("EIG", fi.short, desc, prog.loc(fi, verdicts[0][1]), verdicts[0][0][1])
    # cumulative sum over descending eigenvalues, reversed
    desc = "the reverse cumulative sum runs over the eigenvalues in DESCENDING order"
    cs_calls = []
    for a_ in ast.walk(fi.node):
        if isinstance(a_, ast.Assign):
            rv = fi.resolve(a_.value)
            for c in ast.walk(rv):
                if isinstance(c, ast.Call) and (dotted(c.func) or "").split(".")[-1] == "cumsum" and c.args:
                    cs_calls.append((a_, rv, c))
    if not cs_calls:
        res.undecided("EIG", fi.short, desc, prog.loc(fi), "no cumulative sum found")
    else:
        a_, rv, c = cs_calls[0]
        arg = c.args[0]
        # argument: <vals>[<perm>][::-1] with perm = argsort(-vals)
        rev_in = isinstance(arg, ast.Subscript) and isinstance(arg.slice, ast.Slice) and arg.slice.step is not None and const(arg.slice.step) == -1
        inner = arg.value if rev_in else arg
        desc_sorted = False
        if isinstance(inner, ast.Subscript) and isinstance(inner.slice, ast.Call) and (dotted(inner.slice.func) or "").split(".")[-1] == "argsort" \
                and inner.slice.args:
            key = inner.slice.args[0]
            desc_sorted = isinstance(key, ast.UnaryOp) and isinstance(key.op, ast.USub) and ast.unparse(key.operand) == ast.unparse(inner.value)
        # result reversed back: cumsum(..)[::-1] in the same expression, or a later `x = x[::-1]` on the assigned name
        rev_out = any(isinstance(x, ast.Subscript) and x.value is c and isinstance(x.slice, ast.Slice) and x.slice.step is not None and const(x.slice.step) == -1
                      for x in ast.walk(rv))
        if not rev_out and isinstance(a_.targets[0], ast.Name):
            nm = a_.targets[0].id
            rev_out = any(isinstance(y, ast.Assign) and isinstance(y.targets[0], ast.Name) and y.targets[0].id == nm
                          and ast.unparse(y.value).replace(" ", "") == f"{nm}[::-1]" for y in ast.walk(fi.node))
        where = prog.loc(fi, a_)
        if rev_in and desc_sorted and rev_out:
            res.ok("EIG", fi.short, desc, where, f"cumsum over {ast.unparse(arg)[:60]}, reversed back")
        else:
            res.bad("EIG", fi.short, desc, where,
                    f"cumulative sum over `{ast.unparse(arg)[:70]}` (eigenvalues sorted descending: {desc_sorted}; reversed before: {rev_in}; "
                    f"reversed back: {rev_out})")


def fit(prog: Program, res: Result) -> None:
    fi = prog.func("tucker_als.tucker_als")
    defs = A.single_defs(fi.node)
    nX, nG = sp.Symbol("nX", positive=True), sp.Symbol("nG", positive=True)
    roles = {"normX": nX, "core.norm()": nG}
    desc = "reported fit == 1 - sqrt(|nX^2 - nG^2|) / nX (nG = norm of the current core)"
    if "fit" not in defs or "normresidual" not in defs:
        res.undecided("FIT", fi.short, desc, prog.loc(fi))
        return
    fitdef = [a for a in defs["fit"] if not isinstance(a.value, ast.Constant)]
    keep = ("normX", "core", "fit", "normresidual")
    ok, how = A.formula_equals(fi.resolve(fitdef[-1].value, keep=keep), roles, 1 - sp.sqrt(sp.Abs(nX**2 - nG**2)) / nX,
                               {"normresidual": fi.resolve(defs["normresidual"][-1].value, keep=keep)})
    where = prog.loc(fi, fitdef[-1])
    if ok is True:
        res.ok("FIT", fi.short, desc, where, how)
    elif ok is False:
        res.bad("FIT", fi.short, desc, where, how)
    else:
        res.undecided("FIT", fi.short, desc, where, how)
    desc = "normX is the norm of the data"
    nx = ast.unparse(defs["normX"][0].value) if "normX" in defs else ""
    if nx == "input_tensor.norm()":
        res.ok("FIT", fi.short, desc, prog.loc(fi, defs["normX"][0]), nontrivial=False)
    else:
        res.bad("FIT", fi.short, desc, prog.loc(fi), f"normX = {nx}")
    # sweep: project on all modes but n, then nvecs(n, rank[n])
    desc = "HOOI sweep projects on every mode except n and takes rank[n] leading mode-n vectors of the projection"
    loop_ok = None
    for n in ast.walk(fi.node):
        if isinstance(n, ast.For) and isinstance(n.target, ast.Name):
            v = n.target.id
            t = " ".join(ast.unparse(s) for s in n.body)
            if ".ttm(" in t and ".nvecs(" in t:
                excl = f"exclude_dims={v}" in t.replace(" ", "")
                nv = f".nvecs({v}, rank[{v}])" in t
                loop_ok = (excl and nv, n, t)
    if loop_ok is None:
        res.undecided("FIT", fi.short, desc, prog.loc(fi))
    elif loop_ok[0]:
        res.ok("FIT", fi.short, desc, prog.loc(fi, loop_ok[1]))
    else:
        res.bad("FIT", fi.short, desc, prog.loc(fi, loop_ok[1]), loop_ok[2][:160])


def slot(prog: Program, res: Result) -> None:
    """The factor computed for mode k ends up in slot k of the returned factor list."""
    for short in ("hosvd.hosvd", "tucker_als.tucker_als"):
        fi = prog.func(short)
        loops = [n for n in ast.walk(fi.node) if isinstance(n, ast.For) and isinstance(n.target, ast.Name) and "dimorder" in ast.unparse(n.iter)
                 and any(isinstance(x, ast.Call) and (dotted(x.func) or "").split(".")[-1] in ("eigh", "nvecs") for x in ast.walk(n))]
        desc = "the factor computed for mode k is stored in slot k of the factor list"
        if not loops:
            res.undecided("SLOT", short, desc, prog.loc(fi), "mode loop not found")
            continue
        lp = loops[0]
        v = lp.target.id
        direct = [n for n in ast.walk(lp) if isinstance(n, ast.Assign) and isinstance(n.targets[0], ast.Subscript)
                  and isinstance(n.targets[0].slice, ast.Name) and n.targets[0].slice.id == v
                  and any(isinstance(x, ast.Call) and (dotted(x.func) or "").split(".")[-1] in ("nvecs",) or isinstance(x, ast.Subscript) for x in ast.walk(n.value))]
        appends = [n for n in ast.walk(lp) if isinstance(n, ast.Call) and isinstance(n.func, ast.Attribute) and n.func.attr == "append"]
        if direct and not appends:
            res.ok("SLOT", short, desc, prog.loc(fi, direct[0]), ast.unparse(direct[0].targets[0]))
            continue
        if appends:
            lst = ast.unparse(appends[0].func.value)
            iter_txt = ast.unparse(lp.iter)
            # the list is in processing order; it must be brought to mode order with argsort of the processing order
            regather = [n for n in ast.walk(fi.node) if isinstance(n, ast.ListComp) and lst in ast.unparse(n.elt)]
            verdict = None
            for g in regather:
                src = ast.unparse(g.generators[0].iter).replace(" ", "")
                if "argsort" in src:
                    verdict = ("OK", src)
                elif src == iter_txt.replace(" ", "") or src in ("dimorder",):
                    verdict = ("BAD", src)
            if verdict and verdict[0] == "OK":
                res.ok("SLOT", short, desc, prog.loc(fi, appends[0]), f"appended in processing order, regathered by {verdict[1]}")
            elif verdict:
                res.bad("SLOT", short, desc, prog.loc(fi, appends[0]),
                        f"factors are appended in processing order ({iter_txt}) and then gathered BY that order ({verdict[1]}); putting them back into "
                        "mode order needs its inverse (np.argsort): wrong for every non-involutive mode order")
            else:
                res.bad("SLOT", short, desc, prog.loc(fi, appends[0]),
                        f"factors are appended in processing order ({iter_txt}) and never put back into mode order")
        else:
            res.undecided("SLOT", short, desc, prog.loc(fi, lp))


def rank_by_mode(prog: Program, res: Result) -> None:
    """Per-mode sequences (requested ranks) are looked up BY MODE inside a loop that visits the modes in a caller-chosen order:
    pairing them with the loop by position (zip / enumerate index) gives mode dimorder[i] the rank of mode i."""
    for short, seqs in (("hosvd.hosvd", ("ranks",)), ("tucker_als.tucker_als", ("rank",))):
        fi = prog.func(short)
        desc = f"inside the sweep over `dimorder` the per-mode sequence(s) {list(seqs)} are indexed by the mode, not by the position in the sweep"
        bad = None
        n_loops = 0
        for lp in ast.walk(fi.node):
            if not isinstance(lp, ast.For):
                continue
            it = lp.iter
            names_in_iter = {x.id for x in ast.walk(it) if isinstance(x, ast.Name)}
            if "dimorder" not in names_in_iter:
                continue
            n_loops += 1
            if isinstance(it, ast.Call) and (dotted(it.func) or "") in ("zip", "enumerate"):
                if any(sq in names_in_iter for sq in seqs):
                    bad = bad or (lp, f"`for {ast.unparse(lp.target)} in {ast.unparse(it)}` pairs `dimorder` with {[q for q in seqs if q in names_in_iter]} by position")
                if (dotted(it.func) or "") == "enumerate" and isinstance(lp.target, ast.Tuple) and isinstance(lp.target.elts[0], ast.Name):
                    idx = lp.target.elts[0].id
                    for x in ast.walk(lp):
                        if isinstance(x, ast.Subscript) and isinstance(x.value, ast.Name) and x.value.id in seqs and isinstance(x.slice, ast.Name) \
                                and x.slice.id == idx:
                            bad = bad or (x, f"`{ast.unparse(x)}` indexes `{x.value.id}` by the sweep position `{idx}`")
        if bad:
            res.bad("SLOT", short, desc, prog.loc(fi, bad[0]),
                    bad[1] + ": with a sweep order other than 0..N-1 and non-uniform ranks, modes get each other's ranks (and relabelling the modes "
                    "consistently no longer relabels the result)")
        elif n_loops:
            res.ok("SLOT", short, desc, prog.loc(fi), f"{n_loops} sweep loop(s)")
        else:
            res.undecided("SLOT", short, desc, prog.loc(fi), "no loop over dimorder")


def check(prog: Program, res: Result, tier: str) -> None:
    res.explanation = __doc__.split("\n\n", 1)[1]
    res.assumptions = ["scipy.linalg.eigh returns ascending real eigenvalues and orthonormal eigenvector columns",
                       "ttm(.., transpose=True) multiplies by the transposed matrices (C02)"]
    res.floors = {"THR": 3, "UNITS": 1, "EIG": 2, "TTM-T": 4, "FIT": 3, "SLOT": 4}
    rank_by_mode(prog, res)
    slot(prog, res)
    thr(prog, res)
    units(prog, res)
    eig(prog, res)
    A.ttm_transposed(prog, res, "hosvd.hosvd")
    A.ttm_transposed(prog, res, "tucker_als.tucker_als")
    fit(prog, res)
