"""C07 — permute, reshape and squeeze are exact index maps.

Decided (E3):
  EO-1   tensor.reshape reshapes in F order; sptensor.reshape converts through tt_sub2ind / tt_ind2sub with
         first-index-fastest numbering (no order override)
  PS     one selector picks the subscript columns and the shape entries (sptensor.permute / reshape / squeeze)
  FWD    the four permute() siblings (dense, sparse, Kruskal, Tucker) all select by the order argument itself;
         an argsort(order) in one of them is the forward/inverse slip
  ORDER  order-significant arguments (permutation order, the old_modes of sparse reshape) are used as given, never sorted
  RSHAPE sptensor.squeeze / reshape / permute: every constructing return (the nothing-stored shortcut included) uses the transformed shape;
         for reshape / permute that shape is a function of the REQUEST (`new_shape` / `order`): a return whose shape never mentions it is wrong
  PS-tt  ttensor.permute applies the same order to the core and to the factor list; ktensor.permute leaves the
         weights in place
Not decided: values; round-trip identity beyond these facts; agreement across representations (needs C01).
"""
from __future__ import annotations

import ast
from typing import Dict, List

from ..model import Program, dotted
from ..report import Result
from . import eo_common as E

FUNCS = ["tensor.tensor.permute", "tensor.tensor.reshape", "tensor.tensor.squeeze",
         "sptensor.sptensor.permute", "sptensor.sptensor.reshape", "sptensor.sptensor.squeeze",
         "ktensor.ktensor.permute", "ttensor.ttensor.permute"]
PERMUTES = ["tensor.tensor.permute", "sptensor.sptensor.permute", "ktensor.ktensor.permute", "ttensor.ttensor.permute"]


def _depends_on(fi, e: ast.expr) -> set:
    """Names `e` may depend on, through EVERY definition of the locals involved (flow-insensitive closure)."""
    defs: Dict[str, List[ast.expr]] = {}
    for n in ast.walk(fi.node):
        if isinstance(n, ast.Assign):
            for t in n.targets:
                for x in ast.walk(t):
                    if isinstance(x, ast.Name):
                        defs.setdefault(x.id, []).append(n.value)
        elif isinstance(n, (ast.AugAssign, ast.AnnAssign)) and isinstance(n.target, ast.Name) and n.value is not None:
            defs.setdefault(n.target.id, []).append(n.value)
        elif isinstance(n, (ast.For, ast.comprehension)):
            for x in ast.walk(n.target):
                if isinstance(x, ast.Name):
                    defs.setdefault(x.id, []).append(n.iter)
    out, todo = set(), [e]
    while todo:
        cur = todo.pop()
        for x in ast.walk(cur):
            if isinstance(x, ast.Name) and x.id not in out:
                out.add(x.id)
                todo.extend(defs.get(x.id, []))
    return out


def check(prog: Program, res: Result, tier: str) -> None:
    res.explanation = __doc__.split("\n\n", 1)[1]
    res.assumptions = ["np.transpose(x, p) makes result mode k the operand's mode p[k]; tt_sub2ind/tt_ind2sub contract (C17)"]
    res.floors = {"EO-1": 4, "PS": 3, "FWD": 4, "PS-tt": 2, "ORDER": 5, "RSHAPE": 2}
    for f in FUNCS:
        prog.func(f)
    sel = lambda fi: fi.short in FUNCS
    E.eo1(prog, res, sel)
    E.ps(prog, res, sel)
    E.fwd_convention(prog, res, PERMUTES)
    # order-significant arguments are used as given (not sorted / de-duplicated / passed through tt_dimscheck)
    for short, pname in (("sptensor.sptensor.reshape", "old_modes"), ("sptensor.sptensor.permute", "order"), ("tensor.tensor.permute", "order"),
                         ("ktensor.ktensor.permute", "order"), ("ttensor.ttensor.permute", "order")):
        fi = prog.func(short)
        desc = f"the order-significant argument `{pname}` is used in the order given"
        bad = None
        for n in ast.walk(fi.node):
            if isinstance(n, ast.Assign):
                tg = n.targets[0]
                names = [x.id for x in (tg.elts if isinstance(tg, ast.Tuple) else [tg]) if isinstance(x, ast.Name)]
                if pname in names and isinstance(n.value, ast.Call):
                    fn = (dotted(n.value.func) or "").split(".")[-1]
                    uses = any(isinstance(x, ast.Name) and x.id == pname for x in ast.walk(n.value))
                    if uses and fn in ("tt_dimscheck", "sort", "sorted", "unique", "setdiff1d", "union1d", "intersect1d"):
                        bad = (n, fn)
        if bad:
            res.bad("ORDER", short, desc, prog.loc(fi, bad[0]),
                    f"`{pname}` is replaced by the result of {bad[1]}(...), which sorts it: a non-ascending mode list is silently treated as ascending")
        else:
            res.ok("ORDER", short, desc, prog.loc(fi), nontrivial=False)
    # ttensor.permute: same order for core and factors
    fi = prog.func("ttensor.ttensor.permute")
    o = fi.params()[1]

    def order_form(e: ast.AST) -> str:
        """'fwd' when e is the order argument itself (through parse_one_d / np.array / np.asarray / list / tuple), 'inv' when it is its argsort,
        '?' otherwise."""
        e = fi.resolve(e)
        for _ in range(4):
            if isinstance(e, ast.Call) and (dotted(e.func) or "").split(".")[-1] in ("parse_one_d", "array", "asarray", "list", "tuple", "copy") \
                    and (e.args or isinstance(e.func, ast.Attribute)):
                e = e.args[0] if e.args else e.func.value
                e = fi.resolve(e)
        if isinstance(e, ast.Name) and e.id == o:
            return "fwd"
        if isinstance(e, ast.Call) and (dotted(e.func) or "").split(".")[-1] == "argsort":
            inner = e.args[0] if e.args else (e.func.value if isinstance(e.func, ast.Attribute) else None)
            if inner is not None and order_form(inner) == "fwd":
                return "inv"
        return "?"

    core_by = [order_form(c.args[0]) for c in ast.walk(fi.node) if isinstance(c, ast.Call) and isinstance(c.func, ast.Attribute)
               and c.func.attr == "permute" and c.args and "core" in ast.unparse(c.func.value)]
    fac_by: List[str] = []
    for n in ast.walk(fi.node):
        # gather by comprehension: [fm[i] for i in E]
        if isinstance(n, ast.ListComp) and len(n.generators) == 1 and isinstance(n.generators[0].target, ast.Name):
            v = n.generators[0].target.id
            for x in ast.walk(n.elt):
                if isinstance(x, ast.Subscript) and "factor_matrices" in ast.unparse(x.value) and isinstance(x.slice, ast.Name) and x.slice.id == v:
                    fac_by.append(order_form(n.generators[0].iter))
        # loops that fill a list slot by slot: gather  L[k] = fm[order[k]] / scatter  L[order[k]] = fm[k]
        if isinstance(n, ast.For):
            pos = elem = None
            it = n.iter
            if isinstance(it, ast.Call) and (dotted(it.func) or "") == "enumerate" and it.args and isinstance(n.target, ast.Tuple) \
                    and len(n.target.elts) == 2 and all(isinstance(t, ast.Name) for t in n.target.elts) and order_form(it.args[0]) != "?":
                pos, elem, form = n.target.elts[0].id, n.target.elts[1].id, order_form(it.args[0])
            if pos is None:
                continue
            for st in ast.walk(n):
                if isinstance(st, ast.Assign) and len(st.targets) == 1 and isinstance(st.targets[0], ast.Subscript) \
                        and isinstance(st.targets[0].slice, ast.Name) and isinstance(st.value, ast.Subscript) \
                        and "factor_matrices" in ast.unparse(st.value.value) and isinstance(st.value.slice, ast.Name):
                    dst, src = st.targets[0].slice.id, st.value.slice.id
                    if (dst, src) == (pos, elem):
                        fac_by.append(form)
                    elif (dst, src) == (elem, pos):
                        fac_by.append("inv" if form == "fwd" else "fwd")       # scatter = gather by the inverse
    desc = "core and factor matrices are permuted by the same order"
    if core_by and fac_by and core_by[0] == fac_by[0] == "fwd":
        res.ok("PS-tt", fi.short, desc, prog.loc(fi), f"both by `{o}`")
    elif core_by and fac_by and "?" not in (core_by[0], fac_by[0]):
        names = {"fwd": f"`{o}`", "inv": f"the inverse of `{o}`"}
        res.bad("PS-tt", fi.short, desc, prog.loc(fi), f"core permuted by {names[core_by[0]]}, factors arranged by {names[fac_by[0]]}: "
                "for a non-involutive order the factors no longer belong to the modes of the core")
    else:
        res.undecided("PS-tt", fi.short, desc, prog.loc(fi), f"core by {core_by[:1]}, factors by {fac_by[:1]}")
    # sparse shape-changing operations: the empty-tensor shortcut builds the result with the NEW shape, like the main path
    for short in ("sptensor.sptensor.squeeze", "sptensor.sptensor.reshape", "sptensor.sptensor.permute"):
        fs = prog.func(short)
        me = fs.params()[0]
        shapes = []
        for r in ast.walk(fs.node):
            if isinstance(r, ast.Return) and isinstance(r.value, ast.Call) and (dotted(r.value.func) or "").split(".")[-1] == "sptensor" \
                    and len(r.value.args) >= 3:
                shapes.append((fs.rtext(r.value.args[2]).replace(" ", ""), r))
        desc = f"every path of {fs.name} that builds a new sparse tensor gives it the transformed shape (also when nothing is stored)"
        own = [r for t, r in shapes if t in (f"{me}.shape", f"tuple({me}.shape)")]
        other = [t for t, r in shapes if t not in (f"{me}.shape", f"tuple({me}.shape)")]
        if not shapes:
            res.undecided("RSHAPE", short, desc, prog.loc(fs), "no constructing return")
        elif len(shapes) == 1 and not own:
            res.ok("RSHAPE", short, desc, prog.loc(fs, shapes[0][1]), "one constructing return, with the transformed shape")
        elif fs.name in ("reshape", "permute") and len(fs.params()) > 1 and any(
                fs.params()[1] not in _depends_on(fs, r.value.args[2]) for _t, r in shapes):
            # the transformed shape is a function of the REQUEST (new_shape / order): a return whose shape never mentions it cannot be right
            req = fs.params()[1]
            t, r = next((t, r) for t, r in shapes if req not in _depends_on(fs, r.value.args[2]))
            res.bad("RSHAPE", short, desc, prog.loc(fs, r),
                    f"the shape `{t[:70]}` of this return does not depend on the requested `{req}`: the result keeps (a piece of) the receiver's own "
                    "shape on this path")
        elif own and other:
            res.bad("RSHAPE", short, desc, prog.loc(fs, own[0]),
                    f"`{ast.unparse(own[0])[:70]}` keeps the receiver's own shape while another path returns shape `{other[0][:50]}`: "
                    "for a tensor without stored entries the operation does not change the shape")
        else:
            res.ok("RSHAPE", short, desc, prog.loc(fs, shapes[0][1]), f"{len(shapes)} constructing returns")
    # ktensor.permute: weights unpermuted
    fi = prog.func("ktensor.ktensor.permute")
    desc = "weights are passed through unchanged (only the modes are relabelled)"
    ok = None
    for c in ast.walk(fi.node):
        if isinstance(c, ast.Call) and (dotted(c.func) or "").split(".")[-1] == "ktensor" and len(c.args) >= 2:
            ok = ast.unparse(c.args[1]) == f"{fi.params()[0]}.weights"
    if ok is True:
        res.ok("PS-tt", fi.short, desc, prog.loc(fi))
    elif ok is False:
        res.bad("PS-tt", fi.short, desc, prog.loc(fi), "the weights handed to the result are not the receiver's weights")
    else:
        res.undecided("PS-tt", fi.short, desc, prog.loc(fi))
