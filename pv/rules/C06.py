"""C06 — sparse results are well-formed and independent of the stored order of nonzeros.

Decided (E4 on every function of sptensor.py / sptenmat.py):
  IX-dom   an integer index array subscripts only the coordinate list its values were computed for; a boolean
           mask filters only an array it is aligned with; index sets combined by setdiff1d/intersect1d address one list
  IX-seq   arrays combined element-wise (values of two operands, stored values vs positions, aggregated values vs
           group index) are aligned row by row BY CONSTRUCTION — this is exactly "no two coordinate lists are paired by
           position", i.e. independence from the stored order
  IX-pair  subscripts and values handed to a sparse constructor are aligned
  IX-kind  no length-n vector is combined element-wise with an (n,1) column (outer broadcast)
  IX-cnt   subscripts and values handed to a sparse constructor have provably equal symbolic row counts
  IX-agg   the aggregating constructors reduce the values with the inverse index of the np.unique call that produced
           the stored subscripts, on every path
Path-sensitive (every acyclic path with consistent branch decisions); row helper contracts are trusted.
Not decided: absence of explicit zeros after value arithmetic; in-range subscripts for arbitrary user input.
"""
from __future__ import annotations

import ast

from ..model import Program, dotted
from ..report import Result
from . import ix_common as I
from . import eo_common as E

MODULES = ("pyttb.sptensor", "pyttb.sptenmat")


def ix_agg(prog: Program, res: Result) -> None:
    for short in ("sptensor.sptensor.from_aggregator", "sptenmat.sptenmat.__init__"):
        fi = prog.func(short)
        w = I.walk(prog, fi)
        desc = "duplicate subscripts are reduced with the inverse index of the same np.unique call, on every path"
        agg = [f for f in w.findings if "aggregated values" in f.desc]
        # every definition of the stored values on a unique-subs path must be an accumarray keyed by that unique call
        uniq = [n for n in ast.walk(fi.node) if isinstance(n, ast.Call) and (dotted(n.func) or "").split(".")[-1] == "unique"]
        acc = [n for n in ast.walk(fi.node) if isinstance(n, ast.Call) and (dotted(n.func) or "").split(".")[-1] == "accumarray"]
        bad = [f for f in w.findings if not f.ok and f.rule in ("IX-dom", "IX-seq", "IX-pair")]
        where = prog.loc(fi, acc[0]) if acc else prog.loc(fi)
        filtered = [(n, r) for n, r in w.unique_inputs if r and r != "args"]
        if filtered and short.endswith("from_aggregator"):
            res.bad("IX-agg", short, desc, prog.loc(fi, filtered[0][0]),
                    f"np.unique no longer sees all the subscripts passed in (its input follows `{filtered[0][1]}`): entries are removed before "
                    "the reducer runs, so mean / min / prod of a group that contains explicit zeros (or the removed entries) is wrong")
        elif not uniq or not acc:
            res.bad("IX-agg", short, desc, where, "np.unique(return_inverse) / accumarray pair is gone: duplicates are no longer aggregated")
        elif bad:
            res.bad("IX-agg", short, desc, prog.loc(fi, bad[0].node), f"{bad[0].desc}: {bad[0].detail}")
        elif agg and all(f.ok for f in agg):
            res.ok("IX-agg", short, desc, where, agg[0].detail)
        else:
            res.undecided("IX-agg", short, desc, where, "pairing of group index and values not derived")


def check(prog: Program, res: Result, tier: str) -> None:
    res.explanation = __doc__.split("\n\n", 1)[1]
    res.assumptions = [
        "row-helper contracts (tt_intersect_rows: values index A, order follows B; tt_ismember_rows: aligned with the search list, "
        "values index the source; tt_setdiff_rows: values index A) for duplicate-free row lists — not proved here",
        "operands well-formed: rows(x.subs) == rows(x.vals) == x.nnz; tensor[subs] returns one value per subscript row",
    ]
    res.floors = {"IX-dom": 40, "IX-seq": 15, "IX-pair": 12, "IX-cnt": 25, "IX-agg": 2, "IX-kind": 8}
    sel = lambda fi: fi.module in MODULES
    I.ix_rules(prog, res, sel, ("IX-dom", "IX-seq", "IX-pair", "IX-kind"))
    E.cnt_ctor(prog, res, sel)
    ix_agg(prog, res)
