"""C06 — sparse results are well-formed and independent of the stored order of nonzeros.

Decided (E4 on every function of sptensor.py / sptenmat.py):
  IX-dom   an integer index array subscripts only the coordinate list its values were computed for; a boolean
           mask filters only an array it is aligned with; index sets combined by setdiff1d/intersect1d address one list
  IX-seq   arrays combined element-wise (values of two operands, stored values vs positions, aggregated values vs
           group index) are aligned row by row BY CONSTRUCTION — this is exactly "no two coordinate lists are paired by
           position", i.e. independence from the stored order
  IX-pair  subscripts and values handed to a sparse constructor are aligned
  IX-kind  no length-n vector is combined element-wise with an (n,1) column (outer broadcast)
  IX-cnt   subscripts and values handed to a sparse constructor have provably equal symbolic row counts
  IX-agg   the aggregating constructors reduce the values with the inverse index of the np.unique call that produced
           the stored subscripts, on every path
Path-sensitive (every acyclic path with consistent branch decisions); row helper contracts are trusted.
Not decided: absence of explicit zeros after value arithmetic; in-range subscripts for arbitrary user input.
"""
from __future__ import annotations

import ast

from ..model import Program, kwarg, dotted
from ..report import Result
from . import ix_common as I
from . import eo_common as E

MODULES = ("pyttb.sptensor", "pyttb.sptenmat")


def ix_agg(prog: Program, res: Result) -> None:
    for short in ("sptensor.sptensor.from_aggregator", "sptenmat.sptenmat.__init__"):
        fi = prog.func(short)
        w = I.walk(prog, fi)
        desc = "duplicate subscripts are reduced with the inverse index of the same np.unique call, on every path"
        agg = [f for f in w.findings if "aggregated values" in f.desc]
        # every definition of the stored values on a unique-subs path must be an accumarray keyed by that unique call
        uniq = [n for n in ast.walk(fi.node) if isinstance(n, ast.Call) and (dotted(n.func) or "").split(".")[-1] == "unique"]
        acc = [n for n in ast.walk(fi.node) if isinstance(n, ast.Call) and (dotted(n.func) or "").split(".")[-1] == "accumarray"]
        bad = [f for f in w.findings if not f.ok and f.rule in ("IX-dom", "IX-seq", "IX-pair")]
        where = prog.loc(fi, acc[0]) if acc else prog.loc(fi)
        filtered = [(n, r) for n, r in w.unique_inputs if r and r != "args"]
        if filtered and short.endswith("from_aggregator"):
            res.bad("IX-agg", short, desc, prog.loc(fi, filtered[0][0]),
                    f"np.unique no longer sees all the subscripts passed in (its input follows `{filtered[0][1]}`): entries are removed before "
                    "the reducer runs, so mean / min / prod of a group that contains explicit zeros (or the removed entries) is wrong")
        elif not uniq or not acc:
            res.bad("IX-agg", short, desc, where, "np.unique(return_inverse) / accumarray pair is gone: duplicates are no longer aggregated")
        elif bad:
            res.bad("IX-agg", short, desc, prog.loc(fi, bad[0].node), f"{bad[0].desc}: {bad[0].detail}")
        elif agg and all(f.ok for f in agg):
            res.ok("IX-agg", short, desc, where, agg[0].detail)
        else:
            res.undecided("IX-agg", short, desc, where, "pairing of group index and values not derived")


def agg_every_path(prog: Program, res: Result) -> None:
    """from_aggregator: every definition of the values that reach the result is the reducer applied to a group
    (accumarray(.., func=<reducer parameter>)) - also for groups of one entry, because a reducer need not be the identity on
    singletons (logical_and reduces with `len(x) == 2`)."""
    fi = prog.func("sptensor.sptensor.from_aggregator")
    params = fi.params()
    reducer = next((p_ for p_ in params if "function" in p_.lower() or "handle" in p_.lower() or p_ in ("func", "fun")), None)
    desc = "every value stored by the aggregating constructor is the reducer applied to its group (groups of one entry included)"
    accs = [n for n in ast.walk(fi.node) if isinstance(n, ast.Assign) and len(n.targets) == 1 and isinstance(n.targets[0], ast.Name)
            and isinstance(n.value, ast.Call) and (dotted(n.value.func) or "").split(".")[-1] == "accumarray"]
    if not accs or reducer is None:
        res.undecided("IX-agg", fi.short, desc, prog.loc(fi), "accumarray assignment / reducer parameter not found")
        return
    vname = accs[0].targets[0].id
    bad = None
    for n in ast.walk(fi.node):
        if isinstance(n, ast.Assign) and len(n.targets) == 1 and isinstance(n.targets[0], ast.Name) and n.targets[0].id == vname and n not in accs:
            reads_self = any(isinstance(x, ast.Name) and x.id == vname for x in ast.walk(n.value))
            empty = isinstance(n.value, ast.Call) and (dotted(n.value.func) or "").split(".")[-1] in ("array", "empty", "zeros") and n.value.args \
                and ((isinstance(n.value.args[0], (ast.List, ast.Tuple)) and not n.value.args[0].elts)
                     or (isinstance(n.value.args[0], ast.Tuple) and n.value.args[0].elts and isinstance(n.value.args[0].elts[0], ast.Constant)
                         and n.value.args[0].elts[0].value == 0))
            if not reads_self and not empty:
                bad = bad or n
    for a in accs:
        f = kwarg(a.value, "func")
        if f is None or not (isinstance(f, ast.Name) and f.id == reducer):
            bad = bad or a
    if bad is not None:
        res.bad("IX-agg", fi.short, desc, prog.loc(fi, bad),
                f"`{ast.unparse(bad)[:70]}` defines the stored values without applying `{reducer}`: on that path a reducer that is not the identity "
                "on a single value (a count predicate, a custom function) is skipped")
    else:
        res.ok("IX-agg", fi.short, desc, prog.loc(fi, accs[0]), f"`{vname}` is only defined by accumarray(.., func={reducer})")


def check(prog: Program, res: Result, tier: str) -> None:
    res.explanation = __doc__.split("\n\n", 1)[1]
    res.assumptions = [
        "row-helper contracts (tt_intersect_rows: values index A, order follows B; tt_ismember_rows: aligned with the search list, "
        "values index the source; tt_setdiff_rows: values index A) for duplicate-free row lists — not proved here",
        "operands well-formed: rows(x.subs) == rows(x.vals) == x.nnz; tensor[subs] returns one value per subscript row",
    ]
    res.floors = {"IX-dom": 40, "IX-seq": 15, "IX-pair": 12, "IX-cnt": 25, "IX-agg": 2, "IX-kind": 8}
    sel = lambda fi: fi.module in MODULES
    I.ix_rules(prog, res, sel, ("IX-dom", "IX-seq", "IX-pair", "IX-kind"))
    E.cnt_ctor(prog, res, sel)
    ix_agg(prog, res)
    agg_every_path(prog, res)
