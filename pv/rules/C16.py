"""C16 — export followed by import reproduces the object exactly.

Decided (writer/reader agreement, E9 — all facts read from export_data.py / import_data.py):
  IO-fmt     every default float format that reaches ndarray.tofile carries >= 17 significant
             digits (%.{p}e with p >= 16, %.{p}g with p >= 17; %f never round-trips the exponent range)
  IO-base    the constant added to subscripts on export equals the default index_base of the
             importer, the importer subtracts index_base, and import_data forwards its index_base
  IO-layout  per kind, the enumeration order written equals the order the reader rebuilds with
             (dense: transpose + C-order tofile = F, read by the F-reshaping tensor constructor;
             factor matrices row by row = C, read by a C reshape; matrix C / C)
  IO-cnt     the entry count in the sparse header is the number of stored entries, like the loop that writes the entry lines
  IO-seq     per kind, the sequence of text lines (L) and numeric blocks (N) written equals the
             sequence read; every type tag written is dispatched by the importer
  IO-entry   a sparse entry line is written subscripts-then-value and read as line[:-1] / line[-1];
             the importer builds the sparse tensor with the plain (order preserving) constructor
Not decided: parsing of extreme exponents / corner shapes by numpy at run time.
"""
from __future__ import annotations

import ast
import re
from typing import Dict, List, Optional, Tuple

from ..model import Program, dotted, kwarg, arg_or_kw, const, NOCONST, AnalysisError, walk_no_nested, calls_in
from ..report import Result

FLOAT_SPEC = re.compile(r"%[-+ #0]*\d*(?:\.(\d+))?([eEfFgGdiu])")


def _fmt_verdict(fmt: str) -> Tuple[str, str]:
    specs = FLOAT_SPEC.findall(fmt)
    if len(specs) != 1:
        return "UNDEC", f"format {fmt!r} is not a single numeric conversion"
    prec, conv = specs[0]
    p = int(prec) if prec else 6
    if conv in "eE":
        return ("OK", f"{fmt!r}: {p + 1} significant digits") if p >= 16 else ("BAD", f"{fmt!r} keeps only {p + 1} significant digits (<17)")
    if conv in "gG":
        return ("OK", f"{fmt!r}: {p} significant digits") if p >= 17 else ("BAD", f"{fmt!r} keeps only {p} significant digits (<17)")
    if conv in "fF":
        return "BAD", f"{fmt!r} is fixed-point: small magnitudes lose all significant digits"
    return "INT", fmt


def _default_strings(fn: ast.FunctionDef, name: str) -> List[str]:
    """String constants assigned to `name` inside fn (the `if not fmt: fmt = "..."` idiom) or its default."""
    out = []
    for n in ast.walk(fn):
        if isinstance(n, ast.Assign) and any(isinstance(t, ast.Name) and t.id == name for t in n.targets):
            if isinstance(n.value, ast.Constant) and isinstance(n.value.value, str):
                out.append(n.value.value)
            elif isinstance(n.value, ast.IfExp) or isinstance(n.value, ast.BoolOp):
                for c in ast.walk(n.value):
                    if isinstance(c, ast.Constant) and isinstance(c.value, str):
                        out.append(c.value)
    a = fn.args
    pos = a.posonlyargs + a.args
    for p, d in zip(pos[len(pos) - len(a.defaults):], a.defaults):
        if p.arg == name and isinstance(d, ast.Constant) and isinstance(d.value, str):
            out.append(d.value)
    return out


def _format_strings(prog, fi, e: ast.AST, depth: int = 0) -> List[str]:
    """Every literal string the format expression can evaluate to when the caller gives no format: literals, `x or "lit"`,
    `"lit" if .. else x`, locals and their `if not x: x = "lit"` defaults, parameter defaults, module-level constants."""
    if depth > 4 or e is None:
        return []
    if isinstance(e, ast.Constant):
        return [e.value] if isinstance(e.value, str) else []
    if isinstance(e, (ast.BoolOp, ast.IfExp)):
        parts = e.values if isinstance(e, ast.BoolOp) else [e.body, e.orelse]
        out: List[str] = []
        for v in parts:
            out += _format_strings(prog, fi, v, depth + 1)
        return out
    if isinstance(e, ast.Name):
        out = []
        local = False
        for n in ast.walk(fi.node):
            if isinstance(n, ast.Assign) and any(isinstance(t, ast.Name) and t.id == e.id for t in n.targets):
                local = True
                if not (isinstance(n.value, ast.Name) and n.value.id == e.id):
                    out += _format_strings(prog, fi, n.value, depth + 1)
        a = fi.node.args
        pos = a.posonlyargs + a.args
        for p_, d in zip(pos[len(pos) - len(a.defaults):], a.defaults):
            if p_.arg == e.id:
                local = True
                out += _format_strings(prog, fi, d, depth + 1)
        if e.id in [x.arg for x in pos + a.kwonlyargs]:
            local = True
        if not local:
            mi = prog.modules.get(fi.module)
            for n in (mi.tree.body if mi else []):
                if isinstance(n, ast.Assign) and any(isinstance(t, ast.Name) and t.id == e.id for t in n.targets):
                    out += _format_strings(prog, fi, n.value, depth + 1)
                elif isinstance(n, ast.AnnAssign) and isinstance(n.target, ast.Name) and n.target.id == e.id and n.value is not None:
                    out += _format_strings(prog, fi, n.value, depth + 1)
        return out
    return []


def _derives_from_attr(fn: ast.FunctionDef, expr: ast.expr, attr: str) -> bool:
    """expr (or the single-assignment locals it names) mentions `.attr`."""
    seen = set()
    work = [expr]
    while work:
        e = work.pop()
        for n in ast.walk(e):
            if isinstance(n, ast.Attribute) and n.attr == attr:
                return True
            if isinstance(n, ast.Name) and n.id not in seen:
                seen.add(n.id)
                for st in ast.walk(fn):
                    if isinstance(st, ast.Assign) and any(isinstance(t, ast.Name) and t.id == n.id for t in st.targets):
                        work.append(st.value)
    return False


# ---------------------------------------------------------------- token sequences
def _is_print_to_file(c: ast.Call) -> bool:
    return isinstance(c.func, ast.Name) and c.func.id == "print" and kwarg(c, "file") is not None


class _Writer:
    def __init__(self, prog: Program, module: str):
        self.prog = prog
        self.module = module

    def tokens(self, body: List[ast.stmt], depth=0) -> List[object]:
        out: List[object] = []
        for st in body:
            if isinstance(st, ast.For):
                inner = self.tokens(st.body, depth)
                if inner:
                    out.append(("loop", _compose(inner)))
                continue
            if isinstance(st, (ast.If, ast.With)):
                # `if not fmt: fmt = default` writes nothing; other ifs handled by caller
                sub = self.tokens(st.body, depth)
                out.extend(sub)
                continue
            for c in calls_in(st):
                if _is_print_to_file(c):
                    if c.args:
                        out.append("L")
                    elif kwarg(c, "end") is None:
                        out.append("NL")
                    continue
                if isinstance(c.func, ast.Attribute) and c.func.attr == "tofile":
                    out.append("A")
                    continue
                nm = dotted(c.func)
                if nm and depth < 3:
                    q = f"{self.module}.{nm}"
                    if q in self.prog.functions:          # any helper of the module (private helpers included)
                        out.extend(self.tokens(self.prog.functions[q].node.body, depth + 1))
        return out


def _compose(tokens: List[object]) -> List[object]:
    """A... NL -> N (numeric block / numeric line)."""
    out: List[object] = []
    i = 0
    while i < len(tokens):
        t = tokens[i]
        if t == "A":
            j = i
            while j < len(tokens) and tokens[j] == "A":
                j += 1
            if j < len(tokens) and tokens[j] == "NL":
                j += 1
            out.append("N")
            i = j
            continue
        if isinstance(t, tuple) and t[0] == "loop":
            inner = _compose(t[1]) if isinstance(t[1], list) else t[1]
            if inner == ["N"]:
                out.append("N")  # a loop of numeric lines is one numeric block
            else:
                out.append(("loop", tuple(inner)))
            i += 1
            continue
        out.append(t)
        i += 1
    return out


class _Reader:
    def __init__(self, prog: Program, module: str):
        self.prog = prog
        self.module = module

    def tokens(self, body: List[ast.stmt], depth=0) -> List[object]:
        out: List[object] = []
        for st in body:
            if isinstance(st, ast.For):
                inner = self.tokens(st.body, depth)
                if inner:
                    numeric_lines = all(t == "L" for t in inner) and self._parses_numbers(st)
                    out.append("N" if numeric_lines else ("loop", tuple(inner)))
                continue
            if isinstance(st, (ast.If, ast.With)):
                continue
            for c in calls_in(st):
                if isinstance(c.func, ast.Attribute) and c.func.attr == "readline":
                    out.append("L")
                    continue
                nm = dotted(c.func) or ""
                if nm.split(".")[-1] in ("fromfile", "loadtxt", "fromstring"):
                    out.append("N")
                    continue
                if depth < 3:
                    q = f"{self.module}.{nm}"
                    if q in self.prog.functions:          # any helper of the module (private helpers included)
                        out.extend(self.tokens(self.prog.functions[q].node.body, depth + 1))
        return out

    @staticmethod
    def _parses_numbers(loop: ast.For) -> bool:
        for n in ast.walk(loop):
            if isinstance(n, ast.Call):
                nm = dotted(n.func) or ""
                if nm.split(".")[-1] in ("int64", "int", "float", "float64", "int32"):
                    return True
        return False


def _flatten(tokens) -> str:
    out = []
    for t in tokens:
        if isinstance(t, tuple):
            out.append("loop[" + _flatten(t[1]) + "]")
        else:
            out.append(t)
    return " ".join(out)


def _kind_branches_export(fn: ast.FunctionDef) -> Dict[str, List[ast.stmt]]:
    """type tag printed first in a branch -> branch body."""
    out: Dict[str, List[ast.stmt]] = {}
    for n in ast.walk(fn):
        if isinstance(n, ast.If):
            for body in (n.body,):
                if body and isinstance(body[0], ast.Expr) and isinstance(body[0].value, ast.Call) \
                        and _is_print_to_file(body[0].value) and body[0].value.args \
                        and isinstance(body[0].value.args[0], ast.Constant):
                    out[str(body[0].value.args[0].value)] = body
    return out


def _kind_prefixes_import(fn: ast.FunctionDef) -> Dict[str, List[ast.stmt]]:
    """kind -> the statements of the enclosing block that run before the kind's branch (reads shared by all kinds: the type line,
    possibly the shape).  Other kinds' branches are if-statements and are skipped by the token reader."""
    out: Dict[str, List[ast.stmt]] = {}

    def kind_of(test):
        if isinstance(test, ast.Compare) and len(test.ops) == 1 and isinstance(test.ops[0], ast.Eq):
            for a, b in ((test.left, test.comparators[0]), (test.comparators[0], test.left)):
                if isinstance(a, ast.Constant) and isinstance(a.value, str) and isinstance(b, ast.Name):
                    return a.value
        return None

    def block(stmts, inherited):
        for i, st in enumerate(stmts):
            prefix = inherited + [x for x in stmts[:i] if not isinstance(x, ast.If)]
            if isinstance(st, ast.If):
                node = st
                while isinstance(node, ast.If):
                    k = kind_of(node.test)
                    if k is not None:
                        out.setdefault(k, prefix)
                    node = node.orelse[0] if len(node.orelse) == 1 and isinstance(node.orelse[0], ast.If) else None
            elif isinstance(st, (ast.With, ast.Try)):
                block(st.body, prefix)
    block(fn.body, [])
    return out


def _kind_branches_import(fn: ast.FunctionDef) -> Dict[str, List[ast.stmt]]:
    out: Dict[str, List[ast.stmt]] = {}
    for n in ast.walk(fn):
        if isinstance(n, ast.If) and isinstance(n.test, ast.Compare) and len(n.test.ops) == 1 \
                and isinstance(n.test.ops[0], ast.Eq):
            c = n.test.comparators[0]
            l = n.test.left
            for a, b in ((l, c), (c, l)):
                if isinstance(a, ast.Constant) and isinstance(a.value, str) and isinstance(b, ast.Name):
                    out[a.value] = n.body
    return out


def check(prog: Program, res: Result, tier: str) -> None:
    res.explanation = __doc__.split("\n\n", 1)[1]
    res.assumptions = [
        "ndarray.tofile(text mode) writes the array in C order with the given printf format; np.fromfile reads whitespace separated numbers",
        "a double round-trips through 17 significant decimal digits",
        "the tensor constructor reshapes flat data in F order (checked structurally under IO-layout)",
    ]
    res.floors = {"IO-fmt": 5, "IO-base": 4, "IO-layout": 3, "IO-seq": 4, "IO-entry": 3, "IO-cnt": 1}
    EXM, IMM = "pyttb.export_data", "pyttb.import_data"
    exp = prog.func("export_data.export_data")
    imp = prog.func("import_data.import_data")

    # ---- IO-fmt: every tofile call in the export module
    n_tofile = 0
    for q, fi in prog.functions.items():
        if fi.module != EXM:
            continue
        for c in calls_in(fi.node):
            if not (isinstance(c.func, ast.Attribute) and c.func.attr == "tofile"):
                continue
            n_tofile += 1
            f = kwarg(c, "format") or (c.args[2] if len(c.args) > 2 else None)
            target = ast.unparse(c.func.value)
            desc = f"default number format of {fi.name}: tofile({target})"
            where = prog.loc(fi, c)
            if f is None:
                res.bad("IO-fmt", fi.short, desc, where, "no format given: numpy's default text format keeps ~8 digits")
                continue
            fmts = sorted(set(_format_strings(prog, fi, f)))
            if not fmts:
                res.undecided("IO-fmt", fi.short, desc, where, "format expression has no literal default in this function")
                continue
            for fmt in fmts:
                v, why = _fmt_verdict(fmt)
                if v == "OK":
                    res.ok("IO-fmt", fi.short, desc, where, why)
                elif v == "BAD":
                    res.bad("IO-fmt", fi.short, desc, where, why)
                elif v == "INT":
                    if _derives_from_attr(fi.node, c.func.value, "subs"):
                        res.ok("IO-fmt", fi.short, desc, where, f"integer format {fmt!r} on subscripts")
                    else:
                        res.bad("IO-fmt", fi.short, desc, where, f"integer format {fmt!r} applied to non-subscript data truncates values")
                else:
                    res.undecided("IO-fmt", fi.short, desc, where, why)
    res.analysed["tofile_calls"] = n_tofile

    # ---- IO-base
    esa = prog.func("export_data.export_sparse_array")
    added = None
    add_node = None
    for n in ast.walk(esa.node):
        if isinstance(n, ast.BinOp) and isinstance(n.op, (ast.Add, ast.Sub)):
            for side, other in ((n.left, n.right), (n.right, n.left)):
                if any(isinstance(x, ast.Attribute) and x.attr == "subs" for x in ast.walk(side)):
                    cv = const(other)
                    if cv is not NOCONST and isinstance(cv, int):
                        added = cv if isinstance(n.op, ast.Add) else -cv
                        add_node = n
    where = prog.loc(esa, add_node) if add_node is not None else prog.loc(esa)
    # subs written without any offset at all?
    if added is None:
        writes_subs = any(isinstance(c.func, ast.Attribute) and c.func.attr == "tofile"
                          and _derives_from_attr(esa.node, c.func.value, "subs") for c in calls_in(esa.node))
        if writes_subs:
            added = 0
    isa = prog.func("import_data.import_sparse_array")
    d_imp = const(imp.param_defaults().get("index_base"))
    d_isa = const(isa.param_defaults().get("index_base"))
    desc = "export offset of subscripts == default index_base of import_data"
    if added is None or d_imp is NOCONST:
        res.undecided("IO-base", "export_data.export_sparse_array", desc, where, "offset or default not literal")
    elif added == d_imp:
        res.ok("IO-base", "export_data.export_sparse_array", desc, where, f"export adds {added}, import default {d_imp}")
    else:
        res.bad("IO-base", "export_data.export_sparse_array", desc, where,
                f"export adds {added} to 0-based subscripts but import_data's default index_base is {d_imp}")
    desc = "default index_base of import_sparse_array == default of import_data"
    if d_isa is NOCONST or d_imp is NOCONST:
        res.undecided("IO-base", "import_data.import_sparse_array", desc, prog.loc(isa))
    elif d_isa == d_imp:
        res.ok("IO-base", "import_data.import_sparse_array", desc, prog.loc(isa), nontrivial=False)
    else:
        res.bad("IO-base", "import_data.import_sparse_array", desc, prog.loc(isa), f"{d_isa} vs {d_imp}")
    # importer subtracts index_base from what it stores into subs
    desc = "imported subscripts are file subscripts minus index_base"
    verdict = None
    for n in ast.walk(isa.node):
        if isinstance(n, ast.Assign) and isinstance(n.targets[0], ast.Subscript):
            base = n.targets[0].value
            if _name_is_subs(isa.node, base):
                subs_ok = False
                for b in ast.walk(isa.resolve(n.value)):
                    if isinstance(b, ast.BinOp) and isinstance(b.op, ast.Sub) and isinstance(b.right, ast.Name) \
                            and b.right.id == "index_base":
                        subs_ok = True
                    elif isinstance(b, ast.BinOp) and isinstance(b.op, ast.Sub) and not isinstance(b.right, ast.Name) \
                            and any(isinstance(x, ast.Name) and x.id == "index_base" for x in ast.walk(b.right)) \
                            and isinstance(b.right, (ast.BoolOp, ast.IfExp)):
                        verdict = ("BAD", f"what is subtracted is `{ast.unparse(b.right)}`, not the base itself: a falsy base (index_base=0) is "
                                          "replaced by another value, so 0-based files are shifted by one", n)
                    if isinstance(b, ast.BinOp) and isinstance(b.op, ast.Add) and any(
                            isinstance(x, ast.Name) and x.id == "index_base" for x in (b.left, b.right)):
                        verdict = ("BAD", "index_base is added instead of subtracted", n)
                if subs_ok and verdict is None:
                    verdict = ("OK", "", n)
                elif verdict is None:
                    uses = any(isinstance(x, ast.Name) and x.id == "index_base" for x in ast.walk(isa.resolve(n.value)))
                    verdict = ("BAD", "index_base is not subtracted from the stored subscripts", n) if not uses else ("UNDEC", "", n)
    # the name that is subtracted must still be the caller's value: a re-binding of the parameter before the loop
    # (`index_base = index_base or 1`, a conditional default) replaces a falsy base (0) by another one
    for fn_i, short in ((isa, "import_data.import_sparse_array"), (imp, "import_data.import_data")):
        for n in ast.walk(fn_i.node):
            tgt = None
            if isinstance(n, ast.Assign) and len(n.targets) == 1:
                tgt, val = n.targets[0], n.value
            elif isinstance(n, (ast.AnnAssign, ast.AugAssign)) and n.value is not None:
                tgt, val = n.target, n.value
            if isinstance(tgt, ast.Name) and tgt.id == "index_base":
                if not isinstance(n, ast.AugAssign) and (isinstance(val, (ast.BoolOp, ast.IfExp)) and any(
                        isinstance(x, ast.Name) and x.id == "index_base" for x in ast.walk(val))):
                    res.bad("IO-base", short, "the index base given by the caller is used as given", prog.loc(fn_i, n),
                            f"`{ast.unparse(n)}` re-binds the parameter: a falsy base (index_base=0) is replaced by another value, "
                            "so 0-based files are shifted")
                else:
                    res.undecided("IO-base", short, "the index base given by the caller is used as given", prog.loc(fn_i, n),
                                  f"`{ast.unparse(n)}` re-binds the parameter")
    if verdict is None:
        res.undecided("IO-base", "import_data.import_sparse_array", desc, prog.loc(isa), "no store into subs found")
    elif verdict[0] == "OK":
        res.ok("IO-base", "import_data.import_sparse_array", desc, prog.loc(isa, verdict[2]))
    elif verdict[0] == "BAD":
        res.bad("IO-base", "import_data.import_sparse_array", desc, prog.loc(isa, verdict[2]), verdict[1])
    else:
        res.undecided("IO-base", "import_data.import_sparse_array", desc, prog.loc(isa, verdict[2]))
    # forwarding
    desc = "import_data forwards its index_base to the sparse reader"
    fw = None
    for c in calls_in(imp.node):
        if (dotted(c.func) or "") == "import_sparse_array":
            a = arg_or_kw(c, 3, "index_base")
            fw = (isinstance(a, ast.Name) and a.id == "index_base", c)
    if fw is None:
        res.undecided("IO-base", "import_data.import_data", desc, prog.loc(imp), "call not found")
    elif fw[0]:
        res.ok("IO-base", "import_data.import_data", desc, prog.loc(imp, fw[1]))
    else:
        res.bad("IO-base", "import_data.import_data", desc, prog.loc(imp, fw[1]),
                "the sparse reader is called without the caller's index_base")

    # ---- IO-cnt: the entry count announced in the sparse header is the number of entry lines written
    ess = prog.func("export_data.export_sparse_size")

    def stored_count(e: ast.AST, param: str) -> Optional[bool]:
        """True: the number of stored entries of `param` (nnz, rows of subs / vals); False: a count of something else (non-zero VALUES);
        None: not recognised."""
        t = ast.unparse(e).replace(" ", "")
        if t in (f"{param}.nnz", f"len({param}.subs)", f"len({param}.vals)", f"{param}.subs.shape[0]", f"{param}.vals.shape[0]", f"{param}.vals.size"):
            return True
        if isinstance(e, ast.Call) and (dotted(e.func) or "").split(".")[-1] in ("count_nonzero", "sum", "flatnonzero", "nonzero") \
                and f"{param}.vals" in t:
            return False
        return None
    pa = ess.params()[1] if len(ess.params()) > 1 else "A"
    header = None
    for n in ast.walk(ess.resolve(ess.node)):
        if isinstance(n, (ast.Attribute, ast.Call, ast.Subscript)):
            v = stored_count(n, pa)
            if v is not None and ".shape)" not in ast.unparse(n) and "len(" + pa + ".shape" not in ast.unparse(n):
                header = (v, n) if header is None or header[0] else header
    pb = esa.params()[1] if len(esa.params()) > 1 else "A"
    body = None
    for n in ast.walk(esa.node):
        if isinstance(n, ast.For) and any(isinstance(c, ast.Call) and isinstance(c.func, ast.Attribute) and c.func.attr == "tofile" for c in ast.walk(n)):
            it = esa.resolve(n.iter)
            if isinstance(it, ast.Call) and (dotted(it.func) or "") == "range" and len(it.args) == 1:
                body = (stored_count(it.args[0], pb), it.args[0])
            elif isinstance(it, ast.Call) and (dotted(it.func) or "") in ("zip", "enumerate") and it.args \
                    and all(ast.unparse(a).replace(" ", "") in (f"{pb}.subs", f"{pb}.vals") for a in it.args):
                body = (True, it)
            elif ast.unparse(it).replace(" ", "") in (f"{pb}.subs", f"{pb}.vals"):
                body = (True, it)
    desc = "the entry count written in the sparse header is the number of entry lines written after it (every stored entry, explicit zeros included)"
    if header is None or body is None or body[0] is None:
        res.undecided("IO-cnt", "export_data.export_sparse_size", desc, prog.loc(ess),
                      f"header count {ast.unparse(header[1]) if header else None}, writer loop over {ast.unparse(body[1]) if body else None}")
    elif header[0] and body[0]:
        res.ok("IO-cnt", "export_data.export_sparse_size", desc, prog.loc(ess), f"header {ast.unparse(header[1])}, writer {ast.unparse(body[1])}")
    else:
        which = header if not header[0] else body
        res.bad("IO-cnt", "export_data.export_sparse_size", desc, prog.loc(ess if which is header else esa),
                f"`{ast.unparse(which[1])[:60]}` counts non-zero VALUES, the other side counts stored entries: with an explicitly stored 0.0 the reader "
                "takes fewer (or expects more) lines than were written and the tail of the file is lost")

    # ---- IO-seq + tags
    eb = _kind_branches_export(exp.node)
    ib = _kind_branches_import(imp.node)
    ipre = _kind_prefixes_import(imp.node)
    if len(eb) < 4 or len(ib) < 4:
        raise AnalysisError(f"export/import kind dispatch not recognised (export {sorted(eb)}, import {sorted(ib)})")
    W, R = _Writer(prog, EXM), _Reader(prog, IMM)
    for tag, body in sorted(eb.items()):
        desc = f"field sequence written for '{tag}' equals the sequence read"
        where = f"{prog.rel(exp.path)}:{body[0].lineno}"
        if tag not in ib:
            res.bad("IO-seq", "export_data.export_data", desc, where, f"type tag '{tag}' is written but import_data has no branch for it")
            continue
        wt = _flatten(_compose(W.tokens(body)))
        rt = _flatten(R.tokens(ipre.get(tag, []) + ib[tag]))  # what is read before the dispatch (the type line, ...) and in the branch
        if wt == rt:
            res.ok("IO-seq", "export_data.export_data", desc, where, wt)
        else:
            res.bad("IO-seq", "export_data.export_data", desc, where, f"written: {wt} | read: {rt}")
    # accepted tag list of the importer (the `not in [...]` guard) covers the written tags
    for n in ast.walk(imp.node):
        coll = n.comparators[0] if isinstance(n, ast.Compare) and n.comparators else None
        if isinstance(coll, ast.Name):
            coll = imp.single_defs().get(coll.id) or getattr(imp.node, "_pv_module_consts", {}).get(coll.id)     # a named collection
        if isinstance(n, ast.Compare) and isinstance(n.ops[0], (ast.NotIn, ast.In)) and isinstance(coll, (ast.List, ast.Tuple, ast.Set)):
            acc = {e.value for e in coll.elts if isinstance(e, ast.Constant)}
            missing = sorted(set(eb) - acc)
            desc = "every written type tag is in the importer's accepted list"
            if missing:
                res.bad("IO-seq", "import_data.import_data", desc, prog.loc(imp, n), f"tags {missing} are rejected as invalid")
            else:
                res.ok("IO-seq", "import_data.import_data", desc, prog.loc(imp, n), nontrivial=False)

    # ---- IO-layout
    _layout(prog, res, exp, imp, eb, ib)

    # ---- IO-entry
    tof = [c for c in calls_in(esa.node) if isinstance(c.func, ast.Attribute) and c.func.attr == "tofile"]
    desc = "sparse entry line: subscripts first, value last"
    if len(tof) >= 2:
        first_subs = _derives_from_attr(esa.node, tof[0].func.value, "subs")
        last_vals = _derives_from_attr(esa.node, tof[-1].func.value, "vals")
        if first_subs and last_vals:
            res.ok("IO-entry", "export_data.export_sparse_array", desc, prog.loc(esa, tof[0]))
        else:
            res.bad("IO-entry", "export_data.export_sparse_array", desc, prog.loc(esa, tof[0]),
                    "the line is not written as subscripts followed by the value")
    else:
        res.undecided("IO-entry", "export_data.export_sparse_array", desc, prog.loc(esa))
    desc = "sparse entry line read as line[:-1] -> subscripts, line[-1] -> value"
    got = {"subs": None, "vals": None}
    rroles = _reader_roles(isa.node)
    for n in ast.walk(isa.node):
        if isinstance(n, ast.Assign) and isinstance(n.targets[0], ast.Subscript) and isinstance(n.targets[0].value, ast.Name):
            tgt = n.targets[0].value.id
            tgt = "subs" if tgt in rroles["subs"] else ("vals" if tgt in rroles["vals"] else tgt)
            for s in ast.walk(isa.resolve(n.value, keep=tuple(rroles["line"]))):
                if isinstance(s, ast.Subscript) and isinstance(s.value, ast.Name) and s.value.id in (rroles["line"] or {"line"}):
                    sl = s.slice
                    if isinstance(sl, ast.Slice):
                        up = const(sl.upper) if sl.upper is not None else None
                        lo = const(sl.lower) if sl.lower is not None else None
                        got[tgt] = ("slice", lo, up)
                    else:
                        got[tgt] = ("index", const(sl))
    if got.get("subs") == ("slice", None, -1) and got.get("vals") == ("index", -1):
        res.ok("IO-entry", "import_data.import_sparse_array", desc, prog.loc(isa))
    elif got.get("subs") is None or got.get("vals") is None:
        res.undecided("IO-entry", "import_data.import_sparse_array", desc, prog.loc(isa), f"parsed {got}")
    else:
        res.bad("IO-entry", "import_data.import_sparse_array", desc, prog.loc(isa), f"line fields used: {got}")
    desc = "importer builds the sparse tensor with the plain order-preserving constructor"
    body = ib.get("sptensor", [])
    ctor = None
    for st in body:
        for c in calls_in(st):
            nm = dotted(c.func) or ""
            if nm.endswith("sptensor") or ".sptensor." in nm or nm.endswith("from_aggregator"):
                ctor = (nm, c)
    if ctor is None:
        res.undecided("IO-entry", "import_data.import_data", desc, prog.loc(imp))
    elif ctor[0].split(".")[-1] == "sptensor":
        res.ok("IO-entry", "import_data.import_data", desc, prog.loc(imp, ctor[1]))
    else:
        res.bad("IO-entry", "import_data.import_data", desc, prog.loc(imp, ctor[1]),
                f"{ctor[0]} re-orders / aggregates the stored entries")


def _name_is_subs(fn, node) -> bool:
    return isinstance(node, ast.Name) and node.id in _reader_roles(fn)["subs"]


def _reader_roles(fn) -> Dict[str, set]:
    """Names of the sparse reader by role, independent of spelling: `subs` / `vals` are the first / second returned array and every loop
    variable that is a row of them (for s, v in zip(subs, vals); for k, s in enumerate(subs)); `line` is whatever holds a split input line."""
    roles = {"subs": set(), "vals": set(), "line": set()}
    for n in ast.walk(fn):
        if isinstance(n, ast.Return) and isinstance(n.value, ast.Tuple) and len(n.value.elts) == 2 and all(isinstance(x, ast.Name) for x in n.value.elts):
            roles["subs"].add(n.value.elts[0].id)
            roles["vals"].add(n.value.elts[1].id)
        if isinstance(n, ast.Assign) and len(n.targets) == 1 and isinstance(n.targets[0], ast.Name) \
                and any(isinstance(c, ast.Call) and isinstance(c.func, ast.Attribute) and c.func.attr == "readline" for c in ast.walk(n.value)):
            roles["line"].add(n.targets[0].id)
    if not roles["subs"]:
        roles["subs"].add("subs")
        roles["vals"].add("vals")

    def pairs_of(tg, it, depth=0):
        if depth > 3:
            return []
        if isinstance(it, ast.Call) and (dotted(it.func) or "") == "zip" and isinstance(tg, (ast.Tuple, ast.List)) and len(tg.elts) == len(it.args):
            return [p_ for t_, a_ in zip(tg.elts, it.args) for p_ in pairs_of(t_, a_, depth + 1)]
        if isinstance(it, ast.Call) and (dotted(it.func) or "") == "enumerate" and isinstance(tg, (ast.Tuple, ast.List)) and len(tg.elts) == 2 and it.args:
            return pairs_of(tg.elts[1], it.args[0], depth + 1)
        return [(tg, it)]
    for n in ast.walk(fn):
        if isinstance(n, ast.For):
            for t_, a_ in pairs_of(n.target, n.iter):
                if isinstance(t_, ast.Name) and isinstance(a_, ast.Name):
                    for r in ("subs", "vals"):
                        if a_.id in roles[r]:
                            roles[r].add(t_.id)
    return roles


def _written_order(fn_export: ast.FunctionDef, arg: ast.expr) -> Optional[str]:
    """Enumeration order in which `arg.tofile` (C order of arg) lists the entries of the object's array."""
    e = arg
    if isinstance(e, ast.Call) and isinstance(e.func, ast.Attribute) and e.func.attr == "transpose" and not e.args:
        return "F"
    if isinstance(e, ast.Attribute) and e.attr == "T":
        return "F"
    if isinstance(e, ast.Call) and isinstance(e.func, ast.Attribute) and e.func.attr in ("ravel", "flatten", "reshape"):
        o = kwarg(e, "order")
        if o is None and e.func.attr != "reshape" and e.args:
            o = e.args[0]
        if o is None:
            return "C"
        cv = const(o)
        if cv in ("K", "A"):
            return "MEM"  # listing follows the array's memory layout, not its logical order
        return cv if cv in ("F", "C") else None
    if isinstance(e, (ast.Attribute, ast.Name)):
        return "C"
    return None


def _ctor_reshape_order(prog: Program) -> Optional[str]:
    """Order used by tensor.__init__ when it reshapes flat data to the given shape."""
    init = prog.func("tensor.tensor.__init__")
    cls = prog.cls("tensor.tensor")
    orders = set()
    for c in calls_in(init.node):
        nm = (dotted(c.func) or "")
        if nm.split(".")[-1] == "reshape":
            o = kwarg(c, "order")
            if o is None:
                orders.add("C")
            elif const(o) in ("F", "C"):
                orders.add(const(o))
            elif ast.unparse(o) == "self.order":
                orders.add(_class_order(cls))
            else:
                orders.add(None)
    if len(orders) == 1:
        return orders.pop()
    return None


def _class_order(cls) -> Optional[str]:
    m = cls.methods.get("order")
    if m is None:
        return None
    for n in ast.walk(m.node):
        if isinstance(n, ast.Return) and isinstance(n.value, ast.Constant):
            return n.value.value
    return None


def _layout(prog, res, exp, imp, eb, ib) -> None:
    # dense tensor
    body = eb["tensor"]
    worder = None
    wcall = None
    for st in body:
        for c in calls_in(st):
            if (dotted(c.func) or "") == "export_array" and len(c.args) >= 2:
                worder = _written_order(exp.node, c.args[1])
                wcall = c
    ea = prog.func("export_data.export_array")
    # export_array itself must hand the array to tofile unchanged
    passthrough = any(isinstance(c.func, ast.Attribute) and c.func.attr == "tofile" and isinstance(c.func.value, ast.Name)
                      and c.func.value.id == ea.params()[1] for c in calls_in(ea.node))
    # ... or flattens it first: a C-order flatten changes nothing (tofile lists in C order anyway), a memory-order flatten
    # (order="K"/"A") makes the file depend on the array's layout
    inner_mem = None
    for c in calls_in(ea.node):
        if isinstance(c.func, ast.Attribute) and c.func.attr == "tofile" and isinstance(c.func.value, ast.Call):
            r = c.func.value
            nm = dotted(r.func) or ""
            base = nm.split(".")[-1] if nm else (r.func.attr if isinstance(r.func, ast.Attribute) else "")
            if base in ("ravel", "flatten"):
                arr = r.args[0] if nm.startswith(("np.", "numpy.")) and r.args else (r.func.value if isinstance(r.func, ast.Attribute) else None)
                o = kwarg(r, "order")
                if o is None:
                    rest = r.args[1:] if nm.startswith(("np.", "numpy.")) else r.args
                    o = rest[0] if rest else None
                if isinstance(arr, ast.Name) and arr.id == ea.params()[1]:
                    cv = "C" if o is None else const(o)
                    if cv == "C":
                        passthrough = True
                    elif cv in ("K", "A"):
                        inner_mem = c
    rorder = None
    rcall = None
    for st in ib["tensor"]:
        for c in calls_in(st):
            nm = dotted(c.func) or ""
            if nm.split(".")[-1] == "tensor":
                rorder = _ctor_reshape_order(prog)
                rcall = c
            if nm.split(".")[-1] == "reshape":
                o = kwarg(c, "order")
                rorder = "C" if o is None else (const(o) if const(o) in ("F", "C") else None)
                rcall = c
    desc = "dense tensor: enumeration order written == order rebuilt on import"
    where = prog.loc(exp, wcall) if wcall is not None else prog.loc(exp)
    if inner_mem is not None:
        res.bad("IO-layout", "export_data.export_data", desc, prog.loc(ea, inner_mem),
                "export_array flattens what it is given in MEMORY order (order='K'/'A') before writing: an F-contiguous array (a factor matrix, "
                "the result of double(), a transposed matrix) is then written column by column while the importer rebuilds row by row")
    elif worder == "MEM":
        res.bad("IO-layout", "export_data.export_data", desc, where,
                "the data is flattened in MEMORY order (order='K'/'A'): the file order then depends on how the array happens to be laid out "
                "(a tensor whose data is C-contiguous, e.g. after growth by assignment, is written in C order) while the importer rebuilds in F order")
    elif worder is None or rorder is None or not passthrough:
        res.undecided("IO-layout", "export_data.export_data", desc, where, f"written {worder}, read {rorder}, passthrough {passthrough}")
    elif worder == rorder:
        res.ok("IO-layout", "export_data.export_data", desc, where, f"written {worder}, rebuilt {rorder}")
    else:
        res.bad("IO-layout", "export_data.export_data", desc, where,
                f"file lists entries in {worder} order, importer rebuilds in {rorder} order: every non-symmetric tensor changes")

    # matrix
    worder = None
    for st in eb["matrix"]:
        for c in calls_in(st):
            if (dotted(c.func) or "") == "export_array" and len(c.args) >= 2:
                worder = _written_order(exp.node, c.args[1])
                wcall = c
    rorder = _reshape_order_in(ib["matrix"], prog, imp.module)
    desc = "matrix: enumeration order written == order rebuilt on import"
    where = prog.loc(exp, wcall) if wcall is not None else prog.loc(exp)
    if worder is None or rorder is None:
        res.undecided("IO-layout", "export_data.export_data", desc, where, f"written {worder}, read {rorder}")
    elif worder == rorder:
        res.ok("IO-layout", "export_data.export_data", desc, where, f"written {worder}, rebuilt {rorder}")
    else:
        res.bad("IO-layout", "export_data.export_data", desc, where, f"written {worder}, rebuilt {rorder}")

    # factor matrices: row by row
    ef = prog.func("export_data.export_factor")
    worder = None
    p = ef.params()[1]
    for n in ast.walk(ef.node):
        if isinstance(n, ast.For) and isinstance(n.target, ast.Name):
            i = n.target.id
            rng = ef.rtext(n.iter)          # `num_rows = data.shape[0]; range(num_rows)` reads as range(data.shape[0])
            for s in ast.walk(n):
                if isinstance(s, ast.Subscript) and isinstance(s.value, ast.Name) and s.value.id == p and isinstance(s.slice, ast.Tuple) \
                        and len(s.slice.elts) == 2:
                    a, b = s.slice.elts
                    if isinstance(a, ast.Name) and a.id == i and isinstance(b, ast.Slice) and "shape[0]" in rng:
                        worder = "C"  # row by row
                    if isinstance(b, ast.Name) and b.id == i and isinstance(a, ast.Slice) and "shape[1]" in rng:
                        worder = "F"  # column by column
    if worder is None:
        for c in calls_in(ef.node):
            if isinstance(c.func, ast.Attribute) and c.func.attr == "tofile":
                worder = _written_order(ef.node, c.func.value)
    rorder = _reshape_order_in(ib["ktensor"], prog, imp.module)
    desc = "factor matrix: enumeration order written == order rebuilt on import"
    where = prog.loc(ef)
    if worder is None or rorder is None:
        res.undecided("IO-layout", "export_data.export_factor", desc, where, f"written {worder}, read {rorder}")
    elif worder == rorder:
        res.ok("IO-layout", "export_data.export_factor", desc, where, f"written {worder}, rebuilt {rorder}")
    else:
        res.bad("IO-layout", "export_data.export_factor", desc, where,
                f"rows written in {worder} order, importer reshapes in {rorder} order: non-square factors are scrambled")


def _reshape_order_in(body, prog=None, module=None, depth=0) -> Optional[str]:
    """Order of the reshape that rebuilds the matrix in `body`, following calls of helpers of the same module."""
    r = None
    for st in body:
        for n in ast.walk(st):
            if isinstance(n, ast.Call) and (dotted(n.func) or "").split(".")[-1] == "reshape":
                o = kwarg(n, "order")
                r = "C" if o is None else (const(o) if const(o) in ("F", "C") else None)
            elif isinstance(n, ast.Call) and prog is not None and depth < 3:
                q = f"{module}.{dotted(n.func) or ''}"
                if q in prog.functions:
                    sub = _reshape_order_in(prog.functions[q].node.body, prog, module, depth + 1)
                    if sub is not None:
                        r = sub
    return r
