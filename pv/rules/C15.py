"""C15 — symmetrisation averages over mode permutations and the symmetry test is exact.

Decided (E3 on tensor.symmetrize / tensor.issymmetric and the Kruskal versions):
  EO-2   every element-wise pairing of two listings of the tensor's entries (data flattened by
         ravel/flatten/reshape vs. class indices enumerated by tt_ind2sub / tt_sub2ind, accumarray(index, value),
         reshape of a listing back to N-D) uses the same listing order on both sides, in both algorithm versions
  EO-1   reshape-family calls in these functions pass an order that evaluates to F (or are reviewed order-irrelevant)
  EXACT  symmetry is decided by exact comparisons (no allclose / isclose in these functions)
  GRP    the group guards exist: modes of a group have equal sizes, groups do not overlap (guard atoms, E5)
Not decided: averaging numerics, idempotence, agreement of the two versions, the Kruskal average itself.
"""
from __future__ import annotations

import ast

from ..model import Program, AnalysisError
from ..report import Result
from .. import guards as G
from . import eo_common as E

FUNCS = ["tensor.tensor.symmetrize", "tensor.tensor.issymmetric", "ktensor.ktensor.symmetrize", "ktensor.ktensor.issymmetric"]


def check(prog: Program, res: Result, tier: str) -> None:
    res.explanation = __doc__.split("\n\n", 1)[1]
    res.assumptions = ["numpy default order of ravel/flatten/reshape is C; tt_ind2sub/tt_sub2ind default to F (checked by C17)",
                       "class `order` properties evaluate to F (EO-cls under C01)"]
    res.floors = {"EO-2": 5, "EO-1": 7, "GRP": 3, "EXACT": 4}
    for f in FUNCS:
        prog.func(f)
    sel = lambda fi: fi.short in FUNCS
    E.eo2(prog, res, sel)
    E.eo1(prog, res, sel)
    # group guards
    for short, needles in (("tensor.tensor.symmetrize", ["Dimension mismatch", "overlapping"]),
                           ("ktensor.ktensor.symmetrize", ["cubic"])):
        fi = prog.func(short)
        scan = G.GuardScan(fi)
        for nd in needles:
            hit = [r for r in scan.raises if nd.lower() in r.msg.lower()]
            desc = f"rejects ill-formed groups ({nd})"
            if hit and all(r.conds for r in hit):
                res.ok("GRP", short, desc, f"{prog.rel(fi.path)}:{hit[0].line}", hit[0].key()[:160])
            elif hit:
                res.bad("GRP", short, desc, f"{prog.rel(fi.path)}:{hit[0].line}", "the rejection is unconditional / detached from its test")
            else:
                res.bad("GRP", short, desc, prog.loc(fi), "the group guard is gone")
    # exactness: symmetry decisions compare exactly
    for short in FUNCS:
        fi = prog.func(short)
        approx = [c for c in ast.walk(fi.node) if isinstance(c, ast.Call) and (E.dotted(c.func) or "").split(".")[-1] in ("allclose", "isclose")]
        desc = "symmetry is decided by exact comparison (no tolerance)"
        if approx:
            res.bad("EXACT", short, desc, prog.loc(fi, approx[0]),
                    f"`{ast.unparse(approx[0])[:90]}` accepts nearly symmetric data as symmetric: the result is then not the exact average / "
                    "the test answers True for a tensor that is not invariant")
        else:
            res.ok("EXACT", short, desc, prog.loc(fi), nontrivial=False)
    fi = prog.func("tensor.tensor.issymmetric")
    # the size test of the symmetry check answers False (it does not raise)
    has = any(isinstance(n, ast.Return) and isinstance(n.value, ast.Constant) and n.value.value is False for n in ast.walk(fi.node))
    if has:
        res.ok("GRP", fi.short, "answers False for groups of unequal mode sizes", prog.loc(fi), nontrivial=False)
