"""C15 — symmetrisation averages over mode permutations and the symmetry test is exact.

Decided (E3 on tensor.symmetrize / tensor.issymmetric and the Kruskal versions):
  EO-2   every element-wise pairing of two listings of the tensor's entries (data flattened by
         ravel/flatten/reshape vs. class indices enumerated by tt_ind2sub / tt_sub2ind, accumarray(index, value),
         reshape of a listing back to N-D) uses the same listing order on both sides, in both algorithm versions
  EO-1   reshape-family calls in these functions pass an order that evaluates to F (or are reviewed order-irrelevant)
  EXACT  symmetry is decided by exact comparisons (no allclose / isclose in these functions)
  ALLGRP in the symmetry tests the verdict of every group / pair of modes reaches the answer: no loop overwrites a
         plain verdict variable on every iteration and reads it only after the loop ("the last group decides")
         ... and the group loop of symmetrize (the loop that updates the running copy) has no `break` / `return`: a group that needs no
         work is skipped with `continue`, leaving the loop would drop every later group
  BCAST    no element-wise operation pairs a column `E[:, k]` of an index matrix with the matrix `E` itself (numpy lines the column up with
           the LAST axis: groups are compared with each other); zero sites on the pinned tree, fixtures
  CARRY    symmetrisation over several groups reads the running copy inside the group loop, never the receiver's original data
  SIGNPAIR in ktensor.symmetrize every negation of a factor column (sign alignment against the first factor, repair of
         negative weights for odd order) is paired in the same block, with the same column selector, with a NEGATION of
         the weight (a toggle): overwriting the weight with a constant loses the sign after a second flip
  GRP    the group guards exist: modes of a group have equal sizes, groups do not overlap (guard atoms, E5)
Not decided: averaging numerics, idempotence, agreement of the two versions, the Kruskal average itself.
"""
from __future__ import annotations

import ast

from ..model import Program, AnalysisError, dotted
from ..report import Result
from .. import guards as G
from . import eo_common as E

FUNCS = ["tensor.tensor.symmetrize", "tensor.tensor.issymmetric", "ktensor.ktensor.symmetrize", "ktensor.ktensor.issymmetric"]


def _column_vs_matrix(fn: ast.AST):
    """Element-wise operations whose one operand is the other with `E[:, k]` in place of `E` (sz[g[:, 0]] == sz[g]): the column has one
    axis less, so numpy lines it up with the LAST axis of the matrix - rows are compared with the wrong group unless the matrix is
    square (E[:, [k]] / E[:, k:k+1] / E[:, k][:, None] keep the axis).  Yields (node, column expression)."""
    import copy

    class Widen(ast.NodeTransformer):
        def __init__(self):
            self.hit = None

        def visit_Subscript(self, n):
            self.generic_visit(n)
            sl = n.slice
            if isinstance(sl, ast.Tuple) and len(sl.elts) == 2 and isinstance(sl.elts[0], ast.Slice) and sl.elts[0].lower is None \
                    and sl.elts[0].upper is None and sl.elts[0].step is None and isinstance(sl.elts[1], ast.Constant) and isinstance(sl.elts[1].value, int):
                self.hit = n
                return n.value
            return n
    for n in ast.walk(fn):
        pairs = []
        if isinstance(n, ast.Compare) and len(n.ops) == 1:
            pairs = [(n.left, n.comparators[0]), (n.comparators[0], n.left)]
        elif isinstance(n, ast.BinOp) and isinstance(n.op, (ast.Add, ast.Sub, ast.Mult, ast.Div)):
            pairs = [(n.left, n.right), (n.right, n.left)]
        for a, b in pairs:
            w = Widen()
            widened = w.visit(copy.deepcopy(a))
            if w.hit is not None and ast.unparse(widened) == ast.unparse(b):
                yield n, w.hit


BCAST_FIXTURE = ("def f(sz, grps):\n    return bool(np.all(sz[grps[:, 0]] == sz[grps]))\n",
                 "def f(sz, grps):\n    return bool(np.all(sz[grps[:, :1]] == sz[grps]))\n")


def bcast(prog: Program, res: Result) -> None:
    if len(list(_column_vs_matrix(ast.parse(BCAST_FIXTURE[0])))) != 1 or list(_column_vs_matrix(ast.parse(BCAST_FIXTURE[1]))):
        raise AnalysisError("BCAST fixtures not recognised")
    for short in FUNCS:
        fi = prog.func(short)
        for node, col in _column_vs_matrix(fi.node):
            res.bad("BCAST", short, "a column of an index matrix is compared with the matrix along its own axis",
                    prog.loc(fi, node),
                    f"`{ast.unparse(node)[:70]}`: `{ast.unparse(col)}` has one axis less than the matrix and is lined up with its LAST axis, so the "
                    "entries of one group are compared with another group's (and the shapes do not even fit unless groups x members is square); "
                    "keep the axis with [:, [k]] / [:, k:k+1]")


def carried(prog: Program, res: Result) -> None:
    """Symmetrising over several mode groups works on ONE running copy of the data: group k+1 averages what group k produced.  A local that is
    initialised from the receiver's data before the group loop, re-assigned inside it and returned after it is such a running copy; reading the
    receiver's own data (as values) inside the loop discards the work of the earlier groups."""
    for short in FUNCS:
        fi = prog.func(short)
        me = fi.params()[0] if fi.params() else "self"
        for loop in [n for n in ast.walk(fi.node) if isinstance(n, ast.For)]:
            inside = list(ast.walk(loop))
            assigned_in = {t.id for n in inside if isinstance(n, ast.Assign) for t in n.targets if isinstance(t, ast.Name)}
            for w in sorted(assigned_in):
                init = [a for a in ast.walk(fi.node) if isinstance(a, ast.Assign) and a not in inside and a.lineno < loop.lineno
                        and any(isinstance(t, ast.Name) and t.id == w for t in a.targets) and f"{me}.data" in ast.unparse(a.value)]
                returned = any(isinstance(r, ast.Return) and r not in inside and r.value is not None
                               and any(isinstance(x, ast.Name) and x.id == w for x in ast.walk(r.value)) for r in ast.walk(fi.node))
                if not init or not returned:
                    continue
                parents = {}
                for x in inside:
                    for c in ast.iter_child_nodes(x):
                        parents[id(c)] = x
                stale = [x for x in inside if isinstance(x, ast.Attribute) and x.attr == "data" and isinstance(x.value, ast.Name) and x.value.id == me
                         and not (isinstance(parents.get(id(x)), ast.Attribute) and parents[id(x)].attr in ("size", "shape", "ndim", "dtype"))]
                desc = f"inside the group loop the values come from the running copy `{w}`, not from the receiver's own data"
                if stale:
                    res.bad("CARRY", short, desc, prog.loc(fi, stale[0]),
                            f"`{me}.data` is read inside the loop that updates `{w}`: each group starts again from the original tensor, so only the "
                            "last group that needed work is symmetrised")
                else:
                    res.ok("CARRY", short, desc, prog.loc(fi, loop))
                # ... and every group gets its turn: the loop is not left early (a `continue` skips one group that needs no work, a `break`
                # / `return` drops all the later ones)
                def own_exits(body):
                    for st in body:
                        if isinstance(st, (ast.Break, ast.Return)):
                            yield st
                        elif isinstance(st, (ast.For, ast.While)):
                            for x in ast.walk(st):
                                if isinstance(x, ast.Return):
                                    yield x
                            yield from own_exits(st.orelse)
                        elif isinstance(st, (ast.FunctionDef, ast.AsyncFunctionDef, ast.ClassDef)):
                            continue
                        else:
                            for f in ("body", "orelse", "finalbody"):
                                b = getattr(st, f, None)
                                if isinstance(b, list) and b and isinstance(b[0], ast.stmt):
                                    yield from own_exits(b)
                            for h in getattr(st, "handlers", []) or []:
                                yield from own_exits(h.body)
                desc2 = f"every group of the loop that updates `{w}` is processed (the loop is not left early)"
                exits = list(own_exits(loop.body))
                if exits:
                    kind = "break" if isinstance(exits[0], ast.Break) else "return"
                    res.bad("ALLGRP", short, desc2, prog.loc(fi, exits[0]),
                            f"`{kind}` leaves the group loop: the groups listed after the current one are never averaged, so the result is not "
                            "symmetric in them (a group that needs no work is skipped with `continue`)")
                else:
                    res.ok("ALLGRP", short, desc2, prog.loc(fi, loop))


def check(prog: Program, res: Result, tier: str) -> None:
    res.explanation = __doc__.split("\n\n", 1)[1]
    res.assumptions = ["numpy default order of ravel/flatten/reshape is C; tt_ind2sub/tt_sub2ind default to F (checked by C17)",
                       "class `order` properties evaluate to F (EO-cls under C01)"]
    res.floors = {"EO-2": 5, "EO-1": 7, "GRP": 3, "EXACT": 4, "ALLGRP": 4, "SIGNPAIR": 2}
    for f in FUNCS:
        prog.func(f)
    sel = lambda fi: fi.short in FUNCS
    E.eo2(prog, res, sel)
    E.eo1(prog, res, sel)
    # group guards
    for short, needles in (("tensor.tensor.symmetrize", ["Dimension mismatch", "overlapping"]),
                           ("ktensor.ktensor.symmetrize", ["cubic"])):
        fi = prog.func(short)
        scan = G.GuardScan(fi)
        for nd in needles:
            hit = [r for r in scan.raises if nd.lower() in r.msg.lower()]
            desc = f"rejects ill-formed groups ({nd})"
            if hit and all(r.conds for r in hit):
                res.ok("GRP", short, desc, f"{prog.rel(fi.path)}:{hit[0].line}", hit[0].key()[:160])
            elif hit:
                res.bad("GRP", short, desc, f"{prog.rel(fi.path)}:{hit[0].line}", "the rejection is unconditional / detached from its test")
            else:
                res.bad("GRP", short, desc, prog.loc(fi), "the group guard is gone")
    # exactness: symmetry decisions compare exactly
    for short in FUNCS:
        fi = prog.func(short)
        approx = [c for c in ast.walk(fi.node) if isinstance(c, ast.Call) and (E.dotted(c.func) or "").split(".")[-1] in ("allclose", "isclose")]
        desc = "symmetry is decided by exact comparison (no tolerance)"
        if approx:
            res.bad("EXACT", short, desc, prog.loc(fi, approx[0]),
                    f"`{ast.unparse(approx[0])[:90]}` accepts nearly symmetric data as symmetric: the result is then not the exact average / "
                    "the test answers True for a tensor that is not invariant")
        else:
            res.ok("EXACT", short, desc, prog.loc(fi), nontrivial=False)
    fi = prog.func("tensor.tensor.issymmetric")
    # the size test of the symmetry check answers False (it does not raise)
    has = any(isinstance(n, ast.Return) and isinstance(n.value, ast.Constant) and n.value.value is False for n in ast.walk(fi.node))
    if has:
        res.ok("GRP", fi.short, "answers False for groups of unequal mode sizes", prog.loc(fi), nontrivial=False)

    sign_pairs(prog, res)
    bcast(prog, res)
    carried(prog, res)
    # every iteration's verdict reaches the answer
    for short in ("tensor.tensor.issymmetric", "ktensor.ktensor.issymmetric"):
        fi = prog.func(short)
        for loop, bad in last_iteration_wins(fi.node):
            desc = f"every iteration of the loop over `{ast.unparse(loop.iter)[:50]}` contributes to the answer"
            if bad:
                name, use = bad
                res.bad("ALLGRP", short, desc, prog.loc(fi, loop),
                        f"`{name}` is overwritten on every iteration (its new value does not depend on the previous one, and no exit inside "
                        f"the loop tests it) and is read only after the loop (`{ast.unparse(use)[:70]}`): only the last iteration decides")
            else:
                res.ok("ALLGRP", short, desc, prog.loc(fi, loop))


def _names_read(node) -> set:
    return {n.id for n in ast.walk(node) if isinstance(n, ast.Name) and isinstance(n.ctx, ast.Load)}


def last_iteration_wins(fn: ast.AST):
    """For every for-loop of fn: (loop, None) or (loop, (name, first statement after the loop that reads it))."""
    out = []

    def blocks(node):
        for f in ("body", "orelse", "finalbody"):
            b = getattr(node, f, None)
            if isinstance(b, list) and b and isinstance(b[0], ast.stmt):
                yield b
        for h in getattr(node, "handlers", []) or []:
            yield h.body

    def visit(body, following):
        # `following`: statements executed after this block ends (innermost first), up to the end of the function
        for i, st in enumerate(body):
            after = body[i + 1:] + following
            if isinstance(st, (ast.FunctionDef, ast.AsyncFunctionDef, ast.ClassDef)):
                continue
            if isinstance(st, ast.For):
                out.append((st, verdict(st, after)))
                visit(st.body, [])      # inner loops are judged against their own continuation only when it is the loop body's end
                visit(st.orelse, after)
                continue
            for b in blocks(st):
                visit(b, after)

    def verdict(loop: ast.For, after):
        loopvars = {n.id for n in ast.walk(loop.target) if isinstance(n, ast.Name)}
        cands = {}
        for n in ast.walk(loop):
            if isinstance(n, ast.Assign) and len(n.targets) == 1 and isinstance(n.targets[0], ast.Name):
                nm = n.targets[0].id
                if nm in loopvars:
                    continue
                cands.setdefault(nm, []).append(n)
            elif isinstance(n, ast.AugAssign) and isinstance(n.target, ast.Name):
                cands.setdefault(n.target.id, []).append(None)   # accumulation
        for nm, defs in cands.items():
            if any(d is None or nm in _names_read(d.value) for d in defs):
                continue            # accumulates
            # tested by an exit inside the loop?
            tested = False
            for n in ast.walk(loop):
                if isinstance(n, (ast.If, ast.While)) and nm in _names_read(n.test):
                    if any(isinstance(x, (ast.Return, ast.Break, ast.Raise)) for b in (n.body, n.orelse) for s_ in b for x in ast.walk(s_)):
                        tested = True
            if tested:
                continue
            # read inside the loop in a way that carries it (store into a container / accumulation)?
            carried = False
            for n in ast.walk(loop):
                if isinstance(n, (ast.Assign, ast.AugAssign)):
                    tgt = n.targets[0] if isinstance(n, ast.Assign) else n.target
                    if not (isinstance(tgt, ast.Name) and tgt.id == nm) and nm in _names_read(n.value):
                        carried = True
                elif isinstance(n, ast.Call) and isinstance(n.func, ast.Attribute) and n.func.attr in ("append", "extend", "add", "update") \
                        and any(nm in _names_read(a) for a in n.args):
                    carried = True
            if carried:
                continue
            # first read after the loop before a re-definition
            for st in after:
                if isinstance(st, ast.Assign) and len(st.targets) == 1 and isinstance(st.targets[0], ast.Name) and st.targets[0].id == nm \
                        and nm not in _names_read(st.value):
                    break
                if nm in _names_read(st):
                    return (nm, st)
        return None

    visit(fn.body, [])
    return out


def _is_negation_of_target(st: ast.stmt):
    """(target text, selector text) for `T[.., sel] = -T[.., sel]`, `T[sel] = -T[sel]`, `T[..] *= -1`; None otherwise."""
    if isinstance(st, ast.Assign) and len(st.targets) == 1 and isinstance(st.targets[0], ast.Subscript):
        t, v = st.targets[0], st.value
        neg = (isinstance(v, ast.UnaryOp) and isinstance(v.op, ast.USub) and ast.unparse(v.operand) == ast.unparse(t)) or \
              (isinstance(v, ast.BinOp) and isinstance(v.op, ast.Mult) and ((E.const(v.left) == -1 and ast.unparse(v.right) == ast.unparse(t))
                                                                           or (E.const(v.right) == -1 and ast.unparse(v.left) == ast.unparse(t))))
        if neg:
            return t
    if isinstance(st, ast.AugAssign) and isinstance(st.op, ast.Mult) and isinstance(st.target, ast.Subscript) and \
            (E.const(st.value) == -1 or (isinstance(st.value, ast.UnaryOp) and isinstance(st.value.op, ast.USub) and E.const(st.value.operand) == 1)):
        return st.target
    return None


def _selector(t: ast.Subscript) -> str:
    sl = t.slice
    if isinstance(sl, ast.Tuple):
        parts = [x for x in sl.elts if not (isinstance(x, ast.Slice) and x.lower is None and x.upper is None and x.step is None)]
        sl = parts[-1] if parts else sl
    x = sl
    while isinstance(x, ast.List) and len(x.elts) == 1:      # [:, [j]]  ~  [:, j]
        x = x.elts[0]
    return ast.unparse(x)


def sign_pairs(prog: Program, res: Result) -> None:
    fi = prog.func("ktensor.ktensor.symmetrize")
    # names bound to the weights vector / to factor matrices of the working copy
    weight_names, matrix_names = set(), set()
    for n in ast.walk(fi.node):
        if isinstance(n, ast.Assign) and len(n.targets) == 1 and isinstance(n.targets[0], ast.Name):
            v = ast.unparse(n.value)
            if v.endswith(".weights") or v.endswith(".weights.copy()"):
                weight_names.add(n.targets[0].id)
    changed = True
    fm_lists = set()
    for n in ast.walk(fi.node):
        if isinstance(n, ast.Assign) and len(n.targets) == 1 and isinstance(n.targets[0], ast.Name) and ast.unparse(n.value).endswith(".factor_matrices"):
            fm_lists.add(n.targets[0].id)
    # loop variables that range over the factor matrices (for m in K.factor_matrices[1:], for i, m in enumerate(fms))
    for n in ast.walk(fi.node):
        if isinstance(n, ast.For):
            tgt, it = n.target, n.iter
            if isinstance(it, ast.Call) and (dotted(it.func) or "") == "enumerate" and it.args and isinstance(tgt, ast.Tuple) and len(tgt.elts) == 2:
                tgt, it = tgt.elts[1], it.args[0]
            while isinstance(it, ast.Subscript) and isinstance(it.slice, ast.Slice):
                it = it.value
            if isinstance(tgt, ast.Name) and (ast.unparse(it).endswith(".factor_matrices") or (isinstance(it, ast.Name) and it.id in fm_lists)):
                matrix_names.add(tgt.id)
    while changed:
        changed = False
        for n in ast.walk(fi.node):
            if isinstance(n, ast.Assign) and len(n.targets) == 1 and isinstance(n.targets[0], ast.Name) and n.targets[0].id not in matrix_names:
                v = n.value
                srcs = {x.id for x in ast.walk(v) if isinstance(x, ast.Name)}
                if (isinstance(v, ast.Subscript) and (ast.unparse(v.value).endswith(".factor_matrices") or (isinstance(v.value, ast.Name) and v.value.id in fm_lists))) \
                        or (srcs & matrix_names and not isinstance(v, ast.Call)):
                    matrix_names.add(n.targets[0].id)
                    changed = True

    def blocks(node):
        for f in ("body", "orelse"):
            b = getattr(node, f, None)
            if isinstance(b, list) and b and isinstance(b[0], ast.stmt):
                yield b
                for st in b:
                    yield from blocks(st)
    k = 0
    for body in blocks(fi.node):
        flips = []
        for st in body:
            t = _is_negation_of_target(st)
            if t is not None and isinstance(t.value, ast.Name) and t.value.id in matrix_names:
                flips.append((st, t))
        for st, t in flips:
            k += 1
            sel = _selector(t)
            desc = f"sign flip #{k} of a factor column (`{ast.unparse(t.value)}`) toggles the weight of the same component"
            wst = [x for x in body if (isinstance(x, (ast.Assign, ast.AugAssign)))
                   and isinstance((x.targets[0] if isinstance(x, ast.Assign) else x.target), ast.Subscript)
                   and isinstance((x.targets[0] if isinstance(x, ast.Assign) else x.target).value, ast.Name)
                   and (x.targets[0] if isinstance(x, ast.Assign) else x.target).value.id in weight_names]
            if not wst:
                res.bad("SIGNPAIR", fi.short, desc, prog.loc(fi, st), "no weight is updated in the same block: the component changes sign")
                continue
            w = wst[0]
            wt = w.targets[0] if isinstance(w, ast.Assign) else w.target
            if _is_negation_of_target(w) is None:
                res.bad("SIGNPAIR", fi.short, desc, prog.loc(fi, w),
                        f"`{ast.unparse(w)[:60]}` overwrites the weight instead of negating it: a component whose column is flipped in an even number "
                        "of modes must end with its original sign")
            elif _selector(wt) != sel:
                res.bad("SIGNPAIR", fi.short, desc, prog.loc(fi, w), f"the weight is negated for `{_selector(wt)}` but the column for `{sel}`")
            else:
                res.ok("SIGNPAIR", fi.short, desc, prog.loc(fi, st))
    if k == 0:
        res.undecided("SIGNPAIR", fi.short, "sign flips of factor columns toggle the weight", prog.loc(fi), "no column negation recognised")
