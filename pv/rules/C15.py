"""C15 — symmetrisation averages over mode permutations and the symmetry test is exact.

Decided (E3 on tensor.symmetrize / tensor.issymmetric and the Kruskal versions):
  EO-2   every element-wise pairing of two listings of the tensor's entries (data flattened by
         ravel/flatten/reshape vs. class indices enumerated by tt_ind2sub / tt_sub2ind, accumarray(index, value),
         reshape of a listing back to N-D) uses the same listing order on both sides, in both algorithm versions
  EO-1   reshape-family calls in these functions pass an order that evaluates to F (or are reviewed order-irrelevant)
  EXACT  symmetry is decided by exact comparisons (no allclose / isclose in these functions)
  ALLGRP in the symmetry tests the verdict of every group / pair of modes reaches the answer: no loop overwrites a
         plain verdict variable on every iteration and reads it only after the loop ("the last group decides")
  GRP    the group guards exist: modes of a group have equal sizes, groups do not overlap (guard atoms, E5)
Not decided: averaging numerics, idempotence, agreement of the two versions, the Kruskal average itself.
"""
from __future__ import annotations

import ast

from ..model import Program, AnalysisError
from ..report import Result
from .. import guards as G
from . import eo_common as E

FUNCS = ["tensor.tensor.symmetrize", "tensor.tensor.issymmetric", "ktensor.ktensor.symmetrize", "ktensor.ktensor.issymmetric"]


def check(prog: Program, res: Result, tier: str) -> None:
    res.explanation = __doc__.split("\n\n", 1)[1]
    res.assumptions = ["numpy default order of ravel/flatten/reshape is C; tt_ind2sub/tt_sub2ind default to F (checked by C17)",
                       "class `order` properties evaluate to F (EO-cls under C01)"]
    res.floors = {"EO-2": 5, "EO-1": 7, "GRP": 3, "EXACT": 4, "ALLGRP": 4}
    for f in FUNCS:
        prog.func(f)
    sel = lambda fi: fi.short in FUNCS
    E.eo2(prog, res, sel)
    E.eo1(prog, res, sel)
    # group guards
    for short, needles in (("tensor.tensor.symmetrize", ["Dimension mismatch", "overlapping"]),
                           ("ktensor.ktensor.symmetrize", ["cubic"])):
        fi = prog.func(short)
        scan = G.GuardScan(fi)
        for nd in needles:
            hit = [r for r in scan.raises if nd.lower() in r.msg.lower()]
            desc = f"rejects ill-formed groups ({nd})"
            if hit and all(r.conds for r in hit):
                res.ok("GRP", short, desc, f"{prog.rel(fi.path)}:{hit[0].line}", hit[0].key()[:160])
            elif hit:
                res.bad("GRP", short, desc, f"{prog.rel(fi.path)}:{hit[0].line}", "the rejection is unconditional / detached from its test")
            else:
                res.bad("GRP", short, desc, prog.loc(fi), "the group guard is gone")
    # exactness: symmetry decisions compare exactly
    for short in FUNCS:
        fi = prog.func(short)
        approx = [c for c in ast.walk(fi.node) if isinstance(c, ast.Call) and (E.dotted(c.func) or "").split(".")[-1] in ("allclose", "isclose")]
        desc = "symmetry is decided by exact comparison (no tolerance)"
        if approx:
            res.bad("EXACT", short, desc, prog.loc(fi, approx[0]),
                    f"`{ast.unparse(approx[0])[:90]}` accepts nearly symmetric data as symmetric: the result is then not the exact average / "
                    "the test answers True for a tensor that is not invariant")
        else:
            res.ok("EXACT", short, desc, prog.loc(fi), nontrivial=False)
    fi = prog.func("tensor.tensor.issymmetric")
    # the size test of the symmetry check answers False (it does not raise)
    has = any(isinstance(n, ast.Return) and isinstance(n.value, ast.Constant) and n.value.value is False for n in ast.walk(fi.node))
    if has:
        res.ok("GRP", fi.short, "answers False for groups of unequal mode sizes", prog.loc(fi), nontrivial=False)

    # every iteration's verdict reaches the answer
    for short in ("tensor.tensor.issymmetric", "ktensor.ktensor.issymmetric"):
        fi = prog.func(short)
        for loop, bad in last_iteration_wins(fi.node):
            desc = f"every iteration of the loop over `{ast.unparse(loop.iter)[:50]}` contributes to the answer"
            if bad:
                name, use = bad
                res.bad("ALLGRP", short, desc, prog.loc(fi, loop),
                        f"`{name}` is overwritten on every iteration (its new value does not depend on the previous one, and no exit inside "
                        f"the loop tests it) and is read only after the loop (`{ast.unparse(use)[:70]}`): only the last iteration decides")
            else:
                res.ok("ALLGRP", short, desc, prog.loc(fi, loop))


def _names_read(node) -> set:
    return {n.id for n in ast.walk(node) if isinstance(n, ast.Name) and isinstance(n.ctx, ast.Load)}


def last_iteration_wins(fn: ast.AST):
    """For every for-loop of fn: (loop, None) or (loop, (name, first statement after the loop that reads it))."""
    out = []

    def blocks(node):
        for f in ("body", "orelse", "finalbody"):
            b = getattr(node, f, None)
            if isinstance(b, list) and b and isinstance(b[0], ast.stmt):
                yield b
        for h in getattr(node, "handlers", []) or []:
            yield h.body

    def visit(body, following):
        # `following`: statements executed after this block ends (innermost first), up to the end of the function
        for i, st in enumerate(body):
            after = body[i + 1:] + following
            if isinstance(st, (ast.FunctionDef, ast.AsyncFunctionDef, ast.ClassDef)):
                continue
            if isinstance(st, ast.For):
                out.append((st, verdict(st, after)))
                visit(st.body, [])      # inner loops are judged against their own continuation only when it is the loop body's end
                visit(st.orelse, after)
                continue
            for b in blocks(st):
                visit(b, after)

    def verdict(loop: ast.For, after):
        loopvars = {n.id for n in ast.walk(loop.target) if isinstance(n, ast.Name)}
        cands = {}
        for n in ast.walk(loop):
            if isinstance(n, ast.Assign) and len(n.targets) == 1 and isinstance(n.targets[0], ast.Name):
                nm = n.targets[0].id
                if nm in loopvars:
                    continue
                cands.setdefault(nm, []).append(n)
            elif isinstance(n, ast.AugAssign) and isinstance(n.target, ast.Name):
                cands.setdefault(n.target.id, []).append(None)   # accumulation
        for nm, defs in cands.items():
            if any(d is None or nm in _names_read(d.value) for d in defs):
                continue            # accumulates
            # tested by an exit inside the loop?
            tested = False
            for n in ast.walk(loop):
                if isinstance(n, (ast.If, ast.While)) and nm in _names_read(n.test):
                    if any(isinstance(x, (ast.Return, ast.Break, ast.Raise)) for b in (n.body, n.orelse) for s_ in b for x in ast.walk(s_)):
                        tested = True
            if tested:
                continue
            # read inside the loop in a way that carries it (store into a container / accumulation)?
            carried = False
            for n in ast.walk(loop):
                if isinstance(n, (ast.Assign, ast.AugAssign)):
                    tgt = n.targets[0] if isinstance(n, ast.Assign) else n.target
                    if not (isinstance(tgt, ast.Name) and tgt.id == nm) and nm in _names_read(n.value):
                        carried = True
                elif isinstance(n, ast.Call) and isinstance(n.func, ast.Attribute) and n.func.attr in ("append", "extend", "add", "update") \
                        and any(nm in _names_read(a) for a in n.args):
                    carried = True
            if carried:
                continue
            # first read after the loop before a re-definition
            for st in after:
                if isinstance(st, ast.Assign) and len(st.targets) == 1 and isinstance(st.targets[0], ast.Name) and st.targets[0].id == nm \
                        and nm not in _names_read(st.value):
                    break
                if nm in _names_read(st):
                    return (nm, st)
        return None

    visit(fn.body, [])
    return out
