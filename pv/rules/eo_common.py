"""Shared rule instantiations of the E3 engine (pv/eo.py) used by C01 C02 C07 C15 C17."""
from __future__ import annotations

import ast
import json
import os
from typing import Callable, Dict, Iterable, List, Optional, Set

from ..model import Program, FuncInfo, dotted, kwarg, const, AnalysisError, TENSOR_CLASSES
from ..report import Result, VERIF
from .. import eo

_cache: Dict[int, dict] = {}


def facts(prog: Program) -> dict:
    k = id(prog)
    if k not in _cache or _cache[k].get("prog") is not prog:      # ids are re-used after garbage collection: compare the object
        with open(os.path.join(VERIF, "tables", "eo_sites.json"), encoding="utf-8") as fh:
            exc = json.load(fh)["exceptions"]
        _cache.clear()
        _cache[k] = {"prog": prog, "sites": eo.sites(prog), "exceptions": exc, "kr": eo.khatrirao_calls(prog)}
    return _cache[k]


def in_scope(fi: FuncInfo, modules: Iterable[str], functions: Optional[Iterable[str]] = None) -> bool:
    if functions is not None:
        return fi.short in set(functions)
    return fi.module in set(modules)


from ..guards import strip_locals as _strip_locals


def _short(key: str) -> str:
    """Head and tail of a long canonical text: inlined locals make the head of different sites alike."""
    return key if len(key) <= 110 else key[:66] + " .. " + key[-40:]


def _vector_to_column(fi: FuncInfo, call: ast.Call) -> bool:
    """X.reshape((len(X), 1)) / np.reshape(X, (X.shape[0], 1)): the target has as many rows as X has along its first axis and one
    column, so the call only succeeds when X holds exactly that many entries (a vector or a single column): no order is involved."""
    is_np = (dotted(call.func) or "").startswith(("np.", "numpy."))
    if (dotted(call.func) or "").split(".")[-1] != "reshape" and not (isinstance(call.func, ast.Attribute) and call.func.attr == "reshape"):
        return False
    if is_np:
        if len(call.args) < 2:
            return False
        x, shp = call.args[0], call.args[1]
    else:
        if not isinstance(call.func, ast.Attribute) or not call.args:
            return False
        x = call.func.value
        shp = call.args[0] if len(call.args) == 1 else ast.Tuple(elts=list(call.args), ctx=ast.Load())
    if not (isinstance(shp, (ast.Tuple, ast.List)) and len(shp.elts) == 2 and const(shp.elts[1]) == 1):
        return False
    n = shp.elts[0]
    xt = fi.rtext(x)
    if isinstance(n, ast.Call) and (dotted(n.func) or "") == "len" and n.args and fi.rtext(n.args[0]) == xt:
        return True
    if isinstance(n, ast.Subscript) and isinstance(n.value, ast.Attribute) and n.value.attr == "shape" and const(n.slice) == 0 \
            and fi.rtext(n.value.value) == xt:
        return True
    return False


def _receiver_shape_form(key: str) -> str:
    """`E.reshape((E.size, 1))` with the SAME expression E in both places reads `<X>.reshape((<X>.size, 1))` whatever E is spelled like
    (a reviewed exception for such a site is about the shape of the call, not about how its receiver was computed)."""
    import re
    m = re.fullmatch(r"(.*)\.reshape\(\((.*)\.(size|shape\[0\]), 1\)\)", key, flags=re.S)
    if m and m.group(1) == m.group(2):
        return f"<X>.reshape((<X>.{m.group(3)}, 1))"
    return ""


def eo1(prog: Program, res: Result, select: Callable[[FuncInfo], bool]) -> None:
    """Explicit-order discipline on reshape-family sites."""
    f = facts(prog)
    for s in f["sites"]:
        if not select(s.fi):
            continue
        where = prog.loc(s.fi, s.call)
        if s.base in eo.IDX_HELPERS:
            desc = f"index conversion uses first-index-fastest numbering: {_short(s.key)}"
            if s.tag == "F":
                res.ok("EO-1", s.fi.short, desc, where, "default order F" if not s.explicit else "order evaluates to F", nontrivial=s.explicit)
            elif s.tag == "C":
                res.bad("EO-1", s.fi.short, desc, where, f"order {ast.unparse(s.order_expr)} is C: linear indices are numbered last-index-fastest")
            else:
                res.undecided("EO-1", s.fi.short, desc, where, f"order expression {ast.unparse(s.order_expr)} not resolvable")
            continue
        desc = f"array layout order is F: {_short(s.key)}"
        if s.explicit:
            if s.tag == "F":
                res.ok("EO-1", s.fi.short, desc, where, f"order={ast.unparse(s.order_expr)} evaluates to F")
            elif s.tag == "C":
                res.bad("EO-1", s.fi.short, desc, where,
                        f"order={ast.unparse(s.order_expr)} evaluates to C: entries of every non-degenerate shape are moved")
            elif s.tag == "MEM":
                res.bad("EO-1", s.fi.short, desc, where,
                        f"order={ast.unparse(s.order_expr)} follows the memory layout of the operand, which is not fixed "
                        "(C-contiguous data arises e.g. from growth by assignment or no-copy construction)")
            else:
                res.undecided("EO-1", s.fi.short, desc, where, f"order expression {ast.unparse(s.order_expr)} not resolvable")
        else:
            ex = [x for x in f["exceptions"] if x["function"] == s.fi.short and (x["key"] is None or _strip_locals(x["key"]) == _strip_locals(s.key)
                                                                                 or _receiver_shape_form(x["key"]) == _receiver_shape_form(s.key) != "")]
            if not ex and _vector_to_column(s.fi, s.call):
                res.ok("EO-1", s.fi.short, desc, where, "reshape of X to (len(X), 1): only a vector fits, so the order is irrelevant", nontrivial=False)
            elif ex:
                res.ok("EO-1", s.fi.short, desc, where, "reviewed order-irrelevant site: " + ex[0]["reason"], nontrivial=False)
            else:
                res.bad("EO-1", s.fi.short, desc, where,
                        "no order argument: numpy's default C order is used on array data (the repository convention is order=F / self.order)")


def eo_cls(prog: Program, res: Result, classes: Iterable[str]) -> None:
    for c in classes:
        ci = prog.tensor_class(c)
        if ci is None:
            raise AnalysisError(f"class {c} vanished")
        o = eo.class_order(prog, c)
        desc = "reports memory order F (first index varies fastest)"
        m = ci.methods.get("order")
        where = prog.loc(m) if m else ""
        if o == "F":
            res.ok("EO-cls", f"{c}.{c}.order", desc, where, nontrivial=False)
        elif o is None:
            res.undecided("EO-cls", f"{c}.{c}.order", desc, where)
        else:
            res.bad("EO-cls", f"{c}.{c}.order", desc, where, f"order property returns {o!r}")


def eo2(prog: Program, res: Result, select: Callable[[FuncInfo], bool]) -> int:
    n = 0
    for q, fi in sorted(prog.functions.items()):
        if fi.parent or not select(fi):
            continue
        pr = eo.Pairing(prog, fi)
        for a, b, text, node in pr.pairs:
            n += 1
            desc = f"listing orders agree in: {text[:130]}"
            where = prog.loc(fi, node)
            if a == b:
                res.ok("EO-2", fi.short, desc, where, f"both {a}")
            else:
                res.bad("EO-2", fi.short, desc, where,
                        f"a {a}-order listing is combined element-wise with a {b}-order listing: entries are paired with the wrong partners "
                        "for every shape with two or more non-unit modes")
    return n


def ps(prog: Program, res: Result, select: Callable[[FuncInfo], bool]) -> None:
    for q, fi in sorted(prog.functions.items()):
        if fi.parent or not select(fi):
            continue
        for a, b, text, node in eo.paired_selectors(prog, fi):
            desc = f"one selector picks the shape entries and the subscript columns in: {text[:110]}"
            where = prog.loc(fi, node)
            if a is None:
                res.undecided("PS", fi.short, desc, where, f"subscript columns are selected by `{b[:60]}`, the sizes that go with them are not read as shape[selector]")
            elif a == b:
                res.ok("PS", fi.short, desc, where, f"selector {a[:60]}")
            else:
                res.bad("PS", fi.short, desc, where, f"shape is selected by `{a[:60]}` but subscript columns by `{b[:60]}`")


def _kr_operand_order(fi: FuncInfo, c: ast.Call) -> Optional[str]:
    """'cyclic' when the factor list handed to khatrirao is `B[k:] + B[:j]` (a tail of the list followed by a head of it); None otherwise."""
    ops = [a.value if isinstance(a, ast.Starred) else a for a in c.args]
    if len(ops) != 1:
        return None
    e = fi.resolve(ops[0])
    while isinstance(e, ast.Call) and (dotted(e.func) or "") in ("list", "tuple") and len(e.args) == 1:
        e = e.args[0]
    if not (isinstance(e, ast.BinOp) and isinstance(e.op, ast.Add)):
        return None
    l, r = e.left, e.right
    if not all(isinstance(x, ast.Subscript) and isinstance(x.slice, ast.Slice) and x.slice.step is None for x in (l, r)):
        return None
    if ast.unparse(l.value) != ast.unparse(r.value):
        return None
    if l.slice.lower is not None and r.slice.lower is None and r.slice.upper is not None:
        return "cyclic"
    return None


def kr(prog: Program, res: Result, select: Callable[[FuncInfo], bool], exempt: Set[str]) -> None:
    f = facts(prog)
    k = 0
    for fi, c, v in f["kr"]:
        if not select(fi):
            continue
        k += 1
        desc = f"Khatri-Rao over ascending mode lists is taken in reverse (F layout): {ast.unparse(c)[:90]}"
        where = prog.loc(fi, c)
        if fi.short in exempt:
            res.ok("KR", fi.short, desc, where, "builds subscript sets only (reviewed)", nontrivial=False)
        elif v is True and _kr_operand_order(fi, c) == "cyclic":
            res.bad("KR", fi.short, desc, where,
                    "the operands are listed cyclically (the modes after the skipped one first, then the modes before it): the rows of the product "
                    "follow that order, not the ascending order of the unfolding they are multiplied with (visible for a middle mode of >= 3)")
        elif v is True:
            res.ok("KR", fi.short, desc, where)
        elif v is False:
            res.bad("KR", fi.short, desc, where, "reverse=True is missing: rows of the product no longer follow first-index-fastest order")
        else:
            res.undecided("KR", fi.short, desc, where)


def rep(prog: Program, res: Result, cls: str, required: Set[str], methods: Iterable[str]) -> None:
    ci = prog.tensor_class(cls)
    if ci is None:
        raise AnalysisError(f"class {cls} vanished")
    for m in methods:
        fi = ci.methods.get(m)
        if fi is None:
            continue
        got = eo.attrs_read(prog, fi)
        desc = f"reads every defining component ({', '.join(sorted(required))})"
        where = prog.loc(fi)
        if "*" in got or required <= got:
            res.ok("REP", fi.short, desc, where, f"reads {sorted(got)[:8]}")
        else:
            res.bad("REP", fi.short, desc, where,
                    f"never reads {sorted(required - got)}: the result ignores that component whenever it is not the neutral value")


# ---------------------------------------------------------------------- INV / FWD
def _perm_uses(fi: FuncInfo):
    """(kind, permutation expression text, node) for transpositions and permuted-shape reshapes in fi."""
    from ..guards import Canon
    canon = Canon(fi.node)
    out = []
    for c in ast.walk(fi.node):
        if not isinstance(c, ast.Call):
            continue
        nm = dotted(c.func) or ""
        base = nm.split(".")[-1] if nm else (c.func.attr if isinstance(c.func, ast.Attribute) else "")
        is_np = nm.startswith(("np.", "numpy."))
        if base == "transpose" and is_np and len(c.args) >= 2:
            out.append(("transpose", fi.resolve(c.args[1]), c))
        elif base == "transpose" and not is_np and isinstance(c.func, ast.Attribute) and len(c.args) == 1 and not isinstance(c.args[0], ast.Constant):
            out.append(("transpose", fi.resolve(c.args[0]), c))          # x.transpose(perm)
        elif base == "permute" and c.args:
            out.append(("transpose", fi.resolve(c.args[0]), c))
        elif base == "reshape":
            tgt = c.args[1] if (is_np and len(c.args) >= 2) else (c.args[0] if c.args and not is_np else None)
            if tgt is not None:
                found = False
                for n in ast.walk(fi.resolve(tgt)):
                    if isinstance(n, ast.Subscript) and not isinstance(n.slice, (ast.Slice, ast.Constant, ast.Tuple)) and "shape" in ast.unparse(n.value):
                        out.append(("shape-select", n.slice, c))
                        found = True
                if not found and isinstance(tgt, ast.Name) and tgt.id in canon.single:
                    for n in ast.walk(canon.single[tgt.id]):
                        if isinstance(n, ast.Subscript) and isinstance(n.slice, ast.Name) and "shape" in canon.text(n.value):
                            out.append(("shape-select", n.slice, c))
    return out


def inv(prog: Program, res: Result, functions: Iterable[str]) -> None:
    """A value laid out by a forward permutation p is brought back only with argsort(p)."""
    for short in functions:
        fi = prog.func(short)
        uses = _perm_uses(fi)
        fwd = [u for u in uses if not (isinstance(u[1], ast.Call) and (dotted(u[1].func) or "").split(".")[-1] == "argsort")]
        inv_ = [u for u in uses if isinstance(u[1], ast.Call) and (dotted(u[1].func) or "").split(".")[-1] == "argsort"]
        desc = "the forward permutation is undone with argsort of the same permutation"
        where = prog.loc(fi)
        if not fwd:
            res.undecided("INV", short, desc, where, "no forward permutation recognised")
            continue
        pnames = {ast.unparse(u[1]) for u in fwd}
        if not inv_:
            # the same permutation applied twice instead of its inverse?
            names = [ast.unparse(u[1]) for u in fwd]
            dup = [n for n in set(names) if names.count(n) > 1]
            if dup:
                res.bad("INV", short, desc, prog.loc(fi, fwd[-1][2]),
                        f"permutation `{dup[0]}` is applied a second time where its inverse (np.argsort) is required: "
                        "wrong for every permutation that is not an involution")
            else:
                res.bad("INV", short, desc, where, "no inverse permutation (np.argsort(p)) is applied any more")
            continue
        ok = True
        for u in inv_:
            arg = u[1].args[0] if u[1].args else None
            if arg is None or ast.unparse(arg) not in pnames:
                ok = False
                res.bad("INV", short, desc, prog.loc(fi, u[2]),
                        f"inverse is argsort({ast.unparse(arg) if arg is not None else ''}) but the forward permutation is {sorted(pnames)}")
            desc_k = kwarg(u[1], "kind")
        if ok:
            res.ok("INV", short, desc, prog.loc(fi, inv_[0][2]), f"forward {sorted(pnames)}, inverse {ast.unparse(inv_[0][1])}")
        # must-pass-through: on every returning path that lays the data out by the forward permutation, the inverse is applied,
        # unless the test that skipped it says the permutation has at most one element (trivially the identity)
        from ..paths import enumerate_paths
        fwd_nodes = {id(u[2]) for u in fwd}
        inv_nodes = {id(u[2]) for u in inv_}
        desc2 = "the inverse permutation is applied on every path that applied the forward one (skipped only for a permutation of at most one mode)"
        bad_path = None
        n_paths = 0
        for items, end in enumerate_paths(fi.node.body, limit=20000):
            if end == "raise":
                continue
            did_f = did_i = False
            decisions = []
            for kind, st in items:
                if kind in ("stmt", "return"):
                    ids = {id(x) for x in ast.walk(st)}
                    did_f = did_f or bool(ids & fwd_nodes)
                    did_i = did_i or bool(ids & inv_nodes)
                elif kind in ("if-true", "if-false"):
                    decisions.append((kind == "if-true", st.test))
            if not did_f:
                continue
            n_paths += 1
            if did_i:
                continue
            # some decision on this path says that the permutation has at most one element
            trivial = False
            for truth, t in decisions:
                t = fi.resolve(t)
                if isinstance(t, ast.Compare) and len(t.ops) == 1:
                    l, op, r = t.left, t.ops[0], t.comparators[0]
                    sized = (isinstance(l, ast.Attribute) and l.attr == "size" and ast.unparse(l.value) in pnames) or \
                            (isinstance(l, ast.Call) and (dotted(l.func) or "").split(".")[-1] in ("len", "size") and l.args and ast.unparse(l.args[0]) in pnames)
                    k = const(r)
                    if sized and isinstance(k, int):
                        small = (isinstance(op, ast.Gt) and k in (0, 1) and not truth) or (isinstance(op, ast.GtE) and k in (1, 2) and not truth) or \
                                (isinstance(op, ast.LtE) and k in (0, 1) and truth) or (isinstance(op, ast.Lt) and k in (1, 2) and truth) or \
                                (isinstance(op, ast.Eq) and k in (0, 1) and truth)
                        trivial = trivial or small
            if not trivial:
                last = [t for _tr, t in decisions]
                bad_path = last[-1] if last else fi.node
        if bad_path is not None:
            txt = ast.unparse(bad_path)[:80] if isinstance(bad_path, ast.expr) else "(no test)"
            res.bad("INV", short, desc2, prog.loc(fi, bad_path),
                    f"a returning path applies the forward layout but not the inverse; no decision on it (last: `{txt}`) says that "
                    "the permutation is trivial: a one-sided (vectorised) matricisation still lists its modes in the given order")
        elif n_paths:
            res.ok("INV", short, desc2, prog.loc(fi), f"{n_paths} path(s)")


def fwd_convention(prog: Program, res: Result, functions: Iterable[str]) -> None:
    """All permute() siblings select by the order argument itself (mode k of the result is mode order[k])."""
    for short in functions:
        fi = prog.func(short)
        params = fi.params()
        if len(params) < 2:
            raise AnalysisError(f"{short}: no order parameter")
        o = params[1]
        desc = "permutes by the order argument itself (forward convention shared by all four classes)"
        selectors = []
        bad = []
        for n in ast.walk(fi.node):
            if isinstance(n, ast.Call):
                nm = dotted(n.func) or ""
                base = nm.split(".")[-1] if nm else (n.func.attr if isinstance(n.func, ast.Attribute) else "")
                if base == "argsort" and any(isinstance(x, ast.Name) and x.id == o for a in n.args for x in ast.walk(a)):
                    bad.append(n)
                if base in ("transpose", "permute"):
                    for a in n.args:
                        if isinstance(a, ast.Name) and a.id == o:
                            selectors.append(n)
            if isinstance(n, ast.Subscript):
                sl = n.slice
                parts = sl.elts if isinstance(sl, ast.Tuple) else [sl]
                if any(isinstance(p_, ast.Name) and p_.id == o for p_ in parts):
                    selectors.append(n)
            if isinstance(n, ast.comprehension) and isinstance(n.iter, ast.Name) and n.iter.id == o:
                selectors.append(n.iter)
            if isinstance(n, ast.For) and isinstance(n.iter, ast.Name) and n.iter.id == o:
                selectors.append(n.iter)
        scatter = [n for n in ast.walk(fi.node) if isinstance(n, ast.Subscript) and isinstance(n.ctx, ast.Store)
                   and any(isinstance(p_, ast.Name) and p_.id == o for p_ in (n.slice.elts if isinstance(n.slice, ast.Tuple) else [n.slice]))]
        where = prog.loc(fi)
        if scatter:
            res.bad("FWD", short, desc, prog.loc(fi, scatter[0]),
                    f"`{ast.unparse(scatter[0])} = ...` scatters by {o}: the result is the operand permuted by the INVERSE of {o} "
                    "(wrong for every non-involutive order, e.g. a 3-cycle), while the sibling classes gather (permute forward)")
        elif bad:
            res.bad("FWD", short, desc, prog.loc(fi, bad[0]),
                    f"np.argsort({o}) is used: this class would permute by the inverse while its siblings permute forward")
        elif selectors:
            res.ok("FWD", short, desc, where, f"{len(selectors)} selection(s) by `{o}`")
        else:
            res.bad("FWD", short, desc, where, f"the order argument `{o}` no longer selects anything")
        # path clause: every return hands back data that went through the gather, unless its guard says the permutation is trivial
        defs: Dict[str, List[ast.expr]] = {}
        for n in ast.walk(fi.node):
            if isinstance(n, ast.Assign) and len(n.targets) == 1 and isinstance(n.targets[0], ast.Name):
                defs.setdefault(n.targets[0].id, []).append(n.value)

        def gathers(e: ast.AST, depth=0) -> bool:
            for n in ast.walk(e):
                if isinstance(n, ast.Call):
                    nm = dotted(n.func) or ""
                    base = nm.split(".")[-1] if nm else (n.func.attr if isinstance(n.func, ast.Attribute) else "")
                    if base in ("transpose", "permute") and any(isinstance(a, ast.Name) and a.id == o for a in n.args):
                        return True
                if isinstance(n, ast.Subscript) and any(isinstance(p_, ast.Name) and p_.id == o
                                                        for p_ in (n.slice.elts if isinstance(n.slice, ast.Tuple) else [n.slice])):
                    # shape[order] alone is a relabelling, not a gather of the data
                    if "shape" not in ast.unparse(n.value):
                        return True
                if isinstance(n, ast.comprehension) and isinstance(n.iter, ast.Name) and n.iter.id == o:
                    elt_owner = None
                    return True
                if isinstance(n, ast.Name) and n.id in defs and n.id != o and depth < 3:
                    if any(gathers(d, depth + 1) for d in defs[n.id]):
                        return True
            return False
        parents = {}
        for x in ast.walk(fi.node):
            for c in ast.iter_child_nodes(x):
                parents[id(c)] = x
        desc2 = "every return of permute hands back data gathered by the order (a path that skips the gather is guarded by a test that the permutation is trivial)"
        bad_ret = None
        n_ret = 0
        for r in ast.walk(fi.node):
            if not isinstance(r, ast.Return) or r.value is None:
                continue
            n_ret += 1
            v = r.value
            # comprehension over order that only rebuilds the shape does not gather data
            data_gather = gathers(v)
            if data_gather and isinstance(v, ast.Call):
                # exclude the case where only a shape argument depends on order
                args_g = [a for a in list(v.args) + [k.value for k in v.keywords] if gathers(a)]
                data_gather = any("shape" not in ast.unparse(a).lower() or "data" in ast.unparse(a) or "subs" in ast.unparse(a) or "factor" in ast.unparse(a)
                                  or "core" in ast.unparse(a) for a in args_g)
            if data_gather:
                continue
            # guarded by a triviality test?
            cur, trivial = r, False
            while id(cur) in parents:
                par = parents[id(cur)]
                if isinstance(par, ast.If) and any(cur is b for b in par.body):
                    t = fi.rtext(par.test).replace(" ", "")       # extracted locals (`nothing_to_do = order.size == 0 or ...`) read as their definition
                    if ".size==0" in t or "ndims==1" in t or "arange" in t or "len(" in t and "==0" in t or "ndims==0" in t:
                        trivial = True
                cur = par
            # ... or reached only after an earlier `if <there is data>: return <gathered>` (fall-through = nothing stored)
            par = parents.get(id(r))
            body = getattr(par, "body", None)
            if not trivial and isinstance(body, list) and r in body:
                for prev in body[:body.index(r)]:
                    if isinstance(prev, ast.If) and prev.body and isinstance(prev.body[-1], ast.Return) and not prev.orelse:
                        t = fi.rtext(prev.test).replace(" ", "")
                        if t in ("notself.subs.size==0", "self.subs.size!=0", "self.subs.size>0", "self.nnz>0", "self.nnz!=0", "notself.nnz==0"):
                            trivial = True
            if not trivial:
                bad_ret = bad_ret or r
        if bad_ret is not None:
            res.bad("FWD", short, desc2, prog.loc(fi, bad_ret),
                    f"`{ast.unparse(bad_ret)[:70]}` returns the receiver's data without gathering it by `{o}`, under a condition that does not say the "
                    "permutation is trivial")
        elif n_ret:
            res.ok("FWD", short, desc2, where, f"{n_ret} return(s)")


# ---------------------------------------------------------------------- CNT: rows(subs) == rows(vals) at sparse constructors
def cnt_ctor(prog: Program, res: Result, select: Callable[[FuncInfo], bool], rule: str = "IX-cnt") -> int:
    from .. import rows as R
    n = 0
    for q, fi in sorted(prog.functions.items()):
        if fi.parent or not select(fi):
            continue
        ctor_nodes = [c for c in ast.walk(fi.node) if isinstance(c, ast.Call) and (dotted(c.func) or "").split(".")[-1] in ("sptensor", "from_aggregator")
                      and (len(c.args) >= 2)]
        if not ctor_nodes:
            continue
        ev = R.RowEval(prog)
        seen: Dict[int, List] = {}

        def hook(st, env, subst, _seen=seen, _ev=ev):
            for c in ast.walk(st):
                if isinstance(c, ast.Call) and c in ctor_nodes:
                    a, b = _ev.ev(c.args[0], env), _ev.ev(c.args[1], env)
                    a, b = R._subst(a, subst), R._subst(b, subst)
                    if all(isinstance(x, ast.Call) and (dotted(x.func) or "") in ("np.array", "numpy.array") and len(x.args) == 1
                           and isinstance(x.args[0], (ast.List, ast.Tuple)) and not x.args[0].elts for x in c.args[:2]):
                        a = b = R.Arr(R.sp.Integer(0), None, 1)  # two empty literals: no rows on either side
                    _seen.setdefault(id(c), []).append((c, a, b))

        ev.run(fi, on_stmt=hook)
        for cid, lst in seen.items():
            c = lst[0][0]
            desc = f"subscripts and values handed to the sparse constructor have equal row counts: {ast.unparse(c)[:100]}"
            where = prog.loc(fi, c)
            verdicts = []
            for _c, a, b in lst:
                if isinstance(a, R.Arr) and isinstance(b, R.Arr):
                    verdicts.append(R.compare_counts(a.rows, b.rows))
                elif a is None and b is None:
                    verdicts.append(("NONE", "both arguments untracked on this path"))
                else:
                    verdicts.append(("UNK", "argument is not a tracked array"))
            if any(v[0] in ("EQ", "NE") for v in verdicts):
                verdicts = [v for v in verdicts if v[0] != "NONE"]
            else:
                verdicts = [("UNK", v[1]) if v[0] == "NONE" else v for v in verdicts]
            n += 1
            if any(v[0] == "NE" for v in verdicts):
                why = next(v[1] for v in verdicts if v[0] == "NE")
                res.bad(rule, fi.short, desc, where, why)
            elif all(v[0] == "EQ" for v in verdicts):
                res.ok(rule, fi.short, desc, where, f"rows = {verdicts[0][1]}")
            else:
                res.undecided(rule, fi.short, desc, where, next(v[1] for v in verdicts if v[0] == "UNK"))
    return n
