"""C19 — ill-formed requests are rejected, not answered.

Decided (E5 guard obligations; table /verif/tables/c19_guards.json extracted from the reviewed tree):
  GD-raise   every reviewed guard — a set of canonical atoms under which the operation raises — is still
             enforced: some raising statement (in the function, or in a callee reached with the same operands)
             fires under a subset of those atoms, and no normal exit that was not there before precedes it
  GD-accept  the acceptance predicates of the boolean validators (tt_sizecheck, tt_subscheck, tt_valscheck,
             isrow, isvector, valid_* of gcp) did not get weaker (no alternative accepts more than before)
  GD-call    every call from an operation to a validating helper (tt_dimscheck, tt_*check, parse_*,
             gather_wrap_dims, _validate_*) is still made with the same operands before any new normal exit
  GD-val     implicit validation by numpy (np.transpose with a user permutation) is not bypassed by an
             unreviewed shortcut return
  ES-order   receiver-mutating operations validate before they write: no raising guard is reachable after
             the first store to the receiver
Atoms are canonical (locals inlined, loop/comprehension variables positional, ==/!=, </>=, not-forms,
assert/raise and De Morgan normalised), so reformatting, renaming locals, `assert False` <-> `raise`,
operand flips and hoisting a check into a helper leave the keys unchanged.
Not decided: that a guard's arithmetic is right for all sizes; rejections raised inside numpy/scipy other
than through the enumerated validating calls; behaviour under `python -O` (144 guards are `assert False`).
"""
from __future__ import annotations

import ast
import builtins as _builtins
import copy
import json
import os
from typing import Dict, FrozenSet, List, Optional, Set, Tuple

from ..model import Program, FuncInfo, dotted, AnalysisError, TENSOR_CLASSES
from ..report import Result, VERIF
from .. import guards as G

TABLE = os.path.join(VERIF, "tables", "c19_guards.json")
VALIDATOR_MODULES = ("pyttb.pyttb_utils", "pyttb.gcp.fg_setup")
VALIDATOR_NAME_HINTS = ("check", "valid", "parse_", "gather_wrap_dims", "get_index_variant", "get_mttkrp_factors")
NUMPY_VALIDATING = {"transpose": 1}  # np.transpose(x, perm) validates perm


def is_validator(fi: FuncInfo) -> bool:
    if fi.parent:
        return False
    return any(h in fi.name for h in VALIDATOR_NAME_HINTS)


def accept_validators(prog: Program) -> List[FuncInfo]:
    out = []
    for q, fi in sorted(prog.functions.items()):
        if fi.parent or fi.cls or fi.module not in VALIDATOR_MODULES:
            continue
        r = fi.node.returns
        if r is not None and ast.unparse(r) == "bool":
            out.append(fi)
    return out


def resolve_callee(prog: Program, fi: FuncInfo, call: ast.Call) -> Optional[Tuple[FuncInfo, int]]:
    """(callee, number of leading receiver parameters to skip)."""
    f = call.func
    if isinstance(f, ast.Name):
        q = f"{fi.module}.{f.id}"
        if q in prog.functions:
            return prog.functions[q], 0
        tgt = prog.modules[fi.module].imports.get(f.id)
        if tgt in prog.functions:
            return prog.functions[tgt], 0
        return None
    if isinstance(f, ast.Attribute):
        d = dotted(f) or ""
        parts = d.split(".")
        if len(parts) == 2 and parts[0] in ("ttb", "pyttb", "ttb_utils"):
            cands = [x for x in prog.functions.values() if x.name == parts[1] and x.cls is None and not x.parent]
            if len(cands) == 1:
                return cands[0], 0
        if isinstance(f.value, ast.Name) and fi.cls and fi.params() and f.value.id == fi.params()[0]:
            ci = prog.classes.get(f"{fi.module}.{fi.cls}")
            if ci and f.attr in ci.methods:
                return ci.methods[f.attr], 1
    return None


def bindings_for(caller_scan: G.GuardScan, callee: FuncInfo, call: ast.Call, skip: int) -> Dict[str, ast.expr]:
    params = callee.params()[skip:]
    b: Dict[str, ast.expr] = {}
    for i, a in enumerate(call.args):
        if isinstance(a, ast.Starred) or i >= len(params):
            break
        b[params[i]] = caller_scan.c._inline(copy.deepcopy(a), 1)
    for k in call.keywords:
        if k.arg in params:
            b[k.arg] = caller_scan.c._inline(copy.deepcopy(k.value), 1)
    if skip and callee.params():
        b[callee.params()[0]] = ast.Name(id=caller_scan.fi.params()[0], ctx=ast.Load())
    return b


class Facts:
    """Everything the rules need about one function of the current tree."""

    def __init__(self, prog: Program, fi: FuncInfo):
        self.fi = fi
        self.scan = G.GuardScan(fi)
        self.raises = self.scan.raises
        # validator calls and numpy validating calls
        self.vcalls: List[Tuple[str, FrozenSet[str], List[str]]] = []
        self.vcall_order: Dict[Tuple[str, FrozenSet[str]], int] = {}
        self.alt_vcalls: List[Tuple[str, str]] = []      # (key with one arm of a conditional operand, key as written)
        seen = set()
        for cs in self.scan.calls:
            r = resolve_callee(prog, fi, cs.call)
            key = None
            if r is not None and is_validator(r[0]) and r[0].qualname != fi.qualname:
                args = ", ".join(self.scan.c.text(a) for a in cs.call.args[:3] if not isinstance(a, ast.Starred))
                key = f"{r[0].short}({args})"
                # an operand written as a conditional expression (validate(d if x is None else x)) also validates each of its arms
                arms_of = []
                for a in cs.call.args[:3]:
                    if isinstance(a, ast.Starred):
                        continue
                    ra = fi.resolve(a)
                    arms_of.append([self.scan.c.text(ra.body), self.scan.c.text(ra.orelse)] if isinstance(ra, ast.IfExp) else [self.scan.c.text(a)])
                if any(len(x) > 1 for x in arms_of):
                    import itertools as _it
                    for combo in _it.islice(_it.product(*arms_of), 8):
                        self.alt_vcalls.append((f"{r[0].short}({', '.join(combo)})", key))
            else:
                d = dotted(cs.call.func) or ""
                if d in ("np.transpose", "numpy.transpose") and len(cs.call.args) >= 2:
                    key = f"np.transpose(_, {self.scan.c.text(cs.call.args[1])})"
                elif d in ("np.moveaxis", "numpy.moveaxis") and len(cs.call.args) == 3:
                    # numpy validates source and destination like a permutation; the one that is not 0..n-1 is the operand
                    cand = [a for a in cs.call.args[1:] if "arange" not in ast.unparse(a) and "range(" not in ast.unparse(fi.resolve(a))]
                    if cand:
                        key = f"np.transpose(_, {self.scan.c.text(cand[0])})"
                elif isinstance(cs.call.func, ast.Attribute) and cs.call.func.attr == "transpose" and len(cs.call.args) == 1 \
                        and not d.startswith(("np.", "numpy.")) and not isinstance(cs.call.args[0], ast.Constant):
                    key = f"np.transpose(_, {self.scan.c.text(cs.call.args[0])})"       # x.transpose(perm): the method form validates alike
            if key is None:
                continue
            conds = G.simplify(cs.conds)
            if (key, conds) in seen:
                continue
            seen.add((key, conds))
            exits = sorted({e.key() for e in self.scan.exits if e.order < cs.order and G._compatible(e.conds, conds)})
            self.vcalls.append((key, conds, exits))
            self.vcall_order[(key, conds)] = cs.order
        self._delegated: Optional[List[G.Raise]] = None
        self.prog = prog

    def delegated(self) -> List[G.Raise]:
        """Raises of callees (depth 2) expressed in this function's vocabulary, with the call's conditions added."""
        if self._delegated is not None:
            return self._delegated
        out: List[G.Raise] = []
        done = set()
        for cs in self.scan.calls:
            r = resolve_callee(self.prog, self.fi, cs.call)
            if r is None or r[0].qualname == self.fi.qualname:
                continue
            callee, skip = r
            sig = (callee.qualname, ast.unparse(cs.call), cs.conds)
            if sig in done:
                continue
            done.add(sig)
            try:
                b = bindings_for(self.scan, callee, cs.call, skip)
                sub = G.GuardScan(callee, b)
            except RecursionError:
                continue
            exits = sorted({e.key() for e in self.scan.exits if e.order < cs.order and G._compatible(e.conds, cs.conds)})
            for rr in sub.raises:
                out.append(G.Raise(self.fi.short, G.simplify(frozenset(cs.conds | rr.conds)), cs.line, rr.exc, cs.order, exits, rr.in_loop,
                                   f"via {callee.short}"))
        self._delegated = out
        return out


def extract_table(prog: Program) -> dict:
    """Table of guard obligations of the tree as it is (run by tools/gen_c19_table.py after review)."""
    entries = []
    for q, fi in sorted(prog.functions.items()):
        if fi.parent:
            continue
        f = Facts(prog, fi)
        seen = set()
        for r in f.raises:
            k = r.key()
            if k in seen:
                continue
            seen.add(k)
            entries.append({"function": fi.short, "kind": "raise", "key": k, "exits": r.exits_before, "msg": r.msg})
        for key, conds, exits in f.vcalls:
            entries.append({"function": fi.short, "kind": "call", "key": key, "when": " & ".join(sorted(conds)), "exits": exits})
    for fi in accept_validators(prog):
        alts = G.accept_alternatives(fi)
        if alts is not None:
            entries.append({"function": fi.short, "kind": "accept", "alts": sorted(" & ".join(sorted(a)) for a in alts)})
    return {"entries": entries}


def load_table() -> dict:
    if not os.path.exists(TABLE):
        raise AnalysisError(f"guard table missing: {TABLE}")
    with open(TABLE, encoding="utf-8") as fh:
        return json.load(fh)


def _deps(key: str) -> FrozenSet[str]:
    """Inputs a canonical operand text is computed from: free names and attributes of the receiver (callables and modules excluded)."""
    try:
        tree = ast.parse(key.replace("np.transpose(_, ", "(", 1) if key.startswith("np.transpose(_, ") else key, mode="eval")
    except SyntaxError:
        return frozenset()
    called = {id(c.func) for c in ast.walk(tree) if isinstance(c, ast.Call)}
    out = set()
    for n in ast.walk(tree):
        if isinstance(n, ast.Attribute) and isinstance(n.value, ast.Name) and n.value.id == "self" and id(n) not in called:
            out.add("self." + n.attr)
        elif isinstance(n, ast.Name) and n.id not in ("np", "numpy", "self", "_") and id(n) not in called and not hasattr(_builtins, n.id) \
                and not n.id.startswith(("local", "each", "loopvar")):
            out.add(n.id)
    return frozenset(out)


def _parse(key: str) -> FrozenSet[str]:
    return frozenset() if key in ("unconditional", "") else frozenset(key.split(" & "))


def check(prog: Program, res: Result, tier: str) -> None:
    res.explanation = __doc__.split("\n\n", 1)[1]
    res.assumptions = [
        "default interpreter mode (asserts enabled)",
        "the reviewed table /verif/tables/c19_guards.json (with tables/c19_review.json) states which guards are preconditions",
        "canonicalisation in pv/guards.py preserves meaning",
    ]
    table = load_table()
    entries = table["entries"]
    res.floors = {"GD-raise": 280, "GD-accept": 8, "GD-call": 40, "ES-order": 14}
    facts: Dict[str, Facts] = {}

    def facts_of(short: str) -> Optional[Facts]:
        if short not in facts:
            q = "pyttb." + short
            if q not in prog.functions:
                return None
            facts[short] = Facts(prog, prog.functions[q])
        return facts[short]

    def neg(a: str) -> str:
        return a[1:] if a.startswith("!") else "!" + a

    def subsumed(conds, want, f, order, allowed=()) -> bool:
        """conds <= want (each required atom follows from a reviewed one), up to atoms that cost no case:
           * atoms that earlier guards of the same function already force: after `if A and B: raise`, a site that requires A may also
             require not-B without covering fewer cases;
           * atoms whose negation is the condition of a REVIEWED earlier normal exit: those cases never reached the guard on the reviewed
             tree either (`if n == 0: return ...` followed by the guard  ~  `if n != 0: guard`)."""
        if conds <= want:
            return True
        extra = {x for x in conds - want if not any(G.implies(w, x) for w in want)}
        allowed_sets = [_parse(a[len("exit when "):]) for a in allowed if a.startswith("exit when ")]
        for x in extra:
            ok = False
            for r in f.raises:
                if r.order < order and neg(x) in r.conds and (r.conds - {neg(x)}) <= (want | (conds - {x})):
                    ok = True
                    break
            if not ok:
                for al in allowed_sets:
                    if neg(x) in al and (al - {neg(x)}) <= (want | (conds - {x})):
                        ok = True
                        break
            if not ok:
                return False
        return True

    def covered(xs, allowed_sets, depth=0) -> bool:
        """Every case of the exit condition xs is a case of some reviewed exit; an isinstance over several types is split into its types
        (two reviewed exits `isinstance(x, A)` / `isinstance(x, B)` merged into one `isinstance(x, (A, B))`)."""
        if any(al and G.implied_by(al, xs) for al in allowed_sets):
            return True
        if depth > 2:
            return False
        for a in xs:
            if a.startswith("isinstance(") and "|" in a:
                subj, types = G._split2(a[len("isinstance("):-1])
                return all(covered((xs - {a}) | {f"isinstance({subj}, {t})"}, allowed_sets, depth + 1) for t in types.split("|"))
        return False

    def relevant_extra(exits, allowed, want):
        """Exits that precede the guard now, were not reviewed, and can actually take a case away from it: an exit whose conditions
        contradict the reviewed guard's own conditions cannot, nor can one that only fires in a sub-case of a reviewed exit."""
        allowed_sets = [_parse(a[len("exit when "):]) if a.startswith("exit when ") else frozenset() for a in allowed]
        out = []
        for x in exits:
            if x in allowed:
                continue
            xs = _parse(x[len("exit when "):]) if x.startswith("exit when ") else frozenset()
            if xs and (any(G.contradicts(a, b) for a in xs for b in want) or not G._consistent(frozenset(xs | want))):
                continue
            if xs and covered(xs, allowed_sets):
                continue
            out.append(x)
        return out

    n_raise = 0
    for e in entries:
        fn = e["function"]
        if e.get("scope") == "out":
            continue
        f = facts_of(fn)
        if e["kind"] == "raise":
            n_raise += 1
            want = _parse(e["key"])
            desc = f"rejects when {e['key']}"
            if f is None:
                res.bad("GD-raise", fn, desc, "", "the function no longer exists and its guards with it")
                continue
            allowed = set(e.get("exits", []))
            best = None
            for r in f.raises:
                if subsumed(r.conds, want, f, r.order, allowed):
                    extra = relevant_extra(r.exits_before, allowed, want)
                    if not extra:
                        best = ("OK", r, "")
                        break
                    best = best or ("BYPASS", r, extra)
            if best is None or best[0] != "OK":
                for r in f.delegated():
                    if r.conds <= want:
                        extra = relevant_extra(r.exits_before, allowed, want)
                        if not extra:
                            best = ("OK", r, r.msg)
                            break
                        best = best or ("BYPASS", r, extra)
            if best is None:
                # same guard re-worded: identical message and identical atoms up to the naming of multiply-assigned locals
                # (their names are built from their definitions, which a refactoring may re-word)
                want_n = frozenset(G.strip_locals(a) for a in want)
                for r in list(f.raises) + list(f.delegated()):
                    if (r.msg or "") == (e.get("msg") or "") and r.msg and frozenset(G.strip_locals(a) for a in r.conds) <= want_n:
                        extra = relevant_extra([G.strip_locals(x) for x in r.exits_before], {G.strip_locals(x) for x in allowed}, want_n)
                        if not extra:
                            best = ("OK", r, "matched by message and structure")
                            break
            if best is None or best[0] != "OK":
                # the reviewed guard sat behind reviewed early exits (`if A and B: return ..` then `raise`): it rejects want & not(A and B).
                # Written the other way round (`if not A or not B: raise`) there is one raise per way of missing the exit: every such case
                # must be covered by some raise
                still_before = {x for r in list(f.raises) + list(f.delegated()) for x in r.exits_before}
                exit_sets = [x for x in (_parse(a[len("exit when "):]) for a in allowed if a.startswith("exit when ") and a not in still_before)
                             if x and G._compatible(x, want)]          # the reviewed exits that no longer precede a raise: moved behind it
                if 1 <= len(exit_sets) <= 2 and all(len(x) <= 4 for x in exit_sets):
                    import itertools as _it
                    cases = []
                    for choice in _it.product(*[sorted(x - want) for x in exit_sets]):
                        d = frozenset(want | {neg(a) for a in choice})
                        if G._consistent(d):
                            cases.append(G.simplify(d))
                    if cases and all(any(subsumed(r.conds, d, f, r.order, allowed) and not relevant_extra(r.exits_before, allowed, d)
                                         for r in list(f.raises) + list(f.delegated())) for d in cases):
                        first = next(r for r in f.raises + f.delegated() if subsumed(r.conds, cases[0], f, r.order, allowed))
                        best = ("OK", first, f"covered case by case ({len(cases)} ways of missing the reviewed exit)")
            where = prog.loc(f.fi)
            if best is None:
                res.bad("GD-raise", fn, desc, where,
                        f"no statement raises under these conditions any more (guard removed, weakened or its comparator changed); "
                        f"was: {e.get('msg', '')}")
            elif best[0] == "OK":
                res.ok("GD-raise", fn, desc, f"{prog.rel(f.fi.path)}:{best[1].line}", best[2])
            else:
                res.bad("GD-raise", fn, desc, f"{prog.rel(f.fi.path)}:{best[1].line}",
                        f"a normal exit that was not there before now precedes the guard: {best[2][:3]}")
        elif e["kind"] == "call":
            desc = f"calls validator {e['key']}" + (f" when {e['when']}" if e.get("when") else "")
            rule = "GD-val" if e["key"].startswith("np.") else "GD-call"
            if f is None:
                res.bad(rule, fn, desc, "", "function vanished")
                continue
            want = _parse(e.get("when", ""))
            allowed = set(e.get("exits", []))
            verdict = None
            same_as = {e["key"]} | {written for arm_key, written in f.alt_vcalls if arm_key == e["key"]}
            for key, conds, exits in f.vcalls:
                if key in same_as and subsumed(conds, want, f, f.vcall_order.get((key, conds), 0), allowed):
                    extra = relevant_extra(exits, allowed, want)
                    if not extra:
                        verdict = ("OK", "")
                        break
                    verdict = verdict or ("BYPASS", extra)
            if verdict is None:
                want_n = frozenset(G.strip_locals(a) for a in want)
                for key, conds, exits in f.vcalls:
                    if G.strip_locals(key) == G.strip_locals(e["key"]) and frozenset(G.strip_locals(a) for a in conds) <= want_n:
                        extra = relevant_extra([G.strip_locals(x) for x in exits], {G.strip_locals(x) for x in allowed}, want_n)
                        if not extra:
                            verdict = ("OK", "")
                            break
            if verdict is None and rule == "GD-val":
                # numpy's own validation of a permutation: the operand may be re-worded freely as long as it is still computed from the
                # same inputs (parameters / attributes of the receiver) and handed to the transposition under the reviewed conditions
                want_deps = _deps(e["key"])
                for key, conds, exits in f.vcalls:
                    if key.startswith("np.transpose(") and want_deps and _deps(key) == want_deps \
                            and subsumed(conds, want, f, f.vcall_order.get((key, conds), 0), allowed):
                        extra = relevant_extra(exits, allowed, want)
                        if not extra:
                            verdict = ("OK", "")
                            break
            where = prog.loc(f.fi)
            if verdict is None:
                res.bad(rule, fn, desc, where, "the validating call is no longer made with these operands under these conditions")
            elif verdict[0] == "OK":
                res.ok(rule, fn, desc, where)
            else:
                res.bad(rule, fn, desc, where, f"an unreviewed normal exit precedes the validating call: {verdict[1][:3]}")
        elif e["kind"] == "accept":
            desc = "acceptance predicate did not get weaker"
            if f is None:
                res.bad("GD-accept", fn, desc, "", "validator vanished")
                continue
            alts = G.accept_alternatives(f.fi)
            where = prog.loc(f.fi)
            if alts is None:
                res.undecided("GD-accept", fn, desc, where, "return structure not recognised")
                continue
            old = [_parse(a) for a in e["alts"]]
            weaker = [a for a in alts if not any(o <= a for o in old)]
            if weaker:
                res.bad("GD-accept", fn, desc, where,
                        "now also answers True when only: " + " | ".join(" & ".join(sorted(a)) for a in weaker)[:300])
            else:
                res.ok("GD-accept", fn, desc, where, f"{len(alts)} alternatives, each at least as strict as a reviewed one")
    res.analysed["guard_obligations"] = n_raise
    es_order(prog, res)


# ---------------------------------------------------------------------- exception safety
def mutating_functions(prog: Program) -> List[FuncInfo]:
    out = []
    for q, fi in sorted(prog.functions.items()):
        if fi.parent or fi.cls not in TENSOR_CLASSES or fi.name == "__init__":
            continue
        doc = fi.docstring().lower()
        if fi.name in ("__setitem__",) or fi.name.startswith("_set_") or any(w in doc for w in ("in place", "in-place")):
            out.append(fi)
    return out


def _is_receiver_store(fi: FuncInfo, st: ast.stmt) -> bool:
    me = fi.params()[0]
    targets = []
    if isinstance(st, ast.Assign):
        targets = st.targets
    elif isinstance(st, (ast.AugAssign, ast.AnnAssign)):
        targets = [st.target]
    for t in targets:
        for e in (t.elts if isinstance(t, ast.Tuple) else [t]):
            base = e
            while isinstance(base, (ast.Subscript, ast.Attribute)):
                if isinstance(base, ast.Attribute) and isinstance(base.value, ast.Name) and base.value.id == me:
                    return True
                base = base.value
    if isinstance(st, ast.Expr) and isinstance(st.value, ast.Call) and isinstance(st.value.func, ast.Attribute):
        f = st.value.func
        if isinstance(f.value, ast.Name) and f.value.id == me and f.attr in (
                "normalize", "arrange", "redistribute", "fixsigns", "update", "_set_subscripts", "_set_subtensor", "_set_linear"):
            return True
    return False


def es_order(prog: Program, res: Result) -> None:
    from ..paths import enumerate_paths, PathLimit
    for fi in mutating_functions(prog):
        scan = G.GuardScan(fi)
        by_line = {}
        for r in scan.raises:
            by_line.setdefault(r.line, r)
        desc = "validates the whole request before the first write to the receiver"
        where = prog.loc(fi)
        offenders: Dict[str, Tuple[int, ast.stmt]] = {}
        try:
            paths = enumerate_paths(fi.node.body, limit=20000)
        except PathLimit:
            res.undecided("ES-order", fi.short, desc, where, "too many paths to enumerate")
            continue
        n_store_paths = 0
        # names that are never re-bound: decisions on them stay true along a path
        rebound = set()
        bound_once: Dict[str, int] = {}
        params_ = set(fi.params())
        for n in ast.walk(fi.node):
            if isinstance(n, (ast.Assign, ast.AugAssign, ast.AnnAssign, ast.For)):
                tg = n.targets if isinstance(n, ast.Assign) else [n.target]
                for t in tg:
                    for x in ast.walk(t):
                        if isinstance(x, ast.Name) and isinstance(x.ctx, ast.Store):
                            if isinstance(n, (ast.AugAssign, ast.For)) or x.id in params_:
                                rebound.add(x.id)
                            bound_once[x.id] = bound_once.get(x.id, 0) + 1
        # a local bound exactly once (flag = isinstance(value, int)) keeps its meaning along a path
        rebound |= {k for k, v in bound_once.items() if v > 1}
        loop_bodies = [x for n in ast.walk(fi.node) if isinstance(n, (ast.For, ast.While)) for b in n.body for x in ast.walk(b)]
        rebound |= {x.id for x in loop_bodies if isinstance(x, ast.Name) and isinstance(x.ctx, ast.Store)}
        for items, end in paths:
            first_store = None
            known: Set[str] = set()
            feasible = True
            for kind, st in items:
                if kind in ("if-true", "if-false"):
                    names = {x.id for x in ast.walk(st.test) if isinstance(x, ast.Name)}
                    if not (names & rebound):
                        dnf = G.atoms_of(st.test, kind == "if-true", scan.c)
                        if len(dnf) == 1:
                            if not G._consistent(frozenset(known | dnf[0])):
                                feasible = False
                                break
                            known |= dnf[0]
                        elif dnf and all(not G._consistent(frozenset(known | alt)) for alt in dnf):
                            feasible = False
                            break
            if not feasible:
                continue
            for kind, st in items:
                if kind == "stmt" and first_store is None and _is_receiver_store(fi, st):
                    first_store = st
                if kind == "raise" and first_store is not None:
                    r = by_line.get(st.lineno)
                    offenders.setdefault(r.key() if r else f"line {st.lineno}", (st.lineno, first_store))
                # `assert T` after a store
                if kind == "stmt" and isinstance(st, ast.Assert) and first_store is not None and first_store is not st:
                    r = by_line.get(st.lineno)
                    offenders.setdefault(r.key() if r else f"assert {ast.unparse(st.test)[:60]}", (st.lineno, first_store))
            if first_store is not None:
                n_store_paths += 1
        # a loop whose body both writes the receiver and rejects: iteration k writes, iteration k+1 rejects
        for n in ast.walk(fi.node):
            if isinstance(n, (ast.For, ast.While)):
                inside = [x for b in n.body for x in ast.walk(b)]
                stores = [x for x in inside if isinstance(x, ast.stmt) and _is_receiver_store(fi, x)]
                raises_ = [x for x in inside if isinstance(x, ast.Raise) or (isinstance(x, ast.Assert))]
                if stores and raises_:
                    for x in raises_:
                        r = by_line.get(x.lineno)
                        offenders.setdefault(r.key() if r else f"line {x.lineno}", (x.lineno, stores[0]))
        if offenders:
            keys = sorted(offenders)
            line, st = offenders[keys[0]]
            res.bad("ES-order", fi.short, f"can reject after writing the receiver ({len(keys)} guard(s))", f"{prog.rel(fi.path)}:{line}",
                    f"`{ast.unparse(st)[:70]}` can execute before the rejection(s): {keys[:4]}")
        else:
            res.ok("ES-order", fi.short, desc, where, f"{len(scan.raises)} guards, {n_store_paths} paths that write the receiver",
                   nontrivial=bool(scan.raises and n_store_paths))


def _same_loop(fn: ast.FunctionDef, st: ast.stmt, line: int) -> bool:
    for n in ast.walk(fn):
        if isinstance(n, (ast.For, ast.While)):
            inside = list(ast.walk(n))
            if st in inside and any(getattr(x, "lineno", None) == line and isinstance(x, (ast.Raise, ast.Assert)) for x in inside):
                return True
    return False
