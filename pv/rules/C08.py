"""C08 — Kruskal re-parameterisations preserve the tensor and reach their normal form.

Decided (E11 small domains + E3 selectors, on ktensor.py):
  PARITY  every loop that negates one factor column per iteration runs an EVEN number of times on every path
          (parity abstract domain with refinement on `mod(e, 2) == 0`): sign fixing flips factors in pairs, so the
          component — and the tensor — keeps its sign; the negative-weight repair of normalize negates the weight and
          exactly one factor with the same index set
  PS-k    one permutation / selection vector is applied to the weights AND to the columns of every factor matrix
          (arrange, normalize(sort) via arrange, extract), and + / - concatenate weights and factor columns in the same
          operand order
  EO-3    tovec lists weights first iff asked and every factor column by column; from_vector and update read the
          weights from the same prefix iff flagged and rebuild every factor with an F-order reshape
  ABSORB  absorbing weights into factor(s) resets the weights to one; normalising multiplies the weight by the norm it
          divides the column by
  SCALE   Kruskal scale algebra (E8, pv/kscale.py): normalize, redistribute, tolist, unary minus and scalar multiple are
          interpreted for one generic component with weight sigma*a (sigma = +-1, a > 0) over the terms
          (weight, scale of every factor, scale of singled-out factors); on every path that returns,
          weight * prod(factor scales) equals the original weight (its negation / multiple where documented), lists of
          factors carry the whole weight, absorbed weights are exactly one and repaired weights are non-negative;
          equality is decided by sympy normalisation for symbolic N and refuted only by an exact rational witness
  NORMARG every column norm taken by normalize is np.linalg.norm(.., ord=normtype) - on the single-mode path as on the all-modes path
          ("unit-norm columns in the REQUESTED norm"; the tensor is preserved with any norm, so SCALE cannot see a dropped `ord`)
Cross-reference: score / symmetrize / tolist work on copies — C05.
Not decided: unit norms beyond NORMARG, sorted weights, numerical invariance of full().
"""
from __future__ import annotations

import ast
from typing import Dict, List, Optional, Tuple

from ..model import Program, dotted, kwarg, const, NOCONST, AnalysisError
from ..report import Result
from .. import eo
from . import eo_common as E

K = "ktensor.ktensor."


def kfunc(prog: Program, name: str):
    """The ktensor method with views of the Kruskal fields spelled canonically (alg_common.dealias_factors)."""
    import dataclasses
    from . import alg_common as A
    fi = prog.func(K + name)
    return dataclasses.replace(fi, node=A.dealias_factors(fi.node))


# ------------------------------------------------------------------ parity domain
def _par_add(p: Optional[str], c: int) -> Optional[str]:
    if p is None:
        return None
    return p if c % 2 == 0 else ("ODD" if p == "EVEN" else "EVEN")


def _parity(e: ast.expr, env: Dict[str, Optional[str]]) -> Optional[str]:
    if isinstance(e, ast.Constant) and isinstance(e.value, int):
        return "EVEN" if e.value % 2 == 0 else "ODD"
    if isinstance(e, ast.Name):
        return env.get(e.id)
    if isinstance(e, ast.BinOp):
        if isinstance(e.op, (ast.Add, ast.Sub)):
            a, b = _parity(e.left, env), _parity(e.right, env)
            if a and b:
                return "EVEN" if a == b else "ODD"
            return None
        if isinstance(e.op, ast.Mult):
            a, b = _parity(e.left, env), _parity(e.right, env)
            if a == "EVEN" or b == "EVEN":
                # 2 * <integer-valued expression>
                return "EVEN"
            if a == "ODD" and b == "ODD":
                return "ODD"
            return None
    if isinstance(e, ast.Call):
        nm = (dotted(e.func) or "").split(".")[-1]
        if nm in ("int", "floor", "ceil", "round") and e.args:
            inner = e.args[0]
            # int(2 * floor(x)) is even; int(x) keeps the parity of an integer-valued x
            return _parity(inner, env)
    return None


def _mod2_test(test: ast.expr):
    """(expr, truth-means-even) for `np.mod(e, 2) == 0`, `e % 2 == 0`, `e % 2 == 1`, `e % 2 != 0`."""
    if isinstance(test, ast.Compare) and len(test.ops) == 1:
        l, op, r = test.left, test.ops[0], test.comparators[0]
        e = None
        if isinstance(l, ast.Call) and (dotted(l.func) or "").split(".")[-1] in ("mod", "remainder") and len(l.args) == 2 and const(l.args[1]) == 2:
            e = l.args[0]
        elif isinstance(l, ast.BinOp) and isinstance(l.op, ast.Mod) and const(l.right) == 2:
            e = l.left
        if e is not None and const(r) in (0, 1):
            even_when_true = (const(r) == 0) == isinstance(op, ast.Eq)
            if isinstance(op, (ast.Eq, ast.NotEq)):
                return e, even_when_true
    return None


def _refine(e: ast.expr, even: bool, env: Dict[str, Optional[str]]) -> None:
    """e has the given parity: push through +/- constants onto a name."""
    want = "EVEN" if even else "ODD"
    while isinstance(e, ast.BinOp) and isinstance(e.op, (ast.Add, ast.Sub)) and isinstance(const(e.right), int):
        want = _par_add(want, const(e.right))
        e = e.left
    if isinstance(e, ast.Name):
        env[e.id] = want


def _data_count(loop: ast.For) -> bool:
    """The loop count is (an alias of) len / np.size / np.sum / count_nonzero of data, with no evenness construction."""
    it = loop.iter
    if not (isinstance(it, ast.Call) and it.args):
        return False
    e = it.args[0]
    seen = 0
    fn_defs = {}
    cur = e
    for _ in range(3):
        if isinstance(cur, ast.Call):
            nm = (dotted(cur.func) or "").split(".")[-1]
            if nm in ("int", "float") and cur.args:
                cur = cur.args[0]
                continue
            return nm in ("size", "len", "sum", "count_nonzero")
        if isinstance(cur, ast.Name):
            # find its (single) definition in the enclosing function: done by the caller's walk; approximate by searching upward
            return _name_is_count(loop, cur.id)
        break
    return False


_FUNC_OF = {}


def _name_is_count(loop: ast.For, name: str) -> bool:
    fn = _FUNC_OF.get(id(loop))
    if fn is None:
        return False
    defs = [a for a in ast.walk(fn) if isinstance(a, ast.Assign) and len(a.targets) == 1 and isinstance(a.targets[0], ast.Name) and a.targets[0].id == name]
    if len(defs) != 1:
        return False
    v = defs[0].value
    while isinstance(v, ast.Call) and (dotted(v.func) or "").split(".")[-1] in ("int", "float") and v.args:
        v = v.args[0]
    return isinstance(v, ast.Call) and (dotted(v.func) or "").split(".")[-1] in ("size", "len", "sum", "count_nonzero")


def _single_def(fn: ast.AST, name: str) -> Optional[ast.expr]:
    defs = [a for a in ast.walk(fn) if isinstance(a, ast.Assign) and len(a.targets) == 1 and isinstance(a.targets[0], ast.Name) and a.targets[0].id == name]
    return defs[0].value if len(defs) == 1 else None


def _is_selection(fn: ast.AST, name: str) -> bool:
    """name = np.nonzero(..)[0] / np.where(..)[0] / np.flatnonzero(..): its length is a data-dependent count."""
    v = _single_def(fn, name)
    while isinstance(v, ast.Subscript):
        v = v.value
    return isinstance(v, ast.Call) and (dotted(v.func) or "").split(".")[-1] in ("nonzero", "where", "flatnonzero", "argwhere")


def _never_exceeds(fn: ast.AST, bound: ast.expr, seq: ast.expr) -> Optional[bool]:
    """Is `bound <= len(seq)` by construction?  True for 2*floor(len/2), 2*(len//2), len - len%2; False when it is
    rounded up from the length (round / ceil); None otherwise."""
    seq_t = ast.unparse(seq)
    e = bound
    if isinstance(e, ast.Name):
        e = _single_def(fn, e.id)
    if e is None:
        return None

    def is_len(x):
        return isinstance(x, ast.Call) and (dotted(x.func) or "").split(".")[-1] in ("size", "len") and x.args and ast.unparse(x.args[0]) == seq_t \
            or (isinstance(x, ast.Attribute) and x.attr == "size" and ast.unparse(x.value) == seq_t)

    def strip(x):
        while isinstance(x, ast.Call) and (dotted(x.func) or "").split(".")[-1] in ("int", "float") and x.args:
            x = x.args[0]
        return x

    e = strip(e)
    if isinstance(e, ast.BinOp) and isinstance(e.op, ast.Mult):
        two, other = (e.left, e.right) if const(e.left) == 2 else ((e.right, e.left) if const(e.right) == 2 else (None, None))
        if two is not None:
            other = strip(other)
            if isinstance(other, ast.BinOp) and isinstance(other.op, ast.FloorDiv) and const(other.right) == 2 and is_len(strip(other.left)):
                return True
            if isinstance(other, ast.Call) and other.args:
                nm = (dotted(other.func) or "").split(".")[-1]
                a = strip(other.args[0])
                half = isinstance(a, ast.BinOp) and isinstance(a.op, ast.Div) and const(a.right) == 2 and is_len(strip(a.left))
                if half and nm in ("floor", "trunc"):
                    return True
                if half and nm in ("round", "ceil", "rint", "around"):
                    return False
    if isinstance(e, ast.BinOp) and isinstance(e.op, ast.Sub) and is_len(strip(e.left)):
        r = strip(e.right)
        if isinstance(r, ast.BinOp) and isinstance(r.op, ast.Mod) and const(r.right) == 2 and is_len(strip(r.left)):
            return True
    return None


# ---- upper bounds relative to the length of an array (decides whether `X[:e]` can be clipped by the end of X)
def _len_key(fi, e: ast.AST, depth: int = 0) -> Optional[str]:
    """Canonical text of len(e) for 1-D arrays built by the usual constructors; None when unknown."""
    if depth > 6 or e is None:
        return None
    if isinstance(e, ast.Name):
        d = _single_def(fi.node, e.id)
        return _len_key(fi, d, depth + 1) if d is not None else None
    if isinstance(e, ast.Call):
        nm = (dotted(e.func) or "").split(".")[-1]
        if nm in ("zeros", "ones", "empty") and e.args and not isinstance(e.args[0], (ast.Tuple, ast.List)):
            return fi.rtext(e.args[0]).replace(" ", "")
        if nm in ("argsort", "sort", "abs", "negative", "sign", "copy", "array", "asarray", "flip") and e.args:
            return _len_key(fi, e.args[0], depth + 1)
        if isinstance(e.func, ast.Attribute) and nm in ("argsort", "copy") and not e.args:
            return _len_key(fi, e.func.value, depth + 1)
        return None
    if isinstance(e, ast.Compare) and len(e.ops) == 1:
        return _len_key(fi, e.left, depth + 1) or _len_key(fi, e.comparators[0], depth + 1)
    if isinstance(e, ast.UnaryOp):
        return _len_key(fi, e.operand, depth + 1)
    if isinstance(e, ast.Subscript) and not isinstance(e.slice, (ast.Slice, ast.Tuple, ast.Constant)):
        return _len_key(fi, e.slice, depth + 1)          # A[P] has as many entries as the index array P
    return None


def _position_source(fi, e: ast.AST, depth: int = 0) -> Optional[ast.AST]:
    """e is np.nonzero(B)[0] / np.where(B)[0] / np.flatnonzero(B) (possibly through names): returns B."""
    if depth > 4 or e is None:
        return None
    if isinstance(e, ast.Name):
        return _position_source(fi, _single_def(fi.node, e.id), depth + 1)
    if isinstance(e, ast.Subscript) and const(e.slice) == 0 and isinstance(e.value, ast.Call) \
            and (dotted(e.value.func) or "").split(".")[-1] in ("nonzero", "where") and len(e.value.args) == 1:
        return e.value.args[0]
    if isinstance(e, ast.Call) and (dotted(e.func) or "").split(".")[-1] == "flatnonzero" and e.args:
        return e.args[0]
    return None


def _ubound(fi, e: ast.AST, benv: Dict[str, Tuple[str, int]], depth: int = 0) -> Optional[Tuple[str, int]]:
    """(key, off): e <= key + off on the current path, key a length text."""
    if depth > 6 or e is None:
        return None
    if isinstance(e, ast.Name):
        return benv.get(e.id)
    if isinstance(e, ast.BinOp) and isinstance(e.op, (ast.Add, ast.Sub)) and isinstance(const(e.right), int):
        b = _ubound(fi, e.left, benv, depth + 1)
        return None if b is None else (b[0], b[1] + (const(e.right) if isinstance(e.op, ast.Add) else -const(e.right)))
    if isinstance(e, ast.Call) and (dotted(e.func) or "") == "int" and e.args:
        return _ubound(fi, e.args[0], benv, depth + 1)
    if isinstance(e, ast.Subscript) and not isinstance(e.slice, (ast.Slice, ast.Tuple)):
        src = _position_source(fi, e.value)
        if src is not None:
            k = _len_key(fi, src)
            if k is not None:
                return (k, -1)               # a position inside an array of that length
    return None


def _bound_refine(fi, test: ast.AST, truth: bool, benv: Dict[str, Tuple[str, int]], depth: int = 0) -> None:
    """Conjuncts `x < L - c` / `x <= L - c` that hold on this branch tighten the bound of x."""
    if depth > 3:
        return
    if isinstance(test, ast.Name):
        d = _single_def(fi.node, test.id)
        if d is not None:
            _bound_refine(fi, d, truth, benv, depth + 1)
        return
    if isinstance(test, ast.BoolOp) and isinstance(test.op, ast.And) and truth:
        for v in test.values:
            _bound_refine(fi, v, True, benv, depth + 1)
        return
    if isinstance(test, ast.UnaryOp) and isinstance(test.op, ast.Not):
        _bound_refine(fi, test.operand, not truth, benv, depth + 1)
        return
    if isinstance(test, ast.Compare) and len(test.ops) == 1 and isinstance(test.left, ast.Name):
        op, rhs = test.ops[0], test.comparators[0]
        if (isinstance(op, (ast.Lt, ast.LtE)) and truth) or (isinstance(op, (ast.Gt, ast.GtE)) and not truth):
            strict = isinstance(op, ast.Lt) or isinstance(op, ast.GtE)
            off = 0
            while isinstance(rhs, ast.BinOp) and isinstance(rhs.op, (ast.Add, ast.Sub)) and isinstance(const(rhs.right), int):
                off += const(rhs.right) if isinstance(rhs.op, ast.Add) else -const(rhs.right)
                rhs = rhs.left
            key = fi.rtext(rhs).replace(" ", "")
            if key.startswith("len(") and key.endswith(")"):
                key = _len_key(fi, ast.parse(key[4:-1], mode="eval").body) or key
            new = (key, off - (1 if strict else 0))
            old = benv.get(test.left.id)
            if old is None or (old[0] == new[0] and new[1] < old[1]):
                benv[test.left.id] = new


def _is_flip(st: ast.stmt) -> bool:
    if isinstance(st, ast.Assign) and isinstance(st.targets[0], ast.Subscript) and "factor_matrices" in ast.unparse(st.targets[0]):
        v = st.value
        t = ast.unparse(st.targets[0])
        if isinstance(v, ast.UnaryOp) and isinstance(v.op, ast.USub) and ast.unparse(v.operand) == t:
            return True
        if isinstance(v, ast.BinOp) and isinstance(v.op, ast.Mult) and const(v.left) == -1 and ast.unparse(v.right) == t:
            return True
    if isinstance(st, ast.AugAssign) and isinstance(st.op, ast.Mult) and const(st.value) == -1 and "factor_matrices" in ast.unparse(st.target):
        return True
    return False


def parity(prog: Program, res: Result) -> None:
    fi = prog.func(K + "fixsigns")
    found = []

    def walk(body: List[ast.stmt], env: Dict[str, Optional[str]], ctx: str):
        for st in body:
            if isinstance(st, ast.Assign) and len(st.targets) == 1 and isinstance(st.targets[0], ast.Name):
                env[st.targets[0].id] = _parity(st.value, env)
            elif isinstance(st, ast.AugAssign) and isinstance(st.target, ast.Name):
                env[st.target.id] = None
            elif isinstance(st, ast.If):
                m = _mod2_test(st.test)
                e1, e2 = dict(env), dict(env)
                if m is not None:
                    _refine(m[0], m[1], e1)
                    _refine(m[0], not m[1], e2)
                walk(st.body, e1, ctx + ("/then" if m else ""))
                walk(st.orelse, e2, ctx + ("/else" if m else ""))
                for k in set(e1) | set(e2):
                    env[k] = e1.get(k) if e1.get(k) == e2.get(k) else None
            elif isinstance(st, (ast.For, ast.While)):
                if isinstance(st, ast.For) and any(_is_flip(x) for x in ast.walk(st) if isinstance(x, ast.stmt)) \
                        and not any(isinstance(x, ast.For) and x is not st and any(_is_flip(y) for y in ast.walk(x) if isinstance(y, ast.stmt)) for x in ast.walk(st)):
                    it = st.iter
                    cnt = None
                    if isinstance(it, ast.Call) and isinstance(it.func, ast.Name) and it.func.id == "range" and len(it.args) == 1:
                        cnt = _parity(it.args[0], env)
                        found.append((st, ast.unparse(it.args[0]), cnt, dict(env)))
                    else:
                        found.append((st, ast.unparse(it), None, dict(env)))
                else:
                    e1 = dict(env)
                    if isinstance(st, ast.For):
                        for x in ast.walk(st.target):
                            if isinstance(x, ast.Name):
                                e1[x.id] = None
                    walk(st.body, e1, ctx)
                    for k in set(e1):
                        if env.get(k) != e1.get(k):
                            env[k] = None
            elif isinstance(st, (ast.With, ast.Try)):
                walk(st.body, env, ctx)

    # the parity of the flip count at the flip loop depends on the path: evaluate per reaching assignment of the count
    # (the count variable is assigned in if/else branches, so walk with joins would lose it): enumerate paths instead
    from ..paths import enumerate_paths
    for n in ast.walk(fi.node):
        if isinstance(n, ast.For):
            _FUNC_OF[id(n)] = fi.node
    verdicts: Dict[int, List] = {}
    for items, end in enumerate_paths(fi.node.body, limit=50000):
        env: Dict[str, Optional[str]] = {}
        benv: Dict[str, Tuple[str, int]] = {}
        for kind, st in items:
            if kind in ("if-true", "if-false"):
                m = _mod2_test(st.test)
                if m is not None:
                    _refine(m[0], m[1] if kind == "if-true" else not m[1], env)
                _bound_refine(fi, st.test, kind == "if-true", benv)
            elif kind == "stmt":
                if isinstance(st, ast.Assign) and len(st.targets) == 1 and isinstance(st.targets[0], ast.Name):
                    env[st.targets[0].id] = _parity(st.value, env)
                    b = _ubound(fi, st.value, benv)
                    if b is not None:
                        benv[st.targets[0].id] = b
                    else:
                        benv.pop(st.targets[0].id, None)
                elif isinstance(st, ast.AugAssign) and isinstance(st.target, ast.Name):
                    env[st.target.id] = None
            elif kind == "loop-enter" and isinstance(st, ast.For):
                direct_flip = any(_is_flip(x) for x in st.body)
                if direct_flip or (any(_is_flip(x) for x in ast.walk(st) if isinstance(x, ast.stmt)) and not any(isinstance(x, ast.For) for b in st.body for x in ast.walk(b))):
                    it = st.iter
                    if isinstance(it, ast.Call) and isinstance(it.func, ast.Name) and it.func.id == "range" and len(it.args) == 1:
                        verdicts.setdefault(st.lineno, []).append((st, ast.unparse(it.args[0]), _parity(it.args[0], env)))
                    elif isinstance(it, ast.Subscript) and isinstance(it.slice, ast.Slice) and it.slice.lower is None and it.slice.step is None \
                            and it.slice.upper is not None:
                        # `for n in X[:e]` runs min(e, len(X)) times: even only when e is even AND cannot exceed len(X)
                        par = _parity(it.slice.upper, env)
                        clip = _never_exceeds(fi.node, it.slice.upper, it.value)
                        if clip is None:
                            # the bound is a position (plus a guarded offset) inside an array as long as the sliced one
                            b, lk = _ubound(fi, it.slice.upper, benv), _len_key(fi, it.value)
                            if b is not None and lk is not None and b[0] == lk and b[1] <= 0:
                                clip = True
                        if par == "EVEN" and clip is True:
                            v = "EVEN"
                        elif clip is False:
                            v = "CLIPPED"
                        else:
                            v = None
                        verdicts.setdefault(st.lineno, []).append((st, ast.unparse(it), v))
                    elif isinstance(it, ast.Name) and _is_selection(fi.node, it.id):
                        verdicts.setdefault(st.lineno, []).append((st, ast.unparse(it), "DATA"))
                    else:
                        verdicts.setdefault(st.lineno, []).append((st, ast.unparse(it), None))
                for x in ast.walk(st.target):
                    if isinstance(x, ast.Name):
                        env[x.id] = None
    if not verdicts:
        res.undecided("PARITY", fi.short, "sign flips come in pairs", prog.loc(fi), "no flip loop found")
    order = 0
    for line, vs in sorted(verdicts.items()):
        order += 1
        st, cnt_txt, _ = vs[0]
        which = "stand-alone" if order == 1 else "against a reference"
        desc = f"sign fixing {which}: the number of factor sign flips per component (`{cnt_txt}`) is even on every path"
        pars = {v[2] for v in vs}
        if pars == {"EVEN"}:
            res.ok("PARITY", fi.short, desc, prog.loc(fi, st), f"{len(vs)} path(s), all EVEN")
        elif "ODD" in pars:
            res.bad("PARITY", fi.short, desc, prog.loc(fi, st),
                    "on at least one path the flip count is ODD: an odd number of factors changes sign and the component (hence the tensor) is negated")
        elif "CLIPPED" in pars:
            res.bad("PARITY", fi.short, desc, prog.loc(fi, st),
                    f"the loop runs over `{cnt_txt}`: the slice stops at the length of the selection when the bound exceeds it, and the bound is "
                    "rounded UP from that length (round/ceil): for some odd lengths all of the selected factors are flipped - an odd number")
        elif "DATA" in pars or (None in pars and _data_count(st)):
            res.bad("PARITY", fi.short, desc, prog.loc(fi, st),
                    f"the flip count `{cnt_txt}` is a data-dependent count that nothing forces to be even (no 2*floor(./2), no mod-2 case split): "
                    "with an odd number of negative factors the component changes sign")
        else:
            res.undecided("PARITY", fi.short, desc, prog.loc(fi, st), f"parities {pars}")
    # normalize: negative weight repair
    fn = kfunc(prog, "normalize")
    desc = "negative weights are repaired by negating the weight and exactly one factor, with the same index set"
    idx_defs = [a for a in ast.walk(fn.node) if isinstance(a, ast.Assign) and isinstance(a.targets[0], ast.Name) and "weights < 0" in ast.unparse(a.value)]
    if not idx_defs:
        res.undecided("PARITY", fn.short, desc, prog.loc(fn))
    else:
        nm = idx_defs[0].targets[0].id
        negs = [a for a in ast.walk(fn.node) if isinstance(a, ast.Assign) and isinstance(a.value, ast.UnaryOp) and isinstance(a.value.op, ast.USub)
                and nm in ast.unparse(a.targets[0])]
        targets = [ast.unparse(a.targets[0]) for a in negs]
        fac = [t for t in targets if "factor_matrices" in t]
        wts = [t for t in targets if t.startswith("self.weights")]
        same = all(ast.unparse(a.value.operand) == ast.unparse(a.targets[0]) for a in negs)
        if len(fac) == 1 and len(wts) == 1 and same:
            res.ok("PARITY", fn.short, desc, prog.loc(fn, idx_defs[0]), f"{fac[0]} and {wts[0]}")
        else:
            res.bad("PARITY", fn.short, desc, prog.loc(fn, idx_defs[0]), f"negated: {targets}")


# ------------------------------------------------------------------ selectors
def ps_k(prog: Program, res: Result) -> None:
    for name in ("arrange", "extract"):
        fi = kfunc(prog, name)
        wsel, fsel = [], []
        felems = _factor_elements(fi.node)
        for n in ast.walk(fi.node):
            if isinstance(n, ast.Subscript) and isinstance(n.ctx, ast.Load):
                vt = ast.unparse(n.value)
                if isinstance(n.value, ast.Name) and n.value.id in felems and isinstance(n.slice, ast.Tuple) and len(n.slice.elts) == 2 \
                        and isinstance(n.slice.elts[0], ast.Slice) and not isinstance(n.slice.elts[1], (ast.Slice, ast.Constant)):
                    fsel.append((ast.unparse(n.slice.elts[1]), n))      # `for f in self.factor_matrices: f[:, sel]`
                if vt.endswith(".weights") and not isinstance(n.slice, (ast.Slice, ast.Constant)):
                    wsel.append((ast.unparse(n.slice), n))
                if "factor_matrices[" in vt and isinstance(n.slice, ast.Tuple) and len(n.slice.elts) == 2 and isinstance(n.slice.elts[0], ast.Slice) \
                        and not isinstance(n.slice.elts[1], (ast.Slice, ast.Constant)):
                    # the factor index must range over all modes
                    fsel.append((ast.unparse(n.slice.elts[1]), n))
        desc = f"{name}: the selection applied to the weights is applied to the columns of every factor matrix"
        ws, fs = {w for w, _ in wsel}, {f for f, _ in fsel}
        if not ws and not fs:
            res.undecided("PS-k", fi.short, desc, prog.loc(fi))
            continue
        if ws == fs:
            # the factor selection sits in a loop over all modes
            in_loop = all(_in_all_modes_loop(fi.node, n) for _f, n in fsel)
            if in_loop:
                res.ok("PS-k", fi.short, desc, prog.loc(fi, wsel[0][1]), f"selectors {sorted(ws)}")
            else:
                res.bad("PS-k", fi.short, desc, prog.loc(fi, fsel[0][1]), "the factor selection does not run over all modes")
        else:
            res.bad("PS-k", fi.short, desc, prog.loc(fi, (wsel or fsel)[0][1]), f"weights selected by {sorted(ws)}, factor columns by {sorted(fs)}")
    # normalize(sort) delegates to arrange with a descending permutation of the weights
    fi = kfunc(prog, "normalize")
    desc = "normalize(sort=True) sorts through arrange(permutation = descending argsort of the weights)"
    calls = [c for c in ast.walk(fi.node) if isinstance(c, ast.Call) and isinstance(c.func, ast.Attribute) and c.func.attr == "arrange"]
    if calls:
        p = kwarg(calls[0], "permutation") or (calls[0].args[1] if len(calls[0].args) > 1 else None)
        pdef = None
        if isinstance(p, ast.Name):
            for a in ast.walk(fi.node):
                if isinstance(a, ast.Assign) and isinstance(a.targets[0], ast.Name) and a.targets[0].id == p.id:
                    pdef = ast.unparse(a.value).replace(" ", "")
        elif p is not None:
            pdef = fi.rtext(p).replace(" ", "")          # the permutation written in place
        if pdef in ("np.argsort(self.weights)[::-1]", "np.argsort(-self.weights)", "np.flip(np.argsort(self.weights))"):
            res.ok("PS-k", fi.short, desc, prog.loc(fi, calls[0]), pdef)
        else:
            res.bad("PS-k", fi.short, desc, prog.loc(fi, calls[0]), f"permutation = {pdef}")
    else:
        res.undecided("PS-k", fi.short, desc, prog.loc(fi))
    # the sort key is current: no write to the weights between computing the permutation and applying it
    from ..paths import enumerate_paths
    for name in ("normalize", "arrange"):
        fj = kfunc(prog, name)
        desc_s = f"{name}: the sort permutation is computed from the weights as they are when it is applied (no write to the weights in between)"
        pnames = {}
        for a in ast.walk(fj.node):
            if isinstance(a, ast.Assign) and len(a.targets) == 1 and isinstance(a.targets[0], ast.Name) and "argsort" in ast.unparse(a.value) \
                    and "self.weights" in ast.unparse(a.value):
                pnames[a.targets[0].id] = a
        if not pnames:
            inplace = [c for c in ast.walk(fj.node) if isinstance(c, ast.Call) and any(
                "argsort" in ast.unparse(a) and "self.weights" in ast.unparse(a) for a in list(c.args) + [k.value for k in c.keywords])
                and (dotted(c.func) or "").split(".")[-1] != "argsort"]
            if inplace:
                res.ok("PS-k", fj.short, desc_s, prog.loc(fj, inplace[0]), "the permutation is computed in the call that applies it")
            continue
        stale = None
        checked = 0
        for items, end in enumerate_paths(fj.node.body, limit=20000):
            if end == "raise":
                continue
            seq = [st for k, st in items if k in ("stmt", "return")]
            for nm, d in pnames.items():
                if d not in seq:
                    continue
                i = seq.index(d)
                for j in range(i + 1, len(seq)):
                    st = seq[j]
                    uses = any(isinstance(x, ast.Name) and x.id == nm and isinstance(x.ctx, ast.Load) for x in ast.walk(st))
                    if uses:
                        checked += 1
                        between = seq[i + 1:j]
                        for b in between:
                            tg = None
                            if isinstance(b, ast.Assign):
                                tg = b.targets[0]
                            elif isinstance(b, ast.AugAssign):
                                tg = b.target
                            if tg is not None and ast.unparse(tg).startswith("self.weights"):
                                stale = stale or (b, st)
                        break
        if stale:
            res.bad("PS-k", fj.short, desc_s, prog.loc(fj, stale[0]),
                    f"`{ast.unparse(stale[0])[:60]}` changes the weights after the permutation was computed and before `{ast.unparse(stale[1])[:50]}` "
                    "applies it: the components are ordered by outdated (e.g. still signed, not yet repaired) weights")
        elif checked:
            res.ok("PS-k", fj.short, desc_s, prog.loc(fj, next(iter(pnames.values()))))
    fi = kfunc(prog, "arrange")
    desc = "arrange sorts by descending weight"
    pdefs = [ast.unparse(a.value).replace(" ", "") for a in ast.walk(fi.node) if isinstance(a, ast.Assign) and isinstance(a.targets[0], ast.Name)
             and a.targets[0].id == "p"]
    if pdefs and pdefs[0] in ("np.argsort(self.weights)[::-1]", "np.argsort(-self.weights)", "np.flip(np.argsort(self.weights))"):
        res.ok("PS-k", fi.short, desc, prog.loc(fi), pdefs[0])
    elif pdefs:
        res.bad("PS-k", fi.short, desc, prog.loc(fi), f"p = {pdefs[0]}")
    # + and -
    for name, sign in (("__add__", "+"), ("__sub__", "-")):
        fi = kfunc(prog, name)
        desc = f"{name}: weights and factor columns are concatenated in the same operand order (self, {'' if sign == '+' else '-'}other)"
        cats = [c for c in ast.walk(fi.node) if isinstance(c, ast.Call) and (dotted(c.func) or "").split(".")[-1] in ("concatenate", "hstack")
                and c.args and isinstance(c.args[0], (ast.Tuple, ast.List)) and len(c.args[0].elts) == 2]
        wcat = [c for c in cats if "weights" in ast.unparse(c)]
        fcat = [c for c in cats if "factor_matrices" in ast.unparse(c)]
        if not wcat or not fcat:
            res.undecided("PS-k", fi.short, desc, prog.loc(fi))
            continue
        wo = [ast.unparse(x).replace(" ", "") for x in wcat[0].args[0].elts]
        fo = [ast.unparse(x).replace(" ", "") for x in fcat[0].args[0].elts]
        w_owner = ["self" if "self." in x else "other" for x in wo]
        f_owner = ["self" if "self." in x else "other" for x in fo]
        neg_ok = (sign == "+" and not any(x.startswith("-") for x in wo)) or (sign == "-" and wo[w_owner.index("other")].startswith("-") and not wo[w_owner.index("self")].startswith("-"))
        axis_ok = const(kwarg(fcat[0], "axis")) == 1 or (dotted(fcat[0].func) or "").endswith("hstack")
        if w_owner == f_owner and neg_ok and axis_ok:
            res.ok("PS-k", fi.short, desc, prog.loc(fi, wcat[0]), f"weights {wo}; factors {fo}")
        else:
            res.bad("PS-k", fi.short, desc, prog.loc(fi, wcat[0]), f"weights {wo}; factors {fo}; axis ok: {axis_ok}")


def _factor_elements(fn: ast.FunctionDef) -> set:
    """Names that range over every factor matrix: targets of `for f in self.factor_matrices` / `for i, f in enumerate(self.factor_matrices)`
    (loops and comprehensions)."""
    out = set()
    for n in ast.walk(fn):
        gens = []
        if isinstance(n, ast.For):
            gens.append((n.target, n.iter))
        elif isinstance(n, (ast.ListComp, ast.GeneratorExp, ast.SetComp, ast.DictComp)):
            gens += [(g.target, g.iter) for g in n.generators]
        for tgt, it in gens:
            if isinstance(it, ast.Call) and (dotted(it.func) or "") == "enumerate" and it.args and isinstance(tgt, ast.Tuple) and len(tgt.elts) == 2:
                tgt, it = tgt.elts[1], it.args[0]
            if isinstance(tgt, ast.Name) and ast.unparse(it).replace(" ", "") == "self.factor_matrices":
                out.add(tgt.id)
    return out


def _in_all_modes_loop(fn: ast.FunctionDef, node: ast.AST) -> bool:
    for n in ast.walk(fn):
        if isinstance(n, (ast.For, ast.ListComp, ast.GeneratorExp)):
            it = n.iter if isinstance(n, ast.For) else n.generators[0].iter
            if isinstance(it, ast.Call) and (dotted(it.func) or "") == "enumerate" and it.args:
                it = it.args[0]
            if any(x is node for x in ast.walk(n)) and ast.unparse(it).replace(" ", "") in ("range(self.ndims)", "range(0,self.ndims)", "self.factor_matrices"):
                return True
    return False


def eo3(prog: Program, res: Result) -> None:
    tv = prog.func(K + "tovec")
    fv = prog.func(K + "from_vector")
    up = prog.func(K + "update")
    # tovec: weights first iff include_weights; columns in order
    desc = "tovec puts the weights first iff include_weights and then every factor column by column"
    tvn = tv.resolve(tv.node)        # extracted locals (ncomponents = self.ncomponents, nrows = f.shape[0]) read as their definitions
    cond = [n for n in ast.walk(tvn) if isinstance(n, ast.If) and ast.unparse(n.test) == "include_weights"]
    wfirst = any("[:self.ncomponents]=self.weights" in ast.unparse(s).replace(" ", "") for c in cond for s in c.body)
    colwise = any(isinstance(n, ast.For) and "f[:, r]" in ast.unparse(n) and "range(self.ncomponents)" in ast.unparse(n.iter) for n in ast.walk(tvn))
    outer = any(isinstance(n, ast.For) and ast.unparse(n.iter) == "self.factor_matrices" for n in ast.walk(tvn))
    if wfirst and colwise and outer:
        res.ok("EO-3", tv.short, desc, prog.loc(tv))
    else:
        res.bad("EO-3", tv.short, desc, prog.loc(tv), f"weights first under the flag: {wfirst}; columns in order: {colwise}; over all factors: {outer}")
    # from_vector / update: F reshapes
    for fi in (fv, up):
        desc = f"{fi.name} rebuilds every factor with a first-index-fastest (F) reshape, the inverse of tovec's column listing"
        sites = [s for s in E.facts(prog)["sites"] if s.fi is fi and s.base == "reshape"]
        if not sites:
            res.undecided("EO-3", fi.short, desc, prog.loc(fi))
        for s in sites:
            if s.tag == "F":
                res.ok("EO-3", fi.short, desc, prog.loc(fi, s.call), f"order={ast.unparse(s.order_expr)}")
            else:
                res.bad("EO-3", fi.short, desc, prog.loc(fi, s.call), f"reshape order is {s.tag}: tovec lists each factor column by column (F)")
    desc = "from_vector reads the weights from the leading entries iff contains_weights and skips them when locating the factors"
    cond = [n for n in ast.walk(fv.node) if isinstance(n, ast.If) and ast.unparse(n.test) == "contains_weights"]
    prefix = shift = False
    cond = [c for c in cond if any(isinstance(n, ast.Subscript) and isinstance(n.value, ast.Name) and n.value.id == "data" for b in c.body for n in ast.walk(b))] or cond
    if cond:
        for s_ in cond[0].body:
            for n in ast.walk(s_):
                if isinstance(n, ast.Subscript) and isinstance(n.value, ast.Name) and n.value.id == "data" and isinstance(n.slice, ast.Slice) \
                        and (n.slice.lower is None or const(n.slice.lower) == 0) and n.slice.upper is not None:
                    prefix = True
                    upper = ast.unparse(n.slice.upper)
            if isinstance(s_, ast.Assign) and isinstance(s_.targets[0], ast.Name) and prefix and ast.unparse(s_.value) == upper:
                shift = True
    if prefix and shift:
        res.ok("EO-3", fv.short, desc, prog.loc(fv, cond[0]))
    elif cond:
        res.bad("EO-3", fv.short, desc, prog.loc(fv, cond[0]), f"weights read from a leading slice: {prefix}; offset advanced by its length: {shift}")
    else:
        res.undecided("EO-3", fv.short, desc, prog.loc(fv))


def _blocks(fn: ast.FunctionDef):
    yield fn.body
    for n in ast.walk(fn):
        for f in ("body", "orelse"):
            b = getattr(n, f, None)
            if n is not fn and isinstance(b, list) and b and isinstance(b[0], ast.stmt):
                yield b


def absorb(prog: Program, res: Result) -> None:
    """Where a factor is multiplied by (a function of) the weights, the weights are reset to one in the same block."""
    for name in ("normalize", "arrange", "redistribute"):
        fi = kfunc(prog, name)
        k = 0
        for block in _blocks(fi.node):
            for i, st in enumerate(block):
                absorbs = False
                if isinstance(st, (ast.Assign, ast.AugAssign)):
                    tgt = st.targets[0] if isinstance(st, ast.Assign) else st.target
                    if "factor_matrices" in ast.unparse(tgt) and ".weights" in ast.unparse(st.value) and "norm" not in ast.unparse(st.value):
                        absorbs = True
                elif isinstance(st, ast.For):
                    for x in ast.walk(st):
                        if isinstance(x, (ast.Assign, ast.AugAssign)):
                            tgt = x.targets[0] if isinstance(x, ast.Assign) else x.target
                            src = ast.unparse(x.value)
                            if "factor_matrices" in ast.unparse(tgt) and (".weights" in src or "@ D" in src or "* D" in src):
                                absorbs = True
                if not absorbs:
                    continue
                k += 1
                desc = f"{name}: after `{ast.unparse(st).splitlines()[0][:60]}` absorbs the weights they are reset to one"
                reset = False
                inner = [x for x in ast.walk(st) if isinstance(x, ast.Assign)] if isinstance(st, ast.For) else []
                for later in inner + block[i + 1:]:
                    if isinstance(later, ast.Assign) and ast.unparse(later.targets[0]).startswith("self.weights"):
                        v = later.value
                        vt = ast.unparse(v)
                        if (isinstance(v, ast.Call) and (dotted(v.func) or "").split(".")[-1] in ("ones", "ones_like")) or const(v) in (1, 1.0):
                            reset = True
                if reset:
                    res.ok("ABSORB", fi.short, desc, prog.loc(fi, st))
                else:
                    res.bad("ABSORB", fi.short, desc, prog.loc(fi, st),
                            "the weights keep their values although a factor was multiplied by them: the tensor is scaled by the weights twice")
        if k == 0:
            res.undecided("ABSORB", fi.short, f"{name}: weight absorption", prog.loc(fi), "no absorbing statement recognised")


def check(prog: Program, res: Result, tier: str) -> None:
    res.explanation = __doc__.split("\n\n", 1)[1]
    res.assumptions = ["breakpt + 1 is the number of negatively correlated modes (index + 1)", "np.floor / int keep integer values integer"]
    res.floors = {"PARITY": 3, "PS-k": 8, "EO-3": 4, "ABSORB": 3, "SCALE": 20, "NORMARG": 2}
    parity(prog, res)
    ps_k(prog, res)
    eo3(prog, res)
    absorb(prog, res)
    scale(prog, res)
    norm_order(prog, res)


def norm_order(prog: Program, res: Result) -> None:
    """ktensor.normalize(normtype=p): every column norm the method takes is the p-norm - on the single-mode path as on the all-modes path
    (the tensor is preserved with any norm, which is why the scale algebra cannot see a dropped `ord`: what breaks is that the columns have
    unit norm in the REQUESTED norm)."""
    fi = kfunc(prog, "normalize")
    params = fi.params()
    if "normtype" not in params:
        raise AnalysisError("ktensor.normalize has no normtype parameter any more")
    calls = [c for c in ast.walk(fi.node) if isinstance(c, ast.Call) and (dotted(c.func) or "").split(".")[-1] == "norm"
             and (dotted(c.func) or "").split(".")[0] in ("np", "numpy", "norm", "linalg")]
    if not calls:
        res.undecided("NORMARG", fi.short, "column norms are taken in the requested norm", prog.loc(fi), "no numpy norm call found")
    for c in calls:
        desc = f"column norms are taken in the requested norm: {ast.unparse(c)[:60]}"
        o = kwarg(c, "ord")
        if o is None and len(c.args) >= 2:
            o = c.args[1]
        if o is None:
            res.bad("NORMARG", fi.short, desc, prog.loc(fi, c), "no `ord` is passed: numpy takes the 2-norm whatever `normtype` says")
        elif fi.rtext(o).replace(" ", "") == "normtype":
            res.ok("NORMARG", fi.short, desc, prog.loc(fi, c))
        elif const(o) is not NOCONST:
            res.bad("NORMARG", fi.short, desc, prog.loc(fi, c), f"the order is the constant {ast.unparse(o)}, not the `normtype` argument")
        else:
            res.undecided("NORMARG", fi.short, desc, prog.loc(fi, c), f"order `{ast.unparse(o)}` not recognised")


# ------------------------------------------------------------------ SCALE (E8)
def scale(prog: Program, res: Result) -> None:
    from .. import kscale as KS
    import sympy as sp
    methods: Dict[str, ast.FunctionDef] = {}
    fis = {}
    from . import alg_common as A_
    for q, fi in prog.functions.items():
        if fi.cls == "ktensor" and not fi.parent and fi.module == "pyttb.ktensor":
            methods[fi.name] = A_.dealias_factors(fi.node)
            fis[fi.name] = fi
            # conditions read like their definitions (mode_ok = isinstance(mode, int) and ..; if mode_ok:)
            # (only FLAGS are replaced - locals defined by a comparison / boolean expression / predicate call, and the plain values they
            # name; numeric locals such as a column norm keep their names: the interpreter binds them to symbols)
            sd = fi.single_defs()
            flags = {k for k, v in sd.items() if isinstance(v, (ast.Compare, ast.BoolOp)) or (isinstance(v, ast.UnaryOp) and isinstance(v.op, ast.Not))
                     or (isinstance(v, ast.Call) and (dotted(v.func) or "").split(".")[-1] in ("isinstance", "array_equal", "all", "any", "isin"))}
            consts_ = {k for k, v in sd.items() if isinstance(v, ast.Call) and (dotted(v.func) or "").split(".")[-1] in ("ones", "ones_like")}
            keep = tuple(k for k in sd if k not in flags and k not in consts_)
            for n_ in ast.walk(methods[fi.name]):
                if isinstance(n_, (ast.If, ast.While)) and any(isinstance(x, ast.Name) and x.id in (flags | consts_) for x in ast.walk(n_.test)):
                    n_.test = fi.resolve(n_.test, keep=keep)
    it = KS.Interp(methods)
    plan = [("normalize", "same"), ("redistribute", "same"), ("tolist", "list"), ("__neg__", "neg"), ("__mul__", "mul")]
    for name, kind in plan:
        fi = kfunc(prog, name)
        per_path: Dict[tuple, List] = {}
        for sigma in (1, -1):
            w0 = sigma * KS.A_
            st0 = KS.start(sigma)
            if kind == "mul":
                st0.binds["other"] = KS.C_
            rets: List = []
            ends = it.run_block(methods[name].body, [st0], rets)
            for st in ends:
                if st.unmodelled:
                    rets.append((st, methods[name]))
            for st, node in rets:
                problems, und = [], None
                target = {"same": w0, "list": w0, "neg": -w0, "mul": KS.C_ * w0}[kind]
                if st.binds.get("<a=1>"):
                    target = target.subs(KS.A_, 1)
                states = [st]
                val = node.value if isinstance(node, ast.Return) else None
                list_result = False
                if st.unmodelled:
                    und = st.unmodelled
                elif kind in ("neg", "mul"):
                    # return ttb.ktensor(<factors>, <weights>)   |   delegation of a non-scalar operand (not this rule's business)
                    if isinstance(val, ast.Call) and (dotted(val.func) or "").split(".")[-1] == "ktensor" and len(val.args) >= 2 and it._is_flist(val.args[0], st):
                        try:
                            st = st.clone()
                            st.w = it.ev(val.args[1], st)
                            states = [st]
                        except KS.Unmodelled as u:
                            und = str(u)
                    elif kind == "mul" and any("isinstance(other, (ttb.sptensor, ttb.tensor))" in d and not d.startswith("not") for d in st.decisions):
                        continue
                    else:
                        und = f"result `{ast.unparse(val)[:50] if val is not None else None}` not recognised"
                elif kind == "list":
                    if isinstance(val, ast.Attribute) and val.attr == "factor_matrices" and isinstance(val.value, ast.Call) \
                            and isinstance(val.value.func, ast.Attribute) and val.value.func.attr in ("normalize", "redistribute"):
                        try:
                            states = it.call(val.value.func.attr, val.value, st)
                        except KS.Unmodelled as u:
                            und = str(u)
                        list_result = True
                    elif val is not None and (it._is_flist(val, st) or (isinstance(val, ast.ListComp) and it._is_flist(val.generators[0].iter, st))):
                        list_result = True
                    else:
                        und = f"result `{ast.unparse(val)[:50] if val is not None else None}` not recognised"
                for s2 in states:
                    if und:
                        break
                    if s2.unmodelled:
                        und = s2.unmodelled
                        break
                    ztau = getattr(s2, "zero_tau", ())
                    if ztau:
                        # a column of norm zero: the component is zero whatever the scales; what is promised is the normal form -
                        # the weight is multiplied by the norm, i.e. becomes zero (unless the weights were absorbed and reset to one)
                        wz = sp.simplify(s2.w.subs({t_: 0 for t_ in ztau}))
                        absorbed_z = any(d.startswith(("weight_factor == 'all'", "weight_factor is not None")) for d in s2.decisions) or list_result
                        if not absorbed_z and wz != 0:
                            problems.append(f"a column of norm zero leaves the weight at {wz} instead of 0 (the weight is the product of the column norms; "
                                            "CP-APR reads the model's total mass from it)")
                        continue
                    total = s2.f_all ** KS.N_ * s2.extra if list_result else s2.total()
                    eq, wit = KS.same(total, target)
                    if eq is False:
                        problems.append(f"weight {sigma:+d}*a: the component is scaled to {sp.simplify(total)} instead of {target} ({wit})")
                    elif eq is None:
                        und = f"could not normalise {sp.simplify(total)} against {target}"
                    if kind == "same" and not problems:
                        absorbed = any(d.startswith(("weight_factor == 'all'", "weight_factor is not None")) for d in s2.decisions) or name == "redistribute"
                        if absorbed and KS.same(s2.w, sp.Integer(1))[0] is not True:
                            problems.append(f"weights were absorbed into the factors but are left at {sp.simplify(s2.w)} instead of 1")
                        if name == "normalize" and "not (mode is not None)" in s2.decisions and s2.w.is_nonnegative is not True:
                            problems.append(f"weight {sigma:+d}*a ends as {sp.simplify(s2.w)}: not repaired to a non-negative weight")
                    if list_result and kind == "list" and not problems and val is not None and isinstance(val, ast.Attribute):
                        if KS.same(s2.w, sp.Integer(1))[0] is not True:
                            problems.append(f"the factor list drops a weight of {sp.simplify(s2.w)} (the delegate did not absorb the weights)")
                per_path.setdefault(st.decisions, []).append((problems, und, node))
        for dec, outcomes in sorted(per_path.items()):
            what = {"same": "keeps weight x factor scales of every component", "list": "returns factors that carry the whole weight",
                    "neg": "negates every component exactly once", "mul": "scales every component by the scalar exactly once"}[kind]
            desc = f"{name} {what} [{'; '.join(dec) if dec else 'only path'}]"
            node = outcomes[0][2]
            probs = [p for o in outcomes for p in o[0]]
            unds = [o[1] for o in outcomes if o[1]]
            if probs:
                res.bad("SCALE", fi.short, desc, prog.loc(fi, node), "; ".join(probs[:2]))
            elif unds:
                res.undecided("SCALE", fi.short, desc, prog.loc(fi, node), unds[0])
            else:
                res.ok("SCALE", fi.short, desc, prog.loc(fi, node), f"{len(outcomes)} sign case(s)")
