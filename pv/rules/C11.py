"""C11 — CP-APR returns a non-negative model and a truthful objective.

Decided (structural necessary conditions in cp_apr.py; thin by nature, see "Not decided"):
  DIV0     in the row helpers that clamp a denominator with their eps parameter, every division by a non-constant is clamped
  PROJ    in the row line search every candidate model_new = <step> is projected onto the non-negative orthant
          (model_new *= model_new > 0, or np.maximum(., 0)) before it is evaluated or returned
  PHI     the multiplicative-update matrix of the sparse branch is written for EVERY index of the mode (full-column stores of an
          aggregation sized by the mode's extent), so empty slices get 0 and not the buffer's initial fill
  OBJ     in all three solvers the reported objective is tt_loglikelihood(data, M) computed AFTER the final
          M.normalize(sort=True, normtype=1), M is not written afterwards, and M is the model returned
  LL      in the log-likelihood evaluators the entries that contribute x*log(m) are selected by the DATA (stored nonzeros of
          sparse data, a mask / per-entry test on the data values), never by the model: the convention 0*log(m) = 0 is keyed
          on x = 0, so a model that is zero where a count is positive yields -inf and is not silently dropped
  TRACE   every per-iteration diagnostic array is written at [iteration] and reported as [: iteration + 1]
          (one entry per outer iteration performed)
  KKT     KKT violations are maxima of absolute values (non-negative by construction)
  LOOP    outer / inner loops are bounded by maxiters / maxinneriters
  KR      the dense Pi matrices (calculate_pi, tt_calcpi_prowsubprob) are Khatri-Rao products of all factors but one, listed in ascending
          mode order and taken in reverse - the order of the unfolding they multiply (a cyclic listing gives a wrong Pi for middle modes)
  START   each solver iterates on a copy of the guess; cp_apr passes the guess on unchanged and returns that object
Cross-reference: data and guess are not modified — C05 (AL-mut); printing does not change the result — C18.
Not decided: non-negativity of the multiplicative update numerics, likelihood values, KKT values, "at least as
likely as the start" — relations between floating-point quantities.
"""
from __future__ import annotations

import ast
from typing import Dict, List

from ..model import Program, dotted, kwarg, const
from ..report import Result
from . import alg_common as A
from .C13 import _affine

SOLVERS = ["cp_apr.tt_cp_apr_mu", "cp_apr.tt_cp_apr_pdnr", "cp_apr.tt_cp_apr_pqnr"]


def _is_projection(st: ast.stmt, name: str) -> bool:
    if isinstance(st, ast.AugAssign) and isinstance(st.target, ast.Name) and st.target.id == name and isinstance(st.op, ast.Mult):
        t = ast.unparse(st.value).replace(" ", "")
        return t in (f"{name}>0", f"({name}>0)", f"0<{name}", f"{name}>=0")
    if isinstance(st, ast.Assign) and isinstance(st.targets[0], ast.Name) and st.targets[0].id == name:
        t = ast.unparse(st.value).replace(" ", "")
        return t in (f"np.maximum({name},0)", f"np.maximum(0,{name})", f"{name}*({name}>0)", f"np.clip({name},0,None)")
    return False


def _projection_of(st: ast.stmt):
    """The variable a statement projects onto the non-negative orthant (x *= x > 0, x = np.maximum(x, 0), x = x * (x > 0), x = np.clip(x, 0, None)),
    with in_place = True for the forms that change the array itself."""
    if isinstance(st, ast.AugAssign) and isinstance(st.target, ast.Name) and isinstance(st.op, ast.Mult):
        name = st.target.id
        t = ast.unparse(st.value).replace(" ", "")
        if t in (f"{name}>0", f"({name}>0)", f"0<{name}", f"{name}>=0"):
            return name, True
    if isinstance(st, ast.Assign) and len(st.targets) == 1 and isinstance(st.targets[0], ast.Name):
        name = st.targets[0].id
        t = ast.unparse(st.value).replace(" ", "")
        if t in (f"np.maximum({name},0)", f"np.maximum(0,{name})", f"{name}*({name}>0)", f"({name}>0)*{name}", f"np.clip({name},0,None)"):
            return name, False
    return None


def proj(prog: Program, res: Result) -> None:
    """Every line-search candidate (a freshly computed row that reaches the objective or the returned row) is projected onto the
    non-negative orthant before anything else reads it.  Forward walk over the structured body: a candidate is RAW from its creation until a
    projection of one of its names; plain copies share the state (and, for in-place projections, the object)."""
    fi = prog.func("cp_apr.tt_linesearch_prowsubprob")
    fn = fi.node
    # names that reach the returned row or the objective's row argument, closed under plain copies
    relevant = set()
    for n in ast.walk(fn):
        if isinstance(n, ast.Return) and isinstance(n.value, ast.Tuple) and n.value.elts and isinstance(n.value.elts[0], ast.Name):
            relevant.add(n.value.elts[0].id)
        if isinstance(n, ast.Call) and (dotted(n.func) or "").split(".")[-1] == "tt_loglikelihood_row" and len(n.args) >= 3 \
                and isinstance(n.args[2], ast.Name):
            relevant.add(n.args[2].id)
    changed = True
    while changed:
        changed = False
        for n in ast.walk(fn):
            if isinstance(n, ast.Assign) and len(n.targets) == 1 and isinstance(n.targets[0], ast.Name) and isinstance(n.value, ast.Name) \
                    and n.targets[0].id in relevant and n.value.id not in relevant and n.value.id not in fi.params():
                relevant.add(n.value.id)
                changed = True
    origins: Dict[int, ast.stmt] = {}
    status: Dict[int, str] = {}

    def reads(st: ast.AST, name: str) -> bool:
        return any(isinstance(x, ast.Name) and x.id == name and isinstance(x.ctx, ast.Load) for x in ast.walk(st))

    def use(state, st, node=None):
        for v, raw in list(state.items()):
            if raw and reads(node if node is not None else st, v):
                for o in raw:
                    if status.get(o) != "bad":
                        status[o] = "bad"
                        badwhere[o] = st

    badwhere: Dict[int, ast.stmt] = {}

    def walk(body: List[ast.stmt], state: Dict[str, frozenset]) -> Dict[str, frozenset]:
        for st in body:
            pr = _projection_of(st)
            if pr is not None and pr[0] in state:
                name, in_place = pr
                done = state.get(name, frozenset())
                for o in done:
                    if status.get(o) == "pending":
                        status[o] = "ok"
                state[name] = frozenset()
                if in_place:
                    for v in list(state):
                        if state[v] & done:
                            state[v] = state[v] - done
                continue
            if isinstance(st, ast.Assign) and len(st.targets) == 1 and isinstance(st.targets[0], ast.Name):
                t = st.targets[0].id
                if isinstance(st.value, ast.Name) and st.value.id in state:
                    state[t] = state[st.value.id]          # plain copy: same state
                    continue
                use(state, st, st.value)
                if t in relevant and not isinstance(st.value, (ast.Name, ast.Constant)):
                    origins[id(st)] = st
                    status[id(st)] = "pending"
                    state[t] = frozenset({id(st)})
                elif t in state:
                    state[t] = frozenset()
                continue
            if isinstance(st, ast.If):
                use(state, st, st.test)
                s1 = walk(st.body, dict(state))
                s2 = walk(st.orelse, dict(state))
                for k_ in set(s1) | set(s2):
                    state[k_] = s1.get(k_, frozenset()) | s2.get(k_, frozenset())
                continue
            if isinstance(st, (ast.While, ast.For)):
                use(state, st, st.test if isinstance(st, ast.While) else st.iter)
                s1 = walk(st.body, dict(state))
                for k_ in s1:
                    state[k_] = state.get(k_, frozenset()) | s1[k_]
                s1 = walk(st.orelse, dict(state))
                for k_ in s1:
                    state[k_] = state.get(k_, frozenset()) | s1[k_]
                continue
            if isinstance(st, (ast.With, ast.Try)):
                walk(st.body, state)
                continue
            use(state, st)
        return state

    walk(fn.body, {})
    k = 0
    for o, st in sorted(origins.items(), key=lambda kv: (kv[1].lineno, kv[1].col_offset)):
        k += 1
        desc = f"line-search candidate #{k} (`{ast.unparse(st.value)[:50]}`) is projected onto the non-negative orthant before use"
        if status[o] == "ok":
            res.ok("PROJ", fi.short, desc, prog.loc(fi, st))
        elif status[o] == "bad":
            w = badwhere[o]
            res.bad("PROJ", fi.short, desc, prog.loc(fi, st),
                    f"`{ast.unparse(w)[:60]}` reads it before any projection: a step with negative entries is evaluated / returned, "
                    "so factor entries can become negative")
        else:
            res.bad("PROJ", fi.short, desc, prog.loc(fi, st), "it is never projected: a step with negative entries can be returned")
    if k == 0:
        res.undecided("PROJ", fi.short, "line-search candidates are projected", prog.loc(fi), "no candidate assignment found")


def div_guard(prog: Program, res: Result) -> None:
    """The row helpers divide data by model values; a model value can be exactly zero (an empty slice, a zero row of the guess), so every
    such quotient has its denominator clamped with np.maximum(., <eps parameter>).  In a helper that clamps at least one quotient with its
    eps parameter, every other division by a non-constant must be clamped too (0/0 = NaN poisons the Hessian and the search direction)."""
    import re
    for q, fi in sorted(prog.functions.items()):
        if fi.module != "pyttb.cp_apr" or fi.parent:
            continue
        eps = [p for p in fi.params() if re.fullmatch(r"eps(ilon)?|eps_?div_?zero|epsDivZero", p)]
        if not eps:
            continue

        def clamped(e: ast.AST) -> bool:
            e = fi.resolve(e)
            while isinstance(e, ast.Subscript):
                e = e.value
            return isinstance(e, ast.Call) and (dotted(e.func) or "").split(".")[-1] == "maximum" \
                and any(isinstance(a, ast.Name) and a.id in eps for a in e.args)
        divs = [n for n in ast.walk(fi.node) if isinstance(n, ast.BinOp) and isinstance(n.op, ast.Div)
                and not isinstance(n.right, ast.Constant)]
        if not any(clamped(d.right) for d in divs):
            continue
        for d in divs:
            desc = f"quotient `{ast.unparse(d)[:60]}` has its denominator clamped away from zero with the helper's eps"
            if clamped(d.right):
                res.ok("DIV0", fi.short, desc, prog.loc(fi, d))
            else:
                res.bad("DIV0", fi.short, desc, prog.loc(fi, d),
                        f"the denominator `{ast.unparse(d.right)[:40]}` is not np.maximum(., {eps[0]}): where the model value is exactly 0 (and the "
                        "data too) the quotient is 0/0 = NaN, which no later comparison rejects")


def obj_order(prog: Program, res: Result) -> None:
    for short in SOLVERS:
        fi = prog.func(short)
        body = fi.node.body
        desc = "objective = log-likelihood of the data under the model AFTER the final normalisation; model unchanged afterwards and returned"
        norm_i = obj_i = None
        model = None
        for i, st in enumerate(body):
            t = ast.unparse(st)
            if isinstance(st, ast.Expr) and ".normalize(" in t and "sort=True" in t:
                norm_i = i
                model = t.split(".normalize")[0]
            if isinstance(st, ast.Assign) and isinstance(st.targets[0], ast.Name) and "tt_loglikelihood(" in t and st.targets[0].id == "obj":
                obj_i = i
        rets = [n for n in body if isinstance(n, ast.Return)]
        if norm_i is None or obj_i is None or not rets:
            res.undecided("OBJ", short, desc, prog.loc(fi), "final normalize / objective / return not found at top level")
            continue
        problems = []
        if obj_i < norm_i:
            problems.append("the objective is computed before the final normalisation (it then describes a different parameterisation / sort)")
        call = body[obj_i].value
        args = [ast.unparse(a) for a in call.args] if isinstance(call, ast.Call) else []
        if args[:2] != ["input_tensor", model]:
            problems.append(f"objective evaluated on ({', '.join(args)}) instead of (input_tensor, {model})")
        for st in body[obj_i + 1:]:
            for n in ast.walk(st):
                if isinstance(n, ast.Call) and isinstance(n.func, ast.Attribute) and isinstance(n.func.value, ast.Name) and n.func.value.id == model \
                        and n.func.attr in ("normalize", "arrange", "redistribute", "fixsigns", "update"):
                    problems.append(f"`{ast.unparse(n)[:40]}` changes the model after the objective was computed")
                if isinstance(n, (ast.Assign, ast.AugAssign)):
                    tg = n.targets if isinstance(n, ast.Assign) else [n.target]
                    for t_ in tg:
                        b = t_
                        while isinstance(b, (ast.Subscript, ast.Attribute)):
                            b = b.value
                        if isinstance(b, ast.Name) and b.id == model:
                            problems.append(f"`{ast.unparse(t_)[:40]}` is assigned after the objective was computed")
        r0 = rets[-1].value
        if not (isinstance(r0, ast.Tuple) and isinstance(r0.elts[0], ast.Name) and r0.elts[0].id == model):
            problems.append("the returned model is not the one the objective was computed for")
        if problems:
            res.bad("OBJ", short, desc, prog.loc(fi, body[obj_i]), "; ".join(problems))
        else:
            res.ok("OBJ", short, desc, prog.loc(fi, body[obj_i]))


def trace(prog: Program, res: Result) -> None:
    for short in SOLVERS:
        fi = prog.func(short)
        loops = [n for n in fi.node.body if isinstance(n, ast.For) and isinstance(n.target, ast.Name)]
        if not loops:
            res.undecided("TRACE", short, "per-iteration arrays", prog.loc(fi))
            continue
        loop = loops[-1]
        var = loop.target.id
        written: Dict[str, int] = {}
        for n in ast.walk(loop):
            if isinstance(n, (ast.Assign, ast.AugAssign)):
                tg = n.targets if isinstance(n, ast.Assign) else [n.target]
                for t in tg:
                    if isinstance(t, ast.Subscript) and isinstance(t.value, ast.Name):
                        c = _affine(t.slice, var)
                        if c is not None:
                            written[t.value.id] = max(written.get(t.value.id, c), c)
        for n in ast.walk(fi.node):
            if isinstance(n, ast.Subscript) and isinstance(n.ctx, ast.Load) and isinstance(n.value, ast.Name) and n.value.id in written \
                    and isinstance(n.slice, ast.Slice) and n.slice.upper is not None and not any(x is n for x in ast.walk(loop)):
                c = _affine(n.slice.upper, var)
                nm = n.value.id
                desc = f"reported prefix of {nm} has one entry per outer iteration performed"
                if c is None:
                    res.undecided("TRACE", short, desc, prog.loc(fi, n))
                elif c == written[nm] + 1:
                    res.ok("TRACE", short, desc, prog.loc(fi, n), f"written at [{var}+{written[nm]}], reported [:{var}+{c}]")
                else:
                    res.bad("TRACE", short, desc, prog.loc(fi, n), f"written at index {var}+{written[nm]} but reported as [:{var}+{c}]")
        # loops bounded
        desc = "outer iterations are bounded by maxiters"
        if ast.unparse(loop.iter).replace(" ", "") == "range(maxiters)":
            res.ok("LOOP", short, desc, prog.loc(fi, loop))
        else:
            res.bad("LOOP", short, desc, prog.loc(fi, loop), f"loop over {ast.unparse(loop.iter)}")
        inner = [n for n in ast.walk(loop) if isinstance(n, ast.For) and "maxinneriters" in ast.unparse(n.iter)]
        desc = "inner iterations are bounded by maxinneriters"
        if inner and all(ast.unparse(n.iter).replace(" ", "") == "range(maxinneriters)" for n in inner):
            res.ok("LOOP", short, desc, prog.loc(fi, inner[0]))
        elif inner:
            res.bad("LOOP", short, desc, prog.loc(fi, inner[0]), f"{[ast.unparse(n.iter) for n in inner]}")
        else:
            res.undecided("LOOP", short, desc, prog.loc(fi, loop))


def kkt(prog: Program, res: Result) -> None:
    for short in SOLVERS:
        fi = prog.func(short)
        defs = []
        for n in ast.walk(fi.node):
            if isinstance(n, ast.Assign):
                t = ast.unparse(n.targets[0])
                if t in ("kkt_violation", "kktModeViolations[n]") and isinstance(n.value, ast.Call):
                    defs.append(n)
        desc = "KKT violations are maxima of absolute values"
        if not defs:
            res.undecided("KKT", short, desc, prog.loc(fi))
            continue
        bad = [d for d in defs if not ("np.max(" in ast.unparse(d.value) and "np.abs(" in ast.unparse(d.value))]
        if bad:
            res.bad("KKT", short, desc, prog.loc(fi, bad[0]), f"`{ast.unparse(bad[0].value)[:80]}` can be negative")
        else:
            res.ok("KKT", short, desc, prog.loc(fi, defs[0]), f"{len(defs)} definition(s)")


def start(prog: Program, res: Result) -> None:
    for short in SOLVERS:
        fi = prog.func(short)
        desc = "the solver iterates on a copy of the guess"
        defs = A.single_defs(fi.node)
        m = defs.get("M", [])
        if m and ast.unparse(m[0].value).replace(" ", "") == "init.copy()":
            res.ok("START", short, desc, prog.loc(fi, m[0]))
        else:
            res.bad("START", short, desc, prog.loc(fi, m[0]) if m else prog.loc(fi), f"M starts as `{ast.unparse(m[0].value) if m else '?'}`")
    fi = prog.func("cp_apr.cp_apr")
    desc = "cp_apr hands the guess it used to every solver and returns that same object as the initial guess"
    rets = [n for n in fi.node.body if isinstance(n, ast.Return)]
    ok_ret = bool(rets) and isinstance(rets[-1].value, ast.Tuple) and len(rets[-1].value.elts) == 3 \
        and isinstance(rets[-1].value.elts[1], ast.Name) and rets[-1].value.elts[1].id == "init"
    calls = [c for c in ast.walk(fi.node) if isinstance(c, ast.Call) and (dotted(c.func) or "").startswith("tt_cp_apr_")]
    ok_pass = bool(calls) and all(len(c.args) > 2 and isinstance(c.args[2], ast.Name) and c.args[2].id == "init" for c in calls)
    if ok_ret and ok_pass:
        res.ok("START", fi.short, desc, prog.loc(fi), f"{len(calls)} solver calls")
    else:
        res.bad("START", fi.short, desc, prog.loc(fi), f"returns init: {ok_ret}; every solver receives init: {ok_pass}")


def phi_cover(prog: Program, res: Result) -> None:
    """calculate_phi: the update matrix has one row per index of the mode, all of them written (empty slices included)."""
    fi = prog.func("cp_apr.calculate_phi")
    desc = "every row of the multiplicative-update matrix is written (one aggregated value per index of the mode, empty slices included)"
    alloc = [a for a in ast.walk(fi.node) if isinstance(a, ast.Assign) and isinstance(a.targets[0], ast.Name) and a.targets[0].id == "Phi"
             and any(isinstance(x, ast.Call) and (dotted(x.func) or "").split(".")[-1] in ("ones", "zeros", "empty", "full") for x in ast.walk(a.value))]
    stores = [a for a in ast.walk(fi.node) if isinstance(a, ast.Assign) and isinstance(a.targets[0], ast.Subscript) and isinstance(a.targets[0].value, ast.Name)
              and a.targets[0].value.id == "Phi"]
    if not alloc or not stores:
        res.undecided("PHI", fi.short, desc, prog.loc(fi), "allocation / column stores of Phi not found")
        return
    ext = None
    for x in ast.walk(alloc[0].value):
        if isinstance(x, ast.Call) and (dotted(x.func) or "").split(".")[-1] in ("ones", "zeros", "empty", "full") and x.args and isinstance(x.args[0], ast.Tuple):
            ext = ast.unparse(x.args[0].elts[0])
    problems = []
    for st in stores:
        sl = st.targets[0].slice
        rows = sl.elts[0] if isinstance(sl, ast.Tuple) else sl
        if not (isinstance(rows, ast.Slice) and rows.lower is None and rows.upper is None):
            problems.append(f"`{ast.unparse(st.targets[0])}` writes only part of the rows: the remaining rows keep the initial fill of the buffer")
        # the value must have as many rows as the buffer: accumarray(..., size=<extent>)
        v = st.value
        if isinstance(v, ast.Name):
            d = [a for a in ast.walk(fi.node) if isinstance(a, ast.Assign) and isinstance(a.targets[0], ast.Name) and a.targets[0].id == v.id]
            v = d[0].value if d else v
        if isinstance(v, ast.Call):
            fn = (dotted(v.func) or "").split(".")[-1]
            if fn == "accumarray":
                size = kwarg(v, "size")
                if size is None or ast.unparse(size) != ext:
                    problems.append(f"aggregation size is {ast.unparse(size) if size is not None else 'not given'}, the buffer has {ext} rows")
            elif fn in ("bincount",):
                ml = kwarg(v, "minlength")
                if ml is None or ast.unparse(ml) != ext:
                    problems.append("np.bincount returns only max(index)+1 rows: trailing empty slices are not written")
    if problems:
        res.bad("PHI", fi.short, desc, prog.loc(fi, stores[0]), "; ".join(sorted(set(problems))))
    else:
        res.ok("PHI", fi.short, desc, prog.loc(fi, stores[0]), f"buffer rows {ext}; {len(stores)} full-column store(s)")


def check(prog: Program, res: Result, tier: str) -> None:
    res.explanation = __doc__.split("\n\n", 1)[1]
    res.assumptions = ["ktensor.normalize only re-parameterises (C08); tt_loglikelihood evaluates the Poisson log-likelihood of its arguments"]
    res.floors = {"PROJ": 2, "OBJ": 3, "TRACE": 12, "KKT": 3, "LOOP": 5, "START": 4, "PHI": 1, "LL": 8, "DIV0": 4, "KR": 2}
    proj(prog, res)
    phi_cover(prog, res)
    obj_order(prog, res)
    ll_mask(prog, res)
    trace(prog, res)
    kkt(prog, res)
    start(prog, res)
    div_guard(prog, res)
    # the dense Pi matrices: Khatri-Rao product of all factors but one, ascending and reversed (shared clause of C01 / C02)
    from . import eo_common as E
    pis = ("cp_apr.calculate_pi", "cp_apr.tt_calcpi_prowsubprob")
    for f in pis:
        prog.func(f)
    E.kr(prog, res, lambda fi: fi.short in pis, exempt=set())


# ------------------------------------------------------------------ LL: which entries contribute x*log(m)
def _provenance(fn: ast.FunctionDef) -> Dict[str, set]:
    """name -> parameters it (transitively) depends on; flow-insensitive over all assignments of the function."""
    params = [a.arg for a in fn.args.args + fn.args.kwonlyargs]
    prov: Dict[str, set] = {p: {p} for p in params}
    defs = []
    for n in ast.walk(fn):
        if isinstance(n, ast.Assign):
            for t in n.targets:
                for x in ast.walk(t):
                    if isinstance(x, ast.Name) and isinstance(x.ctx, ast.Store):
                        defs.append((x.id, n.value))
        elif isinstance(n, ast.AugAssign) and isinstance(n.target, ast.Name):
            defs.append((n.target.id, n.value))
        elif isinstance(n, ast.For):
            for x in ast.walk(n.target):
                if isinstance(x, ast.Name):
                    defs.append((x.id, n.iter))
    changed = True
    while changed:
        changed = False
        for name, val in defs:
            if name in params:
                continue
            src = set()
            for x in ast.walk(val):
                if isinstance(x, ast.Name) and isinstance(x.ctx, ast.Load):
                    src |= prov.get(x.id, set())
            if not src <= prov.get(name, set()):
                prov.setdefault(name, set()).update(src)
                changed = True
    return prov


def ll_mask(prog: Program, res: Result) -> None:
    for short in ("cp_apr.tt_loglikelihood", "cp_apr.tt_loglikelihood_row"):
        fi = prog.func(short)
        fn = fi.node
        prov = _provenance(fn)
        params = [a.arg for a in fn.args.args]
        data_side = {p for p in params if "data" in p.lower()}
        flags = {p for p in params if p.lower().startswith("is")}
        model_side = set(params) - data_side - flags
        parents = {}
        for x in ast.walk(fn):
            for c in ast.iter_child_nodes(x):
                parents[id(c)] = x

        def deps(e) -> set:
            out = set()
            for x in ast.walk(e):
                if isinstance(x, ast.Name) and isinstance(x.ctx, ast.Load):
                    out |= prov.get(x.id, set())
            return out

        logs = [c for c in ast.walk(fn) if isinstance(c, ast.Call) and (dotted(c.func) or "").split(".")[-1] in ("log", "log1p", "log2", "log10")]
        logs.sort(key=lambda c: (c.lineno, c.col_offset))
        if not logs:
            res.undecided("LL", short, "entries contributing x*log(m) are selected by the data", prog.loc(fi), "no log term found")
            continue
        for k, lg in enumerate(logs):
            # the statement holding the log term, and the enclosing tests
            selectors = []      # (text, deps, node)
            sparse_branch = False
            cur = lg
            stmt = None
            while id(cur) in parents:
                par = parents[id(cur)]
                if stmt is None and isinstance(cur, ast.stmt):
                    stmt = cur
                if isinstance(par, ast.If) and cur is not par.test:
                    t = par.test
                    txt = ast.unparse(t)
                    in_body = any(cur is b for b in par.body)
                    if "sptensor" in txt or (deps(t) and deps(t) <= flags):
                        # representation switch: stored nonzeros are the selection in the sparse branch
                        positive = in_body
                        if isinstance(t, ast.UnaryOp) and isinstance(t.op, ast.Not):
                            positive = not positive
                        sparse_branch = sparse_branch or positive
                    elif any(isinstance(x, ast.Subscript) for x in ast.walk(t)):
                        selectors.append((txt, deps(t), t))
                cur = par
            # masks / index selections applied inside the term
            scope = stmt if stmt is not None else lg
            for x in ast.walk(scope):
                if isinstance(x, ast.Subscript):
                    for sl in (x.slice.elts if isinstance(x.slice, ast.Tuple) else [x.slice]):
                        if isinstance(sl, ast.Slice):
                            continue
                        d = deps(sl)
                        if d:
                            selectors.append((ast.unparse(sl), d, sl))
                # a ufunc / reduction restricted by `where=`: the mask is the selection
                if isinstance(x, ast.Call):
                    for kw_ in x.keywords:
                        if kw_.arg == "where" and deps(kw_.value):
                            selectors.append((ast.unparse(kw_.value), deps(kw_.value), kw_.value))
            branch = "sparse" if sparse_branch else "dense"
            # the argument of the log is the model value itself: not clamped, clipped or shifted
            adesc = f"{branch} branch: the logarithm is taken of the model value itself, not of a clamped or shifted one (log term #{k + 1})"
            defs_of = {}
            for a_ in ast.walk(fn):
                if isinstance(a_, ast.Assign) and len(a_.targets) == 1 and isinstance(a_.targets[0], ast.Name):
                    defs_of.setdefault(a_.targets[0].id, []).append(a_.value)

            def clamp_in(e, depth=0):
                for x in ast.walk(e):
                    if isinstance(x, ast.Call) and (dotted(x.func) or "").split(".")[-1] in ("maximum", "fmax", "clip", "where", "nan_to_num"):
                        return x
                    if isinstance(x, ast.BinOp) and isinstance(x.op, ast.Add) and any(
                            isinstance(y, ast.Constant) or (isinstance(y, ast.Name) and y.id.lower().startswith("eps")) for y in (x.left, x.right)):
                        return x
                    if isinstance(x, ast.Name) and depth < 3:
                        for d in defs_of.get(x.id, []):
                            r = clamp_in(d, depth + 1)
                            if r is not None:
                                return r
                return None
            cl = clamp_in(lg.args[0]) if lg.args else None
            if cl is not None:
                res.bad("LL", short, adesc, prog.loc(fi, cl),
                        f"`{ast.unparse(cl)[:60]}` bounds the model value away from zero before the logarithm: a model that predicts 0 for a positive "
                        "count then has a finite objective, so the line search accepts steps the Poisson likelihood forbids")
            else:
                res.ok("LL", short, adesc, prog.loc(fi, lg))
            desc = f"{branch} branch: the entries contributing x*log(m) are selected by the data, not by the model (log term #{k + 1})"
            by_model = [s_ for s_ in selectors if s_[1] & model_side]
            if by_model:
                res.bad("LL", short, desc, prog.loc(fi, by_model[0][2]),
                        f"the selection `{by_model[0][0][:60]}` depends on the model ({', '.join(sorted(by_model[0][1] & model_side))}): entries where the "
                        "model is zero but the count is positive are dropped instead of yielding -inf, so the reported objective is finite "
                        "where the Poisson log-likelihood is not")
            elif selectors and all(s_[1] <= data_side | flags for s_ in selectors):
                res.ok("LL", short, desc, prog.loc(fi, lg), f"selected by {sorted({a for s_ in selectors for a in s_[1]})}")
            elif sparse_branch and not selectors:
                res.ok("LL", short, desc, prog.loc(fi, lg), "all stored nonzeros of the sparse data")
            else:
                res.undecided("LL", short, desc, prog.loc(fi, lg), "no data-keyed selection recognised")
