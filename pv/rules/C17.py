"""C17 — index arithmetic, row-set helpers and the Khatri-Rao product obey their laws.

Decided (structural facts of pyttb_utils.py / khatrirao.py):
  IDX-inv   tt_sub2ind and tt_ind2sub take an `order` parameter with the same default "F", forward it unchanged to
            numpy's ravel_multi_index / unravel_index (mutually inverse for equal order), and hand subscripts over
            column-wise (tuple(subs.transpose()) in, .transpose() out)
  DIMS      tt_dimscheck returns the selected modes sorted ascending, derives the excluded-modes complement as
            setdiff1d(arange(N), exclude_dims), and returns as multiplicand index the argsort of the given modes when
            their count equals the multiplicand count, else the sorted modes themselves
  KRAX      khatrirao reverses its argument list iff reverse is True, and folds each new factor onto the fast (first)
            axis of the final F-order flatten (new factor reshaped to (-1, 1, n), accumulator to (1, -1, n), order F)
  HELP-dom  tt_intersect_rows / tt_setdiff_rows look rows up in their first argument's unique rows RESTORED TO ITS OWN ORDER
            (Unique[argsort(first-occurrence index)]), so that the positions they return are indices into that argument, and
            tt_intersect_rows lists them in the order of its second argument — the structural core of the contracts the
            sparse checks trust
  EO-1      no reshape-family call in the two modules uses C order on array data (reviewed exceptions aside)
Not decided: the set-algebra laws of tt_ismember_rows / tt_intersect_rows / tt_setdiff_rows / tt_union_rows (the other
checks TRUST their documented contracts), argument parsing of corner inputs.
"""
from __future__ import annotations

import ast
from typing import Dict, List, Optional

from ..model import Program, dotted, kwarg, const, NOCONST, AnalysisError
from ..report import Result
from . import eo_common as E


def _idx(prog: Program, res: Result) -> None:
    pair = {"tt_sub2ind": "ravel_multi_index", "tt_ind2sub": "unravel_index"}
    defaults = {}
    for name, npf in pair.items():
        fi = prog.func(f"pyttb_utils.{name}")
        d = const(fi.param_defaults().get("order"))
        defaults[name] = d
        desc = f"{name} numbers entries first-index-fastest by default and forwards its order to numpy.{npf}"
        call = None
        for c in ast.walk(fi.node):
            if isinstance(c, ast.Call) and (dotted(c.func) or "").split(".")[-1] == npf:
                call = c
        where = prog.loc(fi, call) if call is not None else prog.loc(fi)
        if call is None:
            res.undecided("IDX-inv", fi.short, desc, where, f"numpy.{npf} is no longer called")
            continue
        o = kwarg(call, "order") or (call.args[2] if len(call.args) > 2 else None)
        problems = []
        if d != "F":
            problems.append(f"default order is {d!r}, not 'F'")
        if o is None:
            problems.append("numpy is called without order (C numbering)")
        elif not (isinstance(o, ast.Name) and o.id == "order"):
            problems.append(f"numpy receives order={ast.unparse(o)} instead of the function's own order argument")
        if name == "tt_sub2ind":
            a0 = call.args[0] if call.args else None
            t = fi.rtext(a0) if a0 is not None else ""
            if not (t.startswith("tuple(") and ("transpose()" in t or ".T" in t)):
                problems.append(f"subscripts are not handed over column-wise (got {t})")
        else:
            # result must be transposed back to one row per index
            ret = [n for n in ast.walk(fi.node) if isinstance(n, ast.Return) and n.value is not None and any(x is call for x in ast.walk(n.value))]
            if ret and not ("transpose()" in fi.rtext(ret[0].value) or ".T" in fi.rtext(ret[0].value) or "transpose(" in fi.rtext(ret[0].value)):
                problems.append("the coordinate arrays are not transposed back into subscript rows")
        if problems:
            res.bad("IDX-inv", fi.short, desc, where, "; ".join(problems))
        else:
            res.ok("IDX-inv", fi.short, desc, where)
    desc = "tt_sub2ind and tt_ind2sub share one default order (mutual inverses)"
    if defaults["tt_sub2ind"] == defaults["tt_ind2sub"]:
        res.ok("IDX-inv", "pyttb_utils.tt_sub2ind", desc, "", nontrivial=False)
    else:
        res.bad("IDX-inv", "pyttb_utils.tt_sub2ind", desc, "", f"defaults differ: {defaults}")


def _dims(prog: Program, res: Result) -> None:
    fi = prog.func("pyttb_utils.tt_dimscheck")
    short = fi.short
    assigns: Dict[str, list] = {}
    for n in ast.walk(fi.node):
        if isinstance(n, ast.Assign) and isinstance(n.targets[0], ast.Name):
            assigns.setdefault(n.targets[0].id, []).append(n)

    special: Dict[str, str] = {}

    def tag(e: ast.expr, depth=0) -> Optional[str]:
        """'ARGSORT(x)' / 'SORTED(x)' tags."""
        if isinstance(e, ast.Call):
            nm = (dotted(e.func) or "").split(".")[-1]
            if nm == "argsort" and e.args:
                if isinstance(e.args[0], ast.UnaryOp):
                    return f"ARGSORT-DESC({ast.unparse(e.args[0].operand)})"
                return f"ARGSORT({ast.unparse(e.args[0])})"
            if nm == "sort" and e.args:
                return f"SORTED({ast.unparse(e.args[0])})"
        if isinstance(e, ast.Subscript) and isinstance(e.slice, ast.Name):
            t = name_tag(e.slice.id, depth)
            if t and t.startswith("ARGSORT(") and t[len("ARGSORT("):-1] == ast.unparse(e.value):
                return f"SORTED({ast.unparse(e.value)})"
            if t and t.startswith("ARGSORT-DESC("):
                return f"SORTED-DESC({ast.unparse(e.value)})"
        if isinstance(e, ast.Subscript) and isinstance(e.slice, ast.Slice) and e.slice.step is not None and const(e.slice.step) == -1:
            t = tag(e.value, depth)
            if t and t.startswith("SORTED("):
                return "SORTED-DESC(" + t[len("SORTED("):]
        if isinstance(e, ast.Name):
            return name_tag(e.id, depth)
        return None

    # tuple assignments from np.unique(x, return_inverse/return_index=True)
    for n in ast.walk(fi.node):
        if isinstance(n, ast.Assign) and isinstance(n.targets[0], ast.Tuple) and isinstance(n.value, ast.Call) \
                and (dotted(n.value.func) or "").split(".")[-1] == "unique" and n.value.args:
            x = ast.unparse(n.value.args[0])
            names = [t.id if isinstance(t, ast.Name) else None for t in n.targets[0].elts]
            kinds = ["SORTED"] + [k for k in ("return_index", "return_inverse", "return_counts")
                                  if kwarg(n.value, k) is not None and const(kwarg(n.value, k)) is True]
            for nm_, k in zip(names, kinds):
                if nm_:
                    special[nm_] = {"SORTED": f"SORTED({x})", "return_index": f"ARGSORT({x})",
                                    "return_inverse": f"INVERSE-OF-ARGSORT({x})", "return_counts": "COUNTS"}[k]

    def name_tag(nm: str, depth=0) -> Optional[str]:
        if nm in special:
            return special[nm]
        if depth > 3 or nm not in assigns or len(assigns[nm]) != 1:
            return None
        return tag(assigns[nm][0].value, depth + 1)

    ret = [n for n in ast.walk(fi.node) if isinstance(n, ast.Return) and isinstance(n.value, ast.Tuple) and len(n.value.elts) == 2]
    if not ret:
        raise AnalysisError("tt_dimscheck no longer returns a pair")
    # several returns (an early `return sorted, None` when no multiplicands are expected): the informative one names an index
    ret.sort(key=lambda r: (isinstance(r.value.elts[1], ast.Constant), -r.lineno))
    ret = list(reversed(ret))
    first, second = ret[-1].value.elts
    t1 = tag(first)
    desc = "first result is the selected modes in ascending order"
    if t1 and t1.startswith("SORTED(") :
        res.ok("DIMS", short, desc, prog.loc(fi, ret[-1]), t1)
        subject = t1[len("SORTED("):-1]
    elif t1:
        res.bad("DIMS", short, desc, prog.loc(fi, ret[-1]), f"first result is {t1}")
        subject = None
    else:
        res.undecided("DIMS", short, desc, prog.loc(fi, ret[-1]))
        subject = None
    # the multiplicand index
    if isinstance(second, ast.Name) and second.id in assigns:
        desc = "multiplicand index = argsort of the modes when one multiplicand per selected mode, else the sorted modes"
        cond_assigns = [a for a in assigns[second.id] if not (isinstance(a.value, ast.Constant) and a.value.value is None)]
        verdict, why = None, ""
        for a in cond_assigns:
            v = a.value
            if isinstance(v, ast.IfExp) and isinstance(v.test, ast.Compare) and len(v.test.ops) == 1:
                eq = isinstance(v.test.ops[0], ast.Eq)
                ne = isinstance(v.test.ops[0], ast.NotEq)
                names = {ast.unparse(v.test.left), ast.unparse(v.test.comparators[0])}
                tt, ft = tag(v.body), tag(v.orelse)
                if ne:
                    tt, ft = ft, tt
                if not (eq or ne) or "M" not in names:
                    verdict, why = "UNDEC", f"selector test {ast.unparse(v.test)}"
                elif tt and ft and tt.startswith("ARGSORT(") and ft.startswith("SORTED(") and (subject is None or (subject in tt and subject in ft)):
                    verdict, why = "OK", f"P == M -> {tt}; else -> {ft}"
                elif tt is None or ft is None:
                    verdict, why = "UNDEC", f"index expressions not recognised ({tt}, {ft})"
                else:
                    verdict, why = "BAD", f"when the counts are equal the index is {tt}, otherwise {ft} (expected ARGSORT / SORTED of the modes): " \
                                          "multiplicands are paired with the wrong modes whenever dims is not an involution of its sorted order"
        for n in ast.walk(fi.node):
            if isinstance(n, ast.If) and isinstance(n.test, ast.Compare) and len(n.test.ops) == 1:
                tb = [a for a in cond_assigns if a in n.body]
                fb = [a for a in cond_assigns if a in n.orelse]
                if tb and fb:
                    eq = isinstance(n.test.ops[0], ast.Eq)
                    ne = isinstance(n.test.ops[0], ast.NotEq)
                    names = {ast.unparse(n.test.left), ast.unparse(n.test.comparators[0])}
                    tt, ft = tag(tb[0].value), tag(fb[0].value)
                    if ne:
                        tt, ft = ft, tt
                    count_names = {nm_ for nm_, defs_ in assigns.items() if len(defs_) == 1 and isinstance(defs_[0].value, ast.Call)
                                   and (dotted(defs_[0].value.func) or "") == "len"} | {x for x in names if x.startswith("len(")}
                    if "M" in names and not ((eq or ne) and (names - {"M"}) <= count_names) and (names - {"M"}) <= (count_names | {"N"}):
                        verdict, why = "BAD", (f"the choice between argsort and sorted modes is made on `{ast.unparse(n.test)}`, not on M == number of "
                                               "selected modes: with one multiplicand per mode of a full, unsorted dims the multiplicands are "
                                               "paired with the wrong modes")
                    elif not (eq or ne) or "M" not in names:
                        verdict, why = "UNDEC", f"selector test {ast.unparse(n.test)}"
                    elif tt and ft and tt.startswith("ARGSORT(") and ft.startswith("SORTED(") and (subject is None or (subject in tt and subject in ft)):
                        verdict, why = "OK", f"P == M -> {tt}; else -> {ft}"
                    elif tt is None or ft is None:
                        verdict, why = "UNDEC", f"index expressions not recognised ({tt}, {ft})"
                    else:
                        verdict, why = "BAD", f"when the counts are equal the index is {tt}, otherwise {ft} (expected ARGSORT / SORTED of the modes): " \
                                              "multiplicands are paired with the wrong modes whenever dims is not an involution of its sorted order"
        if verdict == "OK":
            res.ok("DIMS", short, desc, prog.loc(fi), why)
        elif verdict == "BAD":
            res.bad("DIMS", short, desc, prog.loc(fi), why)
        else:
            res.undecided("DIMS", short, desc, prog.loc(fi), why)
    # complement
    desc = "excluded modes are complemented as setdiff1d(arange(N), exclude_dims)"
    sd = [c for c in ast.walk(fi.node) if isinstance(c, ast.Call) and (dotted(c.func) or "").split(".")[-1] == "setdiff1d"]
    if sd:
        a, b = (fi.rtext(x) for x in sd[0].args[:2])
        if "arange" in a and "exclude_dims" in b and "N" in a:
            res.ok("DIMS", short, desc, prog.loc(fi, sd[0]))
        else:
            res.bad("DIMS", short, desc, prog.loc(fi, sd[0]), f"complement computed as setdiff1d({a}, {b})")
    else:
        res.undecided("DIMS", short, desc, prog.loc(fi))
    desc = "with neither dims nor exclude_dims every mode is selected (arange(N))"
    parents = {}
    for x in ast.walk(fi.node):
        for c in ast.iter_child_nodes(x):
            parents[id(c)] = x

    def none_facts(node) -> Dict[str, bool]:
        """{'dims': True} = known to be None on the way to node, from the enclosing if / elif / else tests."""
        facts: Dict[str, bool] = {}

        def learn(test, truth):
            if isinstance(test, ast.BoolOp) and isinstance(test.op, ast.And) and truth:
                for v in test.values:
                    learn(v, True)
                return
            if isinstance(test, ast.BoolOp) and isinstance(test.op, ast.Or) and not truth:
                for v in test.values:
                    learn(v, False)
                return
            if isinstance(test, ast.Compare) and len(test.ops) == 1 and isinstance(test.left, ast.Name) \
                    and isinstance(test.comparators[0], ast.Constant) and test.comparators[0].value is None:
                is_none = isinstance(test.ops[0], ast.Is) == truth
                facts[test.left.id] = is_none
        cur = node
        while id(cur) in parents:
            par = parents[id(cur)]
            if isinstance(par, ast.If):
                if any(cur is b for b in par.body):
                    learn(par.test, True)
                elif any(cur is b for b in par.orelse):
                    learn(par.test, False)
            cur = par
        return facts
    found = False
    for a_ in ast.walk(fi.node):
        if isinstance(a_, ast.Assign) and len(a_.targets) == 1 and isinstance(a_.targets[0], ast.Name):
            f_ = none_facts(a_)
            if f_.get("dims") is True and f_.get("exclude_dims") is True:
                found = True
                if fi.rtext(a_.value).replace(" ", "") in ("np.arange(0,N)", "np.arange(N)"):
                    res.ok("DIMS", short, desc, prog.loc(fi, a_), nontrivial=False)
                else:
                    res.bad("DIMS", short, desc, prog.loc(fi, a_), f"default selection is {ast.unparse(a_.value)}")
                break
    if not found:
        res.undecided("DIMS", short, desc, prog.loc(fi))


def _shape_tuple(e: Optional[ast.expr]):
    if isinstance(e, (ast.Tuple, ast.List)):
        return tuple(const(x) if const(x) is not NOCONST else "n" for x in e.elts)
    return None


def _krax(prog: Program, res: Result) -> None:
    fi = prog.func("khatrirao.khatrirao")
    short = fi.short
    desc = "argument list is reversed iff reverse is True"
    rev = None
    for n in ast.walk(fi.node):
        if isinstance(n, ast.If):
            t = ast.unparse(n.test)
            if "reverse" in t:
                for a in n.body:
                    if isinstance(a, ast.Assign) and ("reversed(" in ast.unparse(a.value) or "[::-1]" in ast.unparse(a.value)):
                        neg = t.startswith("not ") or "is False" in t or "== False" in t
                        rev = (not neg, n)
    if rev is None:
        res.bad("KRAX", short, desc, prog.loc(fi), "the reverse flag no longer reverses the argument list")
    elif rev[0]:
        res.ok("KRAX", short, desc, prog.loc(fi, rev[1]))
    else:
        res.bad("KRAX", short, desc, prog.loc(fi, rev[1]), "the list is reversed when reverse is False")
    loop = [n for n in ast.walk(fi.node) if isinstance(n, ast.For)]
    desc = "each folded factor lands on the fast axis: new (-1, 1, n) times accumulator (1, -1, n) in F order, final F flatten"
    if not loop or not isinstance(loop[-1].target, ast.Name):
        res.undecided("KRAX", short, desc, prog.loc(fi))
        return
    lv = loop[-1].target.id
    new_shape = acc_shape = None
    acc_order = None
    acc_name = None
    for c in ast.walk(loop[-1]):
        if isinstance(c, ast.Call) and (dotted(c.func) or "").split(".")[-1] == "reshape" and c.args:
            shp = _shape_tuple(kwarg(c, "newshape") or (c.args[1] if len(c.args) > 1 else None))
            src = c.args[0]
            if isinstance(src, ast.Name) and src.id == lv:
                new_shape = shp
            elif isinstance(src, ast.Name):
                acc_shape, acc_name = shp, src.id
                o = kwarg(c, "order")
                acc_order = const(o) if o is not None else "C"
    final = None
    for n in ast.walk(fi.node):
        if isinstance(n, ast.Return) and isinstance(n.value, ast.Call) and (dotted(n.value.func) or "").split(".")[-1] == "reshape":
            o = kwarg(n.value, "order")
            final = (const(o) if o is not None else "C", _shape_tuple(kwarg(n.value, "newshape") or (n.value.args[1] if len(n.value.args) > 1 else None)))
    problems = []
    if new_shape != (-1, 1, "n"):
        problems.append(f"new factor reshaped to {new_shape} (expected (-1, 1, n))")
    if acc_shape != (1, -1, "n"):
        problems.append(f"accumulator reshaped to {acc_shape} (expected (1, -1, n))")
    if acc_order != "F":
        problems.append(f"accumulator reshape order is {acc_order}")
    if final is None or final[0] != "F" or final[1] != (-1, "n"):
        problems.append(f"final flatten is {final} (expected order F to (-1, n))")
    if problems:
        res.bad("KRAX", short, desc, prog.loc(fi, loop[-1]), "; ".join(problems))
    else:
        res.ok("KRAX", short, desc, prog.loc(fi, loop[-1]))
    # start from the first (after optional reversal) matrix
    desc = "the fold starts from the first matrix and visits the others in order"
    it = fi.rtext(loop[-1].iter)           # named slices (`rest = matrices[1:]`) read as their definition
    start = [a for a in ast.walk(fi.node) if isinstance(a, ast.Assign) and isinstance(a.targets[0], ast.Name) and a.targets[0].id == acc_name]
    if start and fi.rtext(start[0].value).endswith("[0]") and it.endswith("[1:]"):
        res.ok("KRAX", short, desc, prog.loc(fi, loop[-1]), nontrivial=False)
    else:
        res.undecided("KRAX", short, desc, prog.loc(fi, loop[-1]), f"start {ast.unparse(start[0].value) if start else None}, iterate {it}")


def _helpers(prog: Program, res: Result) -> None:
    """tt_intersect_rows / tt_setdiff_rows: the indices they return address A itself.

    Both look rows up with tt_ismember_rows(search, source), whose results are positions in `source`.  For those positions
    to be indices into A (duplicate-free), `source` must be A's unique rows restored to A's own order:
    Unique[np.argsort(first-occurrence index)] - or the positions must be mapped back through that index."""
    for name in ("tt_intersect_rows", "tt_setdiff_rows"):
        fi = prog.func(f"pyttb_utils.{name}")
        a_param, b_param = fi.params()[0], fi.params()[1]
        calls: List[tuple] = []
        _rets, problems = _spaces(fi.node, calls)
        desc = f"{name} returns indices into its first argument (unique rows restored to the argument's own order before the look-up)"
        if not calls:
            res.undecided("HELP-dom", fi.short, desc, prog.loc(fi), "unique / ismember structure not recognised")
            continue
        node, search, source = calls[0]
        src_t = ast.unparse(node.args[1]).replace(" ", "")
        if isinstance(source, _SV) and source.kind == "listing" and source.align == f"orderU({a_param})":
            res.ok("HELP-dom", fi.short, desc, prog.loc(fi, node), f"source = {src_t}: unique rows in the order of `{a_param}`")
        elif isinstance(source, _SV) and source.kind == "listing" and source.align == f"sortedU({a_param})":
            if not problems:
                res.ok("HELP-dom", fi.short, desc, prog.loc(fi, node), f"source = {src_t} (sorted), positions mapped back through the first-occurrence index")
            else:
                res.bad("HELP-dom", fi.short, desc, prog.loc(fi, node),
                        f"rows are looked up in `{src_t}` (np.unique's SORTED order): the returned positions index the sorted unique list, "
                        f"not `{a_param}` - wrong whenever `{a_param}` is not stored in sorted order")
        else:
            res.undecided("HELP-dom", fi.short, desc, prog.loc(fi, node), f"source = {src_t}: {source!r}")
        # the search list follows B's own order (documented: sequence follows the second argument)
        if name == "tt_intersect_rows":
            srch_t = ast.unparse(node.args[0]).replace(" ", "")
            d2 = "tt_intersect_rows lists the common rows in the order of its second argument"
            if isinstance(search, _SV) and search.kind == "listing" and search.align == f"orderU({b_param})":
                res.ok("HELP-dom", fi.short, d2, prog.loc(fi, node), f"search = {srch_t}")
            elif isinstance(search, _SV) and search.kind == "listing" and search.align == f"sortedU({b_param})":
                res.bad("HELP-dom", fi.short, d2, prog.loc(fi, node),
                        f"search list is `{srch_t}` (sorted unique rows): callers that rely on the documented order pair wrong entries")
            elif isinstance(search, _SV) and search.kind == "listing":
                res.bad("HELP-dom", fi.short, d2, prog.loc(fi, node),
                        f"search list is `{srch_t}` ({search.align}): callers that rely on the documented order pair wrong entries")
            else:
                res.undecided("HELP-dom", fi.short, d2, prog.loc(fi, node), f"search = {srch_t}: {search!r}")


# ------------------------------------------------------------------ HELP-space: index spaces of the row helpers
class _SV:
    """abstract value: kind in listing / index / mask; `align` = the listing its entries are aligned with; `vals` = the listing
    its values are positions of (indices only)"""
    def __init__(self, kind, align=None, vals=None):
        self.kind, self.align, self.vals = kind, align, vals

    def __repr__(self):
        return f"{self.kind}[{self.align}->{self.vals}]"


def _spaces(fn: ast.FunctionDef, ismember_calls: Optional[list] = None):
    """Evaluate a row helper over index spaces.  Returns (value of each return, list of (node, message) mismatches); the abstract
    operands of every tt_ismember_rows call are appended to `ismember_calls` as (call, search, source)."""
    params = [a.arg for a in fn.args.args]
    env = {p: _SV("listing", f"rows({p})") for p in params}
    problems = []
    returns = []

    def ev(e):
        if isinstance(e, ast.Name):
            return env.get(e.id)
        if isinstance(e, ast.Tuple) and len(e.elts) == 1:
            return ev(e.elts[0])
        if isinstance(e, ast.Tuple):
            return tuple(ev(x) for x in e.elts)
        if isinstance(e, ast.Compare) and len(e.ops) == 1:
            l = ev(e.left)
            if l is not None and l.kind == "index":
                return _SV("mask", l.align)
            return None
        if isinstance(e, ast.Call):
            nm = dotted(e.func) or ""
            base = nm.split(".")[-1]
            if base == "unique" and e.args and const(kwarg(e, "return_index")) is True:
                x = ev(e.args[0])
                if x is not None and x.kind == "listing" and x.align.startswith("rows("):
                    X = x.align[5:-1]
                    return (_SV("listing", f"sortedU({X})"), _SV("index", f"sortedU({X})", f"rows({X})"))
                return None
            if base == "argsort" and e.args:
                i = ev(e.args[0])
                if isinstance(i, _SV) and i.kind == "index" and i.align.startswith("sortedU(") and i.vals.startswith("rows("):
                    X = i.align[8:-1]
                    return _SV("index", f"orderU({X})", f"sortedU({X})")
                return None
            if base == "sort" and e.args:
                i = ev(e.args[0])
                if isinstance(i, _SV) and i.kind == "index" and i.align.startswith("sortedU(") and i.vals.startswith("rows("):
                    X = i.align[8:-1]
                    return _SV("index", f"orderU({X})", f"rows({X})")
                if isinstance(i, _SV) and i.kind == "index":
                    return _SV("index", "sub", i.vals)       # sorting values keeps their space, loses the alignment
                return None
            if base in ("where", "nonzero", "flatnonzero") and e.args:
                m = ev(e.args[0])
                if isinstance(m, _SV) and m.kind == "mask":
                    return _SV("index", "sub", m.align)
                return None
            if base == "tt_ismember_rows" and len(e.args) == 2:
                a, b = ev(e.args[0]), ev(e.args[1])
                if ismember_calls is not None and not any(c[0] is e for c in ismember_calls):
                    ismember_calls.append((e, a, b))
                if isinstance(a, _SV) and isinstance(b, _SV) and a.kind == "listing" and b.kind == "listing":
                    return (_SV("mask", a.align), _SV("index", a.align, b.align))
                return None
            if base == "setdiff1d" and len(e.args) == 2:
                a, b = ev(e.args[0]), ev(e.args[1])
                if isinstance(a, _SV) and isinstance(b, _SV) and a.kind == "index" and b.kind == "index":
                    if a.vals != b.vals:
                        problems.append((e, f"np.setdiff1d removes positions in `{b.vals}` from indices into `{a.vals}`"))
                    return _SV("index", "sub", a.vals)
                return None
            if base in ("vstack", "concatenate") and e.args and isinstance(e.args[0], (ast.Tuple, ast.List)):
                for x in e.args[0].elts:
                    ev(x)
                return _SV("listing", "rows(result)")
            if base in ("astype", "copy", "squeeze", "array", "asarray") :
                tgt = e.func.value if isinstance(e.func, ast.Attribute) and not nm.startswith(("np.", "numpy.")) else (e.args[0] if e.args else None)
                return ev(tgt) if tgt is not None else None
            return None
        if isinstance(e, ast.Subscript):
            base = ev(e.value)
            if isinstance(base, tuple):
                k = const(e.slice)
                return base[k] if isinstance(k, int) and k < len(base) else None
            sl = e.slice
            if isinstance(sl, ast.Tuple) and sl.elts and all(isinstance(x, ast.Slice) for x in sl.elts[1:]):
                sl = sl.elts[0]
            idx = ev(sl) if not isinstance(sl, ast.Slice) else None
            if not isinstance(base, _SV) or not isinstance(idx, _SV):
                return base if isinstance(base, _SV) and isinstance(sl, ast.Slice) else None
            if idx.kind == "mask":
                if idx.align != base.align:
                    problems.append((e, f"a mask aligned with `{idx.align}` selects from `{ast.unparse(e.value)}`, which is aligned with `{base.align}`"))
                return _SV(base.kind, "sub", base.vals)
            if idx.kind == "index":
                if idx.vals != base.align:
                    problems.append((e, f"`{ast.unparse(sl)[:50]}` holds positions in `{idx.vals}` but subscripts `{ast.unparse(e.value)}`, "
                                        f"which is aligned with `{base.align}`"))
                return _SV(base.kind, idx.align, base.vals)
            return None
        return None

    def block(body):
        for st in body:
            if isinstance(st, ast.Assign) and len(st.targets) == 1:
                v = ev(st.value)
                t = st.targets[0]
                if isinstance(t, ast.Name) and isinstance(v, _SV):
                    env[t.id] = v
                elif isinstance(t, ast.Name) and isinstance(v, tuple):
                    env[t.id] = v
                elif isinstance(t, ast.Tuple) and isinstance(v, tuple):
                    for x, y in zip(t.elts, v):
                        if isinstance(x, ast.Name) and x.id != "_":
                            env[x.id] = y
                elif isinstance(t, ast.Name):
                    env.pop(t.id, None)
            elif isinstance(st, ast.If):
                # `if X.size > 0: <unique ...> else: <empty arrays>` (either way round): the side that computes something carries the
                # logic; the other side binds empty arrays, which fit every space
                before = dict(env)
                block(st.body)
                after_body = dict(env)
                env.clear()
                env.update(before)
                block(st.orelse)
                after_else = dict(env)
                env.clear()
                for k in set(after_body) | set(after_else):
                    x, y = after_body.get(k), after_else.get(k)
                    if x is before.get(k) and y is not None:
                        env[k] = y
                    elif y is before.get(k) and x is not None:
                        env[k] = x
                    elif x is not None and y is not None and repr(x) == repr(y):
                        env[k] = x
                    elif x is None or y is None:
                        if (x or y) is not None:
                            env[k] = x or y
            elif isinstance(st, ast.Return) and st.value is not None:
                returns.append((st, ev(st.value)))

    block(fn.body)
    return returns, problems


def _help_space(prog: Program, res: Result) -> None:
    for name, want in (("tt_intersect_rows", "index"), ("tt_setdiff_rows", "index"), ("tt_union_rows", "listing")):
        fi = prog.func(f"pyttb_utils.{name}")
        a_param = fi.params()[0]
        rets, problems = _spaces(fi.node)
        desc = f"{name}: every index is used in the space it was computed in, and the result addresses the rows of `{a_param}` (repeated rows included)"
        if problems:
            node, msg = problems[0]
            res.bad("HELP-space", fi.short, desc, prog.loc(fi, node),
                    msg + " - the two spaces coincide only when the argument has no repeated rows / is stored in sorted order")
            continue
        final = [v for _, v in rets if v is not None]
        if not final:
            res.undecided("HELP-space", fi.short, desc, prog.loc(fi), "result not tracked")
            continue
        v = final[-1]
        if want == "index":
            if isinstance(v, _SV) and v.kind == "index" and v.vals == f"rows({a_param})":
                res.ok("HELP-space", fi.short, desc, prog.loc(fi, rets[-1][0]), repr(v))
            elif isinstance(v, _SV) and v.kind == "index":
                res.bad("HELP-space", fi.short, desc, prog.loc(fi, rets[-1][0]),
                        f"the returned indices are positions in `{v.vals}`, not in `rows({a_param})`: with repeated rows in `{a_param}` they address other rows")
            else:
                res.undecided("HELP-space", fi.short, desc, prog.loc(fi, rets[-1][0]), repr(v))
        else:
            if isinstance(v, _SV) and v.kind == "listing":
                res.ok("HELP-space", fi.short, desc.replace(f"addresses the rows of `{a_param}`", "is a list of rows"), prog.loc(fi, rets[-1][0]))
            else:
                res.undecided("HELP-space", fi.short, desc, prog.loc(fi, rets[-1][0]), repr(v))


# ------------------------------------------------------------------ HELP-key: rows compared through scalar keys
KEY_FIXTURE = """
def ismember(search, source):
    lo = source.min(axis=0)
    radix = np.cumprod(np.concatenate(([1], (source.max(axis=0) - lo + 1)[:-1])))
    source_keys = (source - lo) @ radix
    search_keys = (search - lo) @ radix
    return np.nonzero(source_keys == search_keys[:, np.newaxis])
"""


def _key_rule(fn: ast.FunctionDef):
    """Rows reduced to one integer key each ((rows - lo) @ radix, rows.dot(radix)): the encoding is one-to-one only inside the box its
    offsets / radices were computed from, so they must be computed from EVERY operand that is encoded.
    Returns list of (ok, message, node); empty when no key encoding is present."""
    from .C02 import _roots
    params = [a.arg for a in fn.args.args]
    prov = _roots(fn)
    out = []
    encodings = []      # (encoded operand roots, roots of the encoding constants, node)
    for n in ast.walk(fn):
        pair = None
        if isinstance(n, ast.BinOp) and isinstance(n.op, ast.MatMult):
            pair = (n.left, n.right)
        elif isinstance(n, ast.Call) and isinstance(n.func, ast.Attribute) and n.func.attr == "dot" and len(n.args) == 1:
            pair = (n.func.value, n.args[0])
        elif isinstance(n, ast.Call) and (dotted(n.func) or "").split(".")[-1] in ("dot", "ravel_multi_index") and len(n.args) >= 2:
            pair = (n.args[0], n.args[1])
        if pair is None:
            continue
        rows, consts = pair
        # the rows operand: a parameter, possibly shifted by an offset
        row_roots, const_names = set(), set()
        for x in ast.walk(rows):
            if isinstance(x, ast.Name):
                (row_roots if x.id in params else const_names).add(x.id)
        for x in ast.walk(consts):
            if isinstance(x, ast.Name):
                const_names.add(x.id)
        if len(row_roots) != 1:
            continue
        croots = set()
        for c in const_names:
            croots |= prov.get(c, set())
        croots &= set(params)
        if croots:
            encodings.append((next(iter(row_roots)), croots, n))
    encoded = {e[0] for e in encodings}
    if len(encoded) < 2:
        return out
    for op, croots, node in encodings:
        missing = encoded - croots
        if missing:
            out.append((False, f"rows of `{op}` are encoded with offsets / radices computed from {sorted(croots)} only: a row of "
                               f"{sorted(missing)} outside that range gets the key of another row and is reported as a member", node))
        else:
            out.append((True, "", node))
    return out


def _help_key(prog: Program, res: Result) -> None:
    fx = _key_rule([x for x in ast.walk(ast.parse(KEY_FIXTURE)) if isinstance(x, ast.FunctionDef)][0])
    if not fx or all(v[0] for v in fx):
        raise AnalysisError("HELP-key positive fixture not recognised")
    for name in ("tt_ismember_rows", "tt_intersect_rows", "tt_setdiff_rows", "tt_union_rows"):
        fi = prog.func(f"pyttb_utils.{name}")
        desc = f"{name}: rows are compared in full, or through keys whose encoding covers every operand"
        vs = _key_rule(fi.node)
        bad = [v for v in vs if not v[0]]
        if bad:
            res.bad("HELP-key", fi.short, desc, prog.loc(fi, bad[0][2]), bad[0][1])
        else:
            res.ok("HELP-key", fi.short, desc, prog.loc(fi), "no one-sided key encoding", nontrivial=bool(vs))


def check(prog: Program, res: Result, tier: str) -> None:
    res.explanation = __doc__.split("\n\n", 1)[1]
    res.assumptions = ["np.ravel_multi_index / np.unravel_index are mutual inverses for equal `order`; np.argsort is ascending and stable enough for distinct modes"]
    res.floors = {"IDX-inv": 3, "DIMS": 4, "KRAX": 3, "EO-1": 4, "HELP-dom": 3, "HELP-space": 3}
    _helpers(prog, res)
    _help_space(prog, res)
    _help_key(prog, res)
    _idx(prog, res)
    _dims(prog, res)
    _krax(prog, res)
    E.eo1(prog, res, lambda fi: fi.module in ("pyttb.pyttb_utils", "pyttb.khatrirao"))
