"""C18 — decomposition results do not depend on how the problem is presented.

Decided (E10 presentation taint over cp_als, cp_apr and its three solvers, hosvd, tucker_als, gcp_opt and the
GCP optimizers; RNG who-may-call over all modules):
  TAINT   every statement that is control dependent on a test of printitn / printinneritn / verbosity / _printitn
          (or a local derived only from them) may not
            (a) define a value that reaches a branch / loop condition outside presentation code,
            (b) rebind, or mutate other than by the Kruskal re-parameterisations normalize / arrange / redistribute /
                fixsigns, an object in the backward slice of the returned model,
            (b') inside an iteration, even a pure re-parameterisation done only when printing must be followed by
               redistribute()/normalize() before the model's components are read again (scale-dependent steps),
          (c) draw from a random stream,
            (d) transfer control (return / break / continue / raise)
          a test that only applies isinstance / callable to the parameter is type validation, not presentation
  RNG     random draws use only the global legacy stream np.random.<fn> (same seed => same start); no private
          generators, re-seeding or time-derived seeds
  ROWS    the per-row subproblem loops of the CP-APR Newton solvers carry no state from one row to the next beyond the reviewed
          table tables/c18_rowstate.json (model rows, counters, running maxima): the sparse path skips empty rows and the dense
          path does not, so any other carried state (damping parameter, quasi-Newton memory) makes the two runs diverge
  EFFECT  in the decomposition modules, an in-place re-parameterisation (a method whose docstring says "in place": normalize,
          arrange, redistribute, fixsigns, ...) written as a statement of its own acts on an object that lives on — not on a
          temporary (`guess.copy().normalize()` normalises a copy nobody keeps, so a guess given as a Kruskal tensor and the same
          guess given as matrices start the solver from different parameterisations)
Not decided: dense vs. sparse agreement of the results beyond that clause, scaling and relabelling equivariance (relations between
floating-point runs). Diagnostics recomputed only when printing (fit in cp_als, fnVals in cp_apr) may differ from
the silent run by rounding; the property allows that.
"""
from __future__ import annotations

import ast
from typing import Dict, List, Set

from ..model import Program, FuncInfo, dotted, walk_no_nested, AnalysisError
from ..report import Result
from .. import taint, al
from ..guards import Canon
from .C20 import rng_rule
from . import alg_common as A

FUNCS = ["cp_als.cp_als", "cp_apr.cp_apr", "cp_apr.tt_cp_apr_mu", "cp_apr.tt_cp_apr_pdnr", "cp_apr.tt_cp_apr_pqnr", "hosvd.hosvd",
         "tucker_als.tucker_als", "gcp_opt.gcp_opt", "gcp.optimizers.StochasticSolver.solve", "gcp.optimizers.LBFGSB.solve"]
PURE_METHODS = {"norm", "innerprod", "full", "copy", "double", "ncomponents", "ndims", "shape", "isequal", "mttkrp", "ttv", "collapse",
                "to_tensor", "nnz", "tovec", "tolist_", "item"}


def _assigned_names(stmts: List[ast.stmt]) -> Dict[str, ast.AST]:
    out: Dict[str, ast.AST] = {}
    for st in stmts:
        for n in ast.walk(st):
            if isinstance(n, (ast.Assign, ast.AugAssign, ast.AnnAssign)):
                tg = n.targets if isinstance(n, ast.Assign) else [n.target]
                for t in tg:
                    for x in (t.elts if isinstance(t, ast.Tuple) else [t]):
                        if isinstance(x, ast.Name):
                            out.setdefault(x.id, n)
            if isinstance(n, ast.For):
                for x in ast.walk(n.target):
                    if isinstance(x, ast.Name):
                        out.setdefault(x.id, n)
    return out


def _in_any(node: ast.AST, regions: List[taint.Region]) -> bool:
    for r in regions:
        for s in r.stmts:
            for x in ast.walk(s):
                if x is node:
                    return True
    return False


def check_function(prog: Program, res: Result, eng: al.Engine, fi: FuncInfo) -> int:
    tainted, regs = taint.regions(fi)
    real = [r for r in regs if not r.type_check_only]
    canon = Canon(fi.node)
    # --- condition uses outside tainted regions (flow-insensitive def-use closure)
    outside_assigns = []  # (targets, value names)
    cond_names: Set[str] = set()
    cond_uses: List = []  # (names, node)
    parents: Dict[int, ast.AST] = {}
    for n in ast.walk(fi.node):
        for c in ast.iter_child_nodes(n):
            parents[id(c)] = n

    def loops_of(node) -> List[ast.AST]:
        out = []
        cur = parents.get(id(node))
        while cur is not None:
            if isinstance(cur, (ast.For, ast.While)):
                out.append(cur)
            cur = parents.get(id(cur))
        return out

    def reaches(region: ast.If, use: ast.AST) -> bool:
        """A definition inside `region` can reach `use`: the use comes later, or both sit in one loop."""
        if getattr(use, "lineno", 0) > getattr(region, "end_lineno", region.lineno):
            return True
        rl = loops_of(region)
        return any(any(x is use for x in ast.walk(l)) for l in rl)

    for n in walk_no_nested(fi.node):
        if _in_any(n, real):
            continue
        if isinstance(n, (ast.If, ast.While)):
            if not (taint._names(n.test) & tainted) or taint._type_check_only(n.test, tainted):
                cond_names |= taint._names(n.test)
                cond_uses.append((taint._names(n.test), n))
        elif isinstance(n, ast.For):
            cond_names |= taint._names(n.iter)
            cond_uses.append((taint._names(n.iter), n))
        elif isinstance(n, ast.Assert):
            cond_names |= taint._names(n.test)
            cond_uses.append((taint._names(n.test), n))
        elif isinstance(n, ast.IfExp):
            cond_names |= taint._names(n.test)
            cond_uses.append((taint._names(n.test), n))
        if isinstance(n, (ast.Assign, ast.AugAssign)):
            tg = n.targets if isinstance(n, ast.Assign) else [n.target]
            tn = set()
            for t in tg:
                for x in ast.walk(t):
                    if isinstance(x, ast.Name):
                        tn.add(x.id)
            outside_assigns.append((tn, taint._names(n.value)))
    # names that influence a condition (backward closure)
    def influencers(names: Set[str]) -> Set[str]:
        infl_ = set(names)
        ch = True
        while ch:
            ch = False
            for tn, vn in outside_assigns:
                if tn & infl_ and not vn <= infl_:
                    infl_ |= vn
                    ch = True
        return infl_
    # --- backward slice of the returned model
    model_names: Set[str] = set()
    for n in walk_no_nested(fi.node):
        if isinstance(n, ast.Return) and n.value is not None:
            first = n.value.elts[0] if isinstance(n.value, ast.Tuple) and n.value.elts else n.value
            model_names |= taint._names(first)
    changed = True
    while changed:
        changed = False
        for tn, vn in outside_assigns:
            if tn & model_names and not vn <= model_names:
                model_names |= vn
                changed = True
    model_names -= {"np", "ttb", "self"}
    n_regions = 0
    ordinal: Dict[str, int] = {}
    for r in real:
        n_regions += 1
        problems = []
        ttxt = canon.text(r.node.test)[:90]
        ordinal[ttxt] = ordinal.get(ttxt, 0) + 1
        desc = f"code under `{ttxt}` (occurrence {ordinal[ttxt]}) only presents"
        assigned = _assigned_names(r.stmts)
        reach_names: Set[str] = set()
        for names, use in cond_uses:
            if reaches(r.node, use):
                reach_names |= names
        infl = influencers(reach_names)
        for nm, node in assigned.items():
            if nm in infl and nm not in tainted:
                problems.append(f"`{nm}` is assigned here and later decides a branch / loop outside presentation code")
            if nm in model_names:
                problems.append(f"`{nm}`, which flows into the returned model, is rebound here")
        for st in r.stmts:
            for n in ast.walk(st):
                if isinstance(n, (ast.Return, ast.Break, ast.Continue, ast.Raise)):
                    problems.append(f"`{ast.unparse(n)[:50]}` transfers control depending on a presentation setting")
                if isinstance(n, ast.Call):
                    nm = dotted(n.func) or ""
                    if ".random." in nm or nm.startswith("random."):
                        problems.append(f"{nm} draws random numbers only when printing: the stream (and every later draw) shifts")
                    # mutation of the model
                    if isinstance(n.func, ast.Attribute) and isinstance(n.func.value, ast.Name) and n.func.value.id in model_names:
                        m = n.func.attr
                        if m not in taint.REPARAM and m not in PURE_METHODS:
                            cands = [x for x in eng.methods_by_name.get(m, [])]
                            muts = any(any(p_.split(".")[0] == c.params()[0] for p_, _g in eng.sums[c.qualname].mut) for c in cands if c.qualname in eng.sums)
                            if muts:
                                problems.append(f"`{ast.unparse(n)[:60]}` changes the model only when printing")
                    else:
                        # function call receiving the model: does the callee write it other than by re-parameterisation?
                        for a in n.args:
                            if isinstance(a, ast.Name) and a.id in model_names and isinstance(n.func, ast.Name):
                                cal = [x for x in eng.by_name.get(n.func.id, [])]
                                for c in cal:
                                    s = eng.sums.get(c.qualname)
                                    if s is None:
                                        continue
                                    idx = n.args.index(a)
                                    pn = c.params()[idx] if idx < len(c.params()) else None
                                    for p_, _g in s.mut:
                                        if pn and p_.split(".")[0] == pn:
                                            why = s.mut_why.get(p_, "")
                                            if not any(rp in why for rp in taint.REPARAM):
                                                problems.append(f"`{n.func.id}` writes `{a.id}` ({why[:60]}) only when printing")
                if isinstance(n, (ast.Assign, ast.AugAssign)):
                    tg = n.targets if isinstance(n, ast.Assign) else [n.target]
                    for t in tg:
                        base = t
                        while isinstance(base, (ast.Subscript, ast.Attribute)):
                            base = base.value
                        if isinstance(base, ast.Name) and base.id in model_names and not isinstance(t, ast.Name):
                            problems.append(f"`{ast.unparse(t)[:50]} = ...` writes into the model only when printing")
        # (b') a print-only re-parameterisation inside a loop: harmless only if the parameterisation is re-established
        #      (redistribute / normalize) before the model's components are read again
        rl = loops_of(r.node)
        if rl:
            touched = _reparam_targets(r.stmts, model_names, eng)
            for mname, via in touched:
                nxt = _next_model_use(rl[0], r.node, mname)
                if nxt is not None and not nxt[0]:
                    problems.append(f"{via} re-parameterises `{mname}` only when printing, and the next use `{nxt[1]}` reads its components "
                                    "before redistribute()/normalize() re-establishes the parameterisation: scale-dependent steps then differ")
        where = prog.loc(fi, r.node)
        if problems:
            res.bad("TAINT", fi.short, desc, where, "; ".join(sorted(set(problems)))[:500])
        else:
            res.ok("TAINT", fi.short, desc, where, f"{len(r.stmts)} statement(s), assigns {sorted(assigned)[:6]}")
    for r in regs:
        if r.type_check_only:
            res.ok("TAINT", fi.short, f"`{canon.text(r.node.test)[:80]}` is type validation of the parameter, not presentation", prog.loc(fi, r.node),
                   nontrivial=False)
    return n_regions


def _reparam_targets(stmts, model_names, eng):
    """(model name, description) for calls in the region that re-parameterise a model object in place."""
    out = []
    for st in stmts:
        for n in ast.walk(st):
            if not isinstance(n, ast.Call):
                continue
            if isinstance(n.func, ast.Attribute) and isinstance(n.func.value, ast.Name) and n.func.value.id in model_names \
                    and n.func.attr in taint.REPARAM:
                out.append((n.func.value.id, f"`{ast.unparse(n)[:50]}`"))
            elif isinstance(n.func, ast.Name):
                for idx, a in enumerate(n.args):
                    if isinstance(a, ast.Name) and a.id in model_names:
                        for c in eng.by_name.get(n.func.id, []):
                            s_ = eng.sums.get(c.qualname)
                            pn = c.params()[idx] if idx < len(c.params()) else None
                            if s_ and pn and any(p_.split(".")[0] == pn for p_, _g in s_.mut):
                                out.append((a.id, f"`{n.func.id}(...)` (which normalises its argument in place)"))
    return out


def _next_model_use(loop, region: ast.If, mname: str):
    """First use of the model after the region in loop order: (is a re-parameterising call, text) or None."""
    order = []

    def flat(body):
        for st in body:
            order.append(st)
            for f in ("body", "orelse"):
                sub = getattr(st, f, None)
                if isinstance(sub, list) and sub and isinstance(sub[0], ast.stmt) and st is not region:
                    flat(sub)

    flat(loop.body)
    if region not in order:
        return None
    i = order.index(region)
    seq = order[i + 1:] + order[:i]
    for st in seq:
        if any(x is region for x in ast.walk(st)):
            heads = [st.test] if isinstance(st, (ast.If, ast.While)) else [st.iter] if isinstance(st, ast.For) else []
        elif isinstance(st, (ast.If, ast.While)):
            heads = [st.test]
        elif isinstance(st, ast.For):
            heads = [st.iter]
        elif isinstance(st, (ast.With, ast.Try)):
            heads = []
        else:
            heads = [st]
        for h in heads:
            for n in ast.walk(h):
                if isinstance(n, ast.Name) and n.id == mname:
                    if isinstance(h, ast.Expr) and isinstance(h.value, ast.Call) and isinstance(h.value.func, ast.Attribute) \
                            and isinstance(h.value.func.value, ast.Name) and h.value.func.value.id == mname and h.value.func.attr in taint.REPARAM:
                        return True, ast.unparse(h)[:60]
                    return False, ast.unparse(h)[:60]
    return None


def loop_carried(loop: ast.For) -> Dict[str, ast.AST]:
    """Names that an iteration may read before it (re)defines them AND that the loop body writes: state carried between iterations."""
    written: Dict[str, ast.AST] = {}
    exposed: Dict[str, ast.AST] = {}

    def reads(e):
        return {n.id: n for n in ast.walk(e) if isinstance(n, ast.Name) and isinstance(n.ctx, ast.Load)}

    def expose(rs, defined):
        for k, n in rs.items():
            if k not in defined:
                exposed.setdefault(k, n)

    def block(body, defined):
        defined = set(defined)
        for st in body:
            if isinstance(st, (ast.Assign, ast.AnnAssign, ast.AugAssign)):
                tg = st.targets if isinstance(st, ast.Assign) else [st.target]
                r = reads(st.value) if st.value is not None else {}
                for t in tg:
                    if not isinstance(t, ast.Name):
                        r.update(reads(t))            # subscripts / attribute bases and indices are read
                if isinstance(st, ast.AugAssign) and isinstance(st.target, ast.Name):
                    r[st.target.id] = st.target
                expose(r, defined)
                for t in tg:
                    for x in (t.elts if isinstance(t, (ast.Tuple, ast.List)) else [t]):
                        if isinstance(x, ast.Name):
                            written.setdefault(x.id, st)
                            defined.add(x.id)
                        else:
                            b = x
                            while isinstance(b, (ast.Subscript, ast.Attribute)):
                                b = b.value
                            if isinstance(b, ast.Name):
                                written.setdefault(b.id, st)      # element / attribute store into a carried container
            elif isinstance(st, ast.If):
                expose(reads(st.test), defined)
                d1, d2 = block(st.body, defined), block(st.orelse, defined)
                defined = d1 & d2
            elif isinstance(st, (ast.For, ast.While)):
                if isinstance(st, ast.For):
                    expose(reads(st.iter), defined)
                    d = set(defined) | {x.id for x in ast.walk(st.target) if isinstance(x, ast.Name)}
                else:
                    expose(reads(st.test), defined)
                    d = set(defined)
                block(st.body, d)         # may run zero times: defines nothing for what follows
                # a second iteration of the inner loop sees what the first one wrote: those reads are inner-loop state,
                # re-initialised per outer iteration iff they were defined before the inner loop (checked by `defined`)
            elif isinstance(st, (ast.Expr, ast.Return)):
                if st.value is not None:
                    expose(reads(st.value), defined)
            elif isinstance(st, ast.Assert):
                expose(reads(st.test), defined)
            elif isinstance(st, (ast.Break, ast.Continue, ast.Pass)):
                pass
            else:
                expose(reads(st), defined)
        return defined

    block(loop.body, {x.id for x in ast.walk(loop.target) if isinstance(x, ast.Name)})
    return {k: exposed[k] for k in exposed if k in written}


def rows_independent(prog: Program, res: Result) -> None:
    import json, os
    table = json.load(open(os.path.join(os.path.dirname(__file__), "..", "..", "tables", "c18_rowstate.json")))
    for short in ("cp_apr.tt_cp_apr_pdnr", "cp_apr.tt_cp_apr_pqnr"):
        fi = prog.func(short)
        allowed = table.get(short, {})
        loops = [n for n in ast.walk(fi.node) if isinstance(n, ast.For) and ast.unparse(n.iter).replace(" ", "") == "range(num_rows)"]
        desc = "row subproblems are independent: an iteration of `for jj in range(num_rows)` reads nothing a previous row left behind (beyond the reviewed table)"
        if not loops:
            res.undecided("ROWS", short, desc, prog.loc(fi), "row loop not found")
            continue
        bad = None
        seen: Set[str] = set()
        for lp in loops:
            for name, node in loop_carried(lp).items():
                seen.add(name)
                if name not in allowed and bad is None:
                    bad = (name, node, lp)
        if bad:
            name, node, lp = bad
            res.bad("ROWS", short, desc, prog.loc(fi, node),
                    f"`{name}` is written inside the row loop and read by the next row before it is set again: the state of one row's solve "
                    "(e.g. an adapted damping parameter or quasi-Newton memory) leaks into the next; dense data visit all-zero rows that the sparse "
                    "path skips, so the two runs diverge")
        else:
            res.ok("ROWS", short, desc, prog.loc(fi, loops[-1]), f"carried: {sorted(seen)}")


EFFECT_MODULES = ("cp_als", "cp_apr", "hosvd", "tucker_als", "gcp_opt", "gcp.optimizers")


def inplace_methods(prog: Program) -> Set[str]:
    names = set()
    for q, fi in prog.functions.items():
        if fi.cls and not fi.parent and not fi.name.startswith("__") and any(w in fi.docstring().lower() for w in ("in place", "in-place")):
            names.add(fi.name)
    return names


def _fresh_call(c: ast.Call) -> bool:
    """A call whose value is certainly a new object nobody else holds: x.copy(), copy.copy / deepcopy(x), a tensor-class constructor."""
    nm = dotted(c.func) or ""
    base = nm.split(".")[-1] if nm else (c.func.attr if isinstance(c.func, ast.Attribute) else "")
    return base in ("copy", "deepcopy", "ktensor", "ttensor", "tensor", "sptensor", "from_vector", "from_function", "from_tensor_type", "full",
                    "to_tensor", "double")


def effect_rule(prog: Program, res: Result, only: List[FuncInfo] = None) -> int:
    meths = inplace_methods(prog)
    if not {"normalize", "arrange", "redistribute", "fixsigns"} <= meths:
        raise AnalysisError(f"in-place Kruskal methods not recognised by their docstrings: {sorted(meths)}")
    n = 0
    funcs = only if only is not None else [fi for q, fi in sorted(prog.functions.items())
                                           if not fi.parent and any(q.startswith(f"pyttb.{m}.") for m in EFFECT_MODULES)]
    for fi in funcs:
        for st in walk_no_nested(fi.node):
            if not (isinstance(st, ast.Expr) and isinstance(st.value, ast.Call) and isinstance(st.value.func, ast.Attribute)
                    and st.value.func.attr in meths):
                continue
            recv = st.value.func.value
            root = recv
            while isinstance(root, (ast.Attribute, ast.Subscript)):
                root = root.value
            desc = f"in-place `{st.value.func.attr}` acts on an object that lives on: {ast.unparse(st)[:70]}"
            n += 1
            if isinstance(root, ast.Name):
                res.ok("EFFECT", fi.short, desc, prog.loc(fi, st), f"receiver `{ast.unparse(recv)}`")
            elif isinstance(root, ast.Call) and not _fresh_call(root):
                res.undecided("EFFECT", fi.short, desc, prog.loc(fi, st), f"receiver is the value of `{ast.unparse(root)[:50]}`, not known to be a fresh object")
            elif isinstance(root, ast.Call):
                res.bad("EFFECT", fi.short, desc, prog.loc(fi, st),
                        f"the receiver `{ast.unparse(recv)[:60]}` is a temporary (the value of a call) and the statement keeps neither it nor the "
                        "method's result: the re-parameterisation has no effect")
            else:
                res.undecided("EFFECT", fi.short, desc, prog.loc(fi, st), "receiver form not recognised")
    return n


def scale_rule(prog: Program, res: Result) -> None:
    """SCALE: the rank-selection threshold of hosvd is homogeneous in the data.  The Gram eigenvalues it is compared with scale as
    c^2 under X -> c*X, so the selected ranks (and with them the model, up to the factor c) are independent of the scale of the data
    exactly when every operand of the threshold carries ||X||^2.  Structural necessary condition: no summand / max / min operand of
    the threshold is free of the data (other than the constant 0)."""
    fi = prog.func("hosvd.hosvd")
    desc = "hosvd rank threshold scales with the data: no data-free floor, cap or offset"
    ds = A.single_defs(fi.node).get("eigsumthresh")
    if not ds:
        res.undecided("SCALE", fi.short, desc, prog.loc(fi), "threshold variable not found")
        return
    for d in ds:
        absolute = A.absolute_operands(d.value, {"normxsqr", "input_tensor"})
        mentions = any(isinstance(n, ast.Name) and n.id in ("normxsqr", "input_tensor") for n in ast.walk(d.value))
        if absolute:
            res.bad("SCALE", fi.short, desc, prog.loc(fi, d),
                    f"`{ast.unparse(absolute[0])}` in `{ast.unparse(d.value)[:120]}` does not scale with the data: hosvd(c*X) selects "
                    "other ranks than hosvd(X) once c is small (or large) enough")
        elif mentions:
            res.ok("SCALE", fi.short, desc, prog.loc(fi, d), ast.unparse(d.value)[:120])
        else:
            res.undecided("SCALE", fi.short, desc, prog.loc(fi, d), "the threshold does not mention the data norm")


def check(prog: Program, res: Result, tier: str) -> None:
    res.explanation = __doc__.split("\n\n", 1)[1]
    res.assumptions = ["print / logging / f-string formatting have no effect on program state",
                       "normalize / arrange / redistribute / fixsigns change only the parameterisation of a Kruskal tensor (C08)"]
    res.floors = {"TAINT": 30, "RNG": 8, "ROWS": 2, "EFFECT": 17, "SCALE": 1}
    rows_independent(prog, res)
    eng = al.Engine(prog)
    eng.solve()
    total = 0
    for f in FUNCS:
        total += check_function(prog, res, eng, prog.func(f))
    res.analysed["tainted_regions"] = total
    rng_rule(prog, res)
    effect_rule(prog, res)
    scale_rule(prog, res)
    fx2 = ast.parse("def f(init):\n    init.copy().normalize('all')\n    return init\n")
    fi2 = FuncInfo("pyttb.fixture.f", "pyttb.fixture", None, "f", fx2.body[0], prog.functions[next(iter(prog.functions))].path)
    tmp2 = Result("C18")
    effect_rule(prog, tmp2, [fi2])
    if not any(i.verdict == "VIOLATION" for i in tmp2.instances):
        raise AnalysisError("EFFECT rule did not fire on its positive fixture")
    # positive fixture: the rule must recognise a forbidden draw when there is one
    import types
    fx = ast.parse("def f(printitn):\n    if printitn > 0:\n        x = np.random.rand(3)\n        return x\n")
    fi = FuncInfo("pyttb.fixture.f", "pyttb.fixture", None, "f", fx.body[0], prog.functions[next(iter(prog.functions))].path)
    tmp = Result("C18")
    check_function(prog, tmp, eng, fi)
    if not any(i.verdict == "VIOLATION" for i in tmp.instances):
        raise AnalysisError("taint rule did not fire on its positive fixture")
