"""C09 — CP-ALS returns a model consistent with everything it reports.

Decided (structural necessary conditions in cp_als.py):
  NORMAL   on every path to the return the model passes through arrange() after the last factor update, and the
           optional fixsigns() comes after arrange() (must-pass-through ordering)
  LOOP-acc no accumulation loop of an mttkrp / innerprod / norm / full ends its body with an unconditional return (the data of a sum
           tensor is the sum over ALL its parts); zero sites on the reviewed tree, fixtures
  FIT      both fit expressions equal the property's formula: fit = 1 - sqrt(|nX^2 + nM^2 - 2<X,M>|) / nX, and for data of
           norm 0 the reported value nM^2 - 2<X,M>; the recomputation when printing uses the same formulas (E7);
           <X,M> is taken from the saved MTTKRP of the LAST updated mode with the weights applied
  GRAM     the Gram cache is refreshed right after each factor assignment (UtU[:, :, n] = U[n].T @ U[n]) and the
           Hadamard product of Gram matrices excludes the mode being solved
  LOOP     the outer loop is range(maxiters); modes are visited in the (filtered) dimorder
  INIT     the guess that is returned is the object that was copied to start from (no rebinding in between), and the
           iterates start from a copy of it
Cross-reference: data and guess are not modified — C05; printing does not influence the result — C18.
Not decided: monotone fit, stationarity of the last update, MTTKRP / solve numerics, "recomputed from the returned
model" as a numerical statement.
"""
from __future__ import annotations

import ast
from typing import Dict, List

import sympy as sp

from ..model import Program, dotted, kwarg, const, AnalysisError
from ..report import Result
from ..paths import enumerate_paths
from . import alg_common as A

F = "cp_als.cp_als"


def normal(prog: Program, res: Result) -> None:
    """arrange() is an unconditional top-level statement after the last statement that can update the factors
    (it then dominates the return), and fixsigns comes after it."""
    fi = prog.func(F)
    desc = "every path to the return passes arrange() after the last factor update, then (optionally) fixsigns()"
    body = fi.node.body

    def updates(st: ast.stmt) -> bool:
        for n in ast.walk(st):
            if isinstance(n, ast.Assign):
                t = n.targets[0]
                if isinstance(t, ast.Subscript) and isinstance(t.value, ast.Name) and t.value.id == "U":
                    return True
                if "ttb.ktensor(U" in ast.unparse(n.value):
                    return True
        return False

    last_update = max([i for i, st in enumerate(body) if updates(st)], default=-1)
    arr = [i for i, st in enumerate(body) if isinstance(st, ast.Expr) and isinstance(st.value, ast.Call) and isinstance(st.value.func, ast.Attribute)
           and st.value.func.attr == "arrange"]
    fix = [i for i, st in enumerate(body) if ".fixsigns(" in ast.unparse(st)]
    rets = [i for i, st in enumerate(body) if isinstance(st, ast.Return)]
    early = [n for i, st in enumerate(body[: (arr[-1] if arr else len(body))]) for n in ast.walk(st) if isinstance(n, ast.Return)]
    if last_update < 0 or not rets:
        res.undecided("NORMAL", F, desc, prog.loc(fi), "factor updates / return not found at the top level")
        return
    if not arr or arr[-1] < last_update:
        nested = any(".arrange(" in ast.unparse(st) for st in body)
        res.bad("NORMAL", F, desc, prog.loc(fi, body[last_update]),
                "arrange() is " + ("only executed conditionally or before the last factor update" if nested else "never called")
                + ": the returned model is not in normal form on some path")
    elif early:
        res.bad("NORMAL", F, desc, prog.loc(fi, early[0]), "a return statement precedes arrange(): that path hands back an un-arranged model")
    elif fix and fix[-1] < arr[-1]:
        res.bad("NORMAL", F, desc, prog.loc(fi, body[fix[-1]]), "fixsigns() runs before arrange(): the normalisation afterwards can undo the sign convention")
    else:
        res.ok("NORMAL", F, desc, prog.loc(fi, body[arr[-1]]), "arrange() dominates the return and follows the iteration")


def fit(prog: Program, res: Result) -> None:
    fi = prog.func(F)
    nX, nM, ip = sp.Symbol("nX", positive=True), sp.Symbol("nM", positive=True), sp.Symbol("ip", real=True)
    # every if normX == 0 / else pair
    k = 0
    for n in ast.walk(fi.node):
        if isinstance(n, ast.If) and ast.unparse(n.test).replace(" ", "") in ("normX==0", "0==normX"):
            k += 1
            keep = ("iprod", "normX", "fit", "normresidual", "M")
            def branch_defs(stmts):
                """name -> value at the end of the branch, with the branch's own earlier bindings substituted (t = e; fit = 1 - t / nX)."""
                import copy as _copy
                env = {}

                class Sub(ast.NodeTransformer):
                    def visit_Name(self, x):
                        if isinstance(x.ctx, ast.Load) and x.id in env and x.id not in keep:
                            return _copy.deepcopy(env[x.id])
                        return x
                for a in stmts:
                    if isinstance(a, ast.Assign) and len(a.targets) == 1 and isinstance(a.targets[0], ast.Name):
                        env[a.targets[0].id] = Sub().visit(fi.resolve(a.value, keep=keep))
                    elif isinstance(a, ast.Assign) and len(a.targets) == 1 and isinstance(a.targets[0], ast.Tuple) and isinstance(a.value, ast.Tuple) \
                            and len(a.targets[0].elts) == len(a.value.elts):
                        vals = [Sub().visit(fi.resolve(v, keep=keep)) for v in a.value.elts]
                        for t_, v_ in zip(a.targets[0].elts, vals):
                            if isinstance(t_, ast.Name):
                                env[t_.id] = v_
                return env
            zero, nonz = branch_defs(n.body), branch_defs(n.orelse)
            import re as _re
            ipx = "iprod" if _re.search(r"(?<![A-Za-z0-9_])iprod(?![A-Za-z0-9_])", ast.unparse(n)) else "input_tensor.innerprod(M)"
            if ipx != "iprod" and not any("innerprod" in ast.unparse(v) for v in list(zero.values()) + list(nonz.values())):
                continue
            roles = {"normX": nX, "M.norm()": nM, ipx: ip}
            site = "in the iteration" if ipx == "iprod" else "in the final recomputation"
            for branch, defs, want_fit, want_res, label in (
                    ("zero", zero, nM**2 - 2 * ip, nM**2 - 2 * ip, "data of norm 0: reported value == nM^2 - 2<X,M>"),
                    ("nonzero", nonz, 1 - sp.sqrt(sp.Abs(nX**2 + nM**2 - 2 * ip)) / nX, sp.sqrt(sp.Abs(nX**2 + nM**2 - 2 * ip)),
                     "fit == 1 - sqrt(|nX^2 + nM^2 - 2<X,M>|) / nX and normresidual == sqrt(|...|)")):
                desc = f"{label} ({site})"
                if "fit" not in defs or "normresidual" not in defs:
                    res.undecided("FIT", F, desc, prog.loc(fi, n), "assignments not found")
                    continue
                ok1, how1 = A.formula_equals(defs["fit"], roles, want_fit, {"normresidual": defs["normresidual"]})
                ok2, how2 = A.formula_equals(defs["normresidual"], roles, want_res)
                if ok1 is True and ok2 is True:
                    res.ok("FIT", F, desc, prog.loc(fi, n), how1)
                elif ok1 is False or ok2 is False:
                    res.bad("FIT", F, desc, prog.loc(fi, n), how1 if ok1 is False else how2)
                else:
                    res.undecided("FIT", F, desc, prog.loc(fi, n), how1 if ok1 is None else how2)
    # the same formulas behind a helper of the module:  normresidual, fit = helper(normX, <norm of M>, <inner product>)
    for a in ast.walk(fi.node):
        if not (isinstance(a, ast.Assign) and isinstance(a.targets[0], ast.Tuple) and len(a.targets[0].elts) == 2 and isinstance(a.value, ast.Call)
                and isinstance(a.value.func, ast.Name) and f"{fi.module}.{a.value.func.id}" in prog.functions):
            continue
        names = [e.id if isinstance(e, ast.Name) else None for e in a.targets[0].elts]
        if set(names) != {"normresidual", "fit"}:
            continue
        helper = prog.functions[f"{fi.module}.{a.value.func.id}"]
        params = helper.params()
        if len(params) != len(a.value.args):
            continue
        roles_h: Dict[str, sp.Symbol] = {}
        site = None
        for p_, arg in zip(params, a.value.args):
            t_ = ast.unparse(fi.resolve(arg, keep=("normX", "iprod", "M"))).replace(" ", "")
            if t_ == "normX":
                roles_h[p_] = nX
            elif t_ in ("M.norm()",):
                roles_h[p_] = nM
            elif t_ == "iprod":
                roles_h[p_] = ip
                site = "in the iteration"
            elif t_ == "input_tensor.innerprod(M)":
                roles_h[p_] = ip
                site = "in the final recomputation"
        if len(roles_h) != 3 or site is None:
            continue
        k += 1
        zero_name = next((p_ for p_, s_ in roles_h.items() if s_ is nX), None)
        outcomes = _helper_returns(helper.node, zero_name)      # {"zero": (res expr, fit expr, locals), "nonzero": ...}
        for branch, want_fit, want_res, label in (
                ("zero", nM**2 - 2 * ip, nM**2 - 2 * ip, "data of norm 0: reported value == nM^2 - 2<X,M>"),
                ("nonzero", 1 - sp.sqrt(sp.Abs(nX**2 + nM**2 - 2 * ip)) / nX, sp.sqrt(sp.Abs(nX**2 + nM**2 - 2 * ip)),
                 "fit == 1 - sqrt(|nX^2 + nM^2 - 2<X,M>|) / nX and normresidual == sqrt(|...|)")):
            desc = f"{label} ({site})"
            if branch not in outcomes:
                res.undecided("FIT", F, desc, prog.loc(fi, a), f"helper {helper.name}: branch not recognised")
                continue
            exprs, local_defs = outcomes[branch]
            order = {n_: i_ for i_, n_ in enumerate(names)}
            e_res, e_fit = exprs[order["normresidual"]], exprs[order["fit"]]
            ok1, how1 = A.formula_equals(e_fit, roles_h, want_fit, local_defs)
            ok2, how2 = A.formula_equals(e_res, roles_h, want_res, local_defs)
            if ok1 is True and ok2 is True:
                res.ok("FIT", F, desc, prog.loc(fi, a), f"via {helper.name}: {how1}")
            elif ok1 is False or ok2 is False:
                res.bad("FIT", F, desc, prog.loc(fi, a), f"via {helper.name}: " + (how1 if ok1 is False else how2))
            else:
                res.undecided("FIT", F, desc, prog.loc(fi, a), how1 if ok1 is None else how2)
    # inner product from the saved MTTKRP of the last mode, weights applied
    desc = "<X,M> uses the MTTKRP saved for the LAST mode of dimorder, the matching factor and the weights"
    defs = A.single_defs(fi.node)
    # "the last mode of the sweep": dimorder[-1] read AFTER dimorder has been restricted to the optimised modes, directly or
    # through a local defined at such a point
    dim_defs = [a.lineno for a in ast.walk(fi.node) if isinstance(a, ast.Assign) and any(isinstance(t_, ast.Name) and t_.id == "dimorder" for t_ in a.targets)]
    last_dim_def = max(dim_defs, default=0)
    last_names = {}
    for a in ast.walk(fi.node):
        if isinstance(a, ast.Assign) and len(a.targets) == 1 and isinstance(a.targets[0], ast.Name) and ast.unparse(a.value).replace(" ", "") == "dimorder[-1]":
            last_names[a.targets[0].id] = a

    def norm_last(txt: str):
        """text with valid last-mode locals spelled dimorder[-1]; (text, stale local or None)"""
        stale = None
        for nm, a in last_names.items():
            if nm in txt:
                if a.lineno > last_dim_def and len([d for d in defs.get(nm, [])]) == 1:
                    txt = txt.replace(nm, "dimorder[-1]")
                else:
                    stale = nm
        return txt, stale
    if "iprod" in defs:
        t, stale1 = norm_last(ast.unparse(defs["iprod"][0].value).replace(" ", ""))
        saved = []
        stale2 = None
        for a in ast.walk(fi.node):
            if isinstance(a, ast.If) and "U_mttkrp" in ast.unparse(a):
                tt, st_ = norm_last(ast.unparse(a.test).replace(" ", ""))
                stale2 = stale2 or st_
                if "dimorder[-1]" in tt:
                    saved.append(a)
        ok = "M.factor_matrices[dimorder[-1]]*U_mttkrp" in t and "*weights" in t and bool(saved)
        if ok:
            res.ok("FIT", F, desc, prog.loc(fi, defs["iprod"][0]))
        elif stale1 or stale2:
            nm = stale1 or stale2
            res.bad("FIT", F, desc, prog.loc(fi, last_names[nm]),
                    f"`{nm} = dimorder[-1]` is read before dimorder is restricted to the optimised modes (line {last_dim_def}): the saved MTTKRP and the "
                    "factor used for <X,M> then belong to a mode that may not be the last one updated")
        else:
            res.bad("FIT", F, desc, prog.loc(fi, defs["iprod"][0]), f"iprod = {t[:120]}; MTTKRP saved under: {[ast.unparse(a.test) for a in saved]}")
    else:
        res.undecided("FIT", F, desc, prog.loc(fi))
    desc = "normX is the norm of the data"
    nx = [ast.unparse(a.value) for a in defs.get("normX", [])]
    if nx and all(x in ("input_tensor.norm()", "0") or "norm()" in x for x in nx):
        res.ok("FIT", F, desc, prog.loc(fi), str(nx), nontrivial=False)
    else:
        res.undecided("FIT", F, desc, prog.loc(fi), str(nx))


def _helper_returns(fn: ast.FunctionDef, zero_name):
    """For a helper `def h(nx, nm, ip)` returning a pair: the returned expressions on the `nx == 0` side and on the other side,
    with the straight-line local definitions in force at each return."""
    out = {}

    def walk(body, defs, branch):
        defs = dict(defs)
        for st in body:
            if isinstance(st, ast.Assign) and len(st.targets) == 1 and isinstance(st.targets[0], ast.Name):
                defs[st.targets[0].id] = st.value
            elif isinstance(st, ast.If):
                t = ast.unparse(st.test).replace(" ", "")
                if zero_name and t in (f"{zero_name}==0", f"0=={zero_name}"):
                    r1 = walk(st.body, defs, "zero")
                    r2 = walk(st.orelse, defs, "nonzero") if st.orelse else False
                    if r1 and not st.orelse:
                        branch = "nonzero"      # the zero case returned: what follows is the other case
                    elif r1 and r2:
                        return True
                elif zero_name and t in (f"{zero_name}!=0", f"{zero_name}>0"):
                    r1 = walk(st.body, defs, "nonzero")
                    r2 = walk(st.orelse, defs, "zero") if st.orelse else False
                    if r1 and not st.orelse:
                        branch = "zero"
                    elif r1 and r2:
                        return True
            elif isinstance(st, ast.Return) and isinstance(st.value, ast.Tuple) and len(st.value.elts) == 2 and branch:
                out[branch] = (list(st.value.elts), defs)
                return True
        return False
    walk(fn.body, {}, None)
    return out


def gram(prog: Program, res: Result) -> None:
    fi = prog.func(F)
    desc = "Gram cache entry of mode n is refreshed immediately after U[n] is assigned"
    found = False
    for n in ast.walk(fi.node):
        if isinstance(n, ast.For):
            body = n.body
            for i, st in enumerate(body):
                if isinstance(st, ast.Assign) and ast.unparse(st.targets[0]).replace(" ", "") == "U[n]":
                    found = True
                    refreshed = None
                    for later in body[i + 1:]:
                        if isinstance(later, ast.Assign) and isinstance(later.targets[0], ast.Subscript) \
                                and ast.unparse(later.targets[0].value) == "UtU" and ast.unparse(later.targets[0].slice).replace(" ", "").rstrip(")").endswith(",n"):
                            rhs = ast.unparse(later.value).replace(" ", "")
                            refreshed = rhs.count("U[n]") >= 2 and (".T" in rhs or "transpose" in rhs)
                            break
                        # a use of the cache before it is refreshed
                        if "UtU" in ast.unparse(later):
                            refreshed = False
                            break
                    if refreshed:
                        res.ok("GRAM", F, desc, prog.loc(fi, st))
                    else:
                        res.bad("GRAM", F, desc, prog.loc(fi, st),
                                "after `U[n] = ...` the cache entry UtU[:, :, n] is not recomputed from the new U[n] before the loop continues: "
                                "the next mode is solved with a stale Gram matrix")
    if not found:
        res.undecided("GRAM", F, desc, prog.loc(fi))
    desc = "the Hadamard product of the Gram matrices leaves out the mode being solved"
    ys = [a for a in ast.walk(fi.node) if isinstance(a, ast.Assign) and isinstance(a.targets[0], ast.Name) and isinstance(a.value, ast.Call)
          and (dotted(a.value.func) or "").split(".")[-1] == "prod" and kwarg(a.value, "where") is not None and const(kwarg(a.value, "axis")) == 2]
    if ys:
        t = fi.rtext(ys[0].value).replace(" ", "")
        if "i!=n" in t or "n!=i" in t:
            res.ok("GRAM", F, desc, prog.loc(fi, ys[0]), t[:100])
        else:
            res.bad("GRAM", F, desc, prog.loc(fi, ys[0]), f"Y = {t[:100]}: mode n is not excluded")
    else:
        res.undecided("GRAM", F, desc, prog.loc(fi))
    desc = "the initial Gram cache is computed from the starting factors for every mode"
    init = [a for a in ast.walk(fi.node) if isinstance(a, ast.For) and "UtU[:, :, n] = U[n].T @ U[n]" in ast.unparse(a) and "range(N)" in ast.unparse(a.iter)]
    if init:
        res.ok("GRAM", F, desc, prog.loc(fi, init[0]), nontrivial=False)
    else:
        res.undecided("GRAM", F, desc, prog.loc(fi))


def loop_and_init(prog: Program, res: Result) -> None:
    fi = prog.func(F)
    desc = "the number of outer iterations is bounded by maxiters"
    loops = [n for n in fi.node.body if isinstance(n, ast.For) and isinstance(n.target, ast.Name) and n.target.id == "iteration"]
    if loops and ast.unparse(loops[0].iter).replace(" ", "") == "range(maxiters)":
        res.ok("LOOP", F, desc, prog.loc(fi, loops[0]))
    elif loops:
        res.bad("LOOP", F, desc, prog.loc(fi, loops[0]), f"loop runs over {ast.unparse(loops[0].iter)}")
    else:
        res.undecided("LOOP", F, desc, prog.loc(fi))
    desc = "modes are updated in the order given by dimorder restricted to optdims"
    inner = [n for l in loops for n in l.body if isinstance(n, ast.For)]
    defs = A.single_defs(fi.node)
    dd = [ast.unparse(a.value).replace(" ", "") for a in defs.get("dimorder", [])]
    if inner and ast.unparse(inner[0].iter) == "dimorder" and any("fordindimorderifdinoptdims" in d for d in dd):
        res.ok("LOOP", F, desc, prog.loc(fi, inner[0]))
    elif inner:
        res.bad("LOOP", F, desc, prog.loc(fi, inner[0]), f"inner loop over {ast.unparse(inner[0].iter)}; dimorder = {dd}")
    else:
        res.undecided("LOOP", F, desc, prog.loc(fi))
    # INIT
    desc = "iterates start from a copy of the guess and the guess that is returned is that object"
    u0 = [a for a in defs.get("U", [])]
    rets = [n for n in ast.walk(fi.node) if isinstance(n, ast.Return) and isinstance(n.value, ast.Tuple) and len(n.value.elts) == 3]
    start_ok = bool(u0) and ast.unparse(u0[0].value).replace(" ", "") in ("init.copy().factor_matrices", "[f.copy()forfininit.factor_matrices]")
    ret_ok = bool(rets) and isinstance(rets[0].value.elts[1], ast.Name) and rets[0].value.elts[1].id == "init"
    # init must not be rebound after U is taken from it
    rebinds = [a for a in defs.get("init", []) if u0 and a.lineno > u0[0].lineno]
    if start_ok and ret_ok and not rebinds:
        res.ok("INIT", F, desc, prog.loc(fi, u0[0]))
    else:
        why = []
        if not start_ok:
            why.append(f"U starts as `{ast.unparse(u0[0].value) if u0 else '?'}`")
        if not ret_ok:
            why.append("the second returned value is not `init`")
        if rebinds:
            why.append("init is rebound after the iterates were taken from it")
        res.bad("INIT", F, desc, prog.loc(fi, u0[0]) if u0 else prog.loc(fi), "; ".join(why))


LOOP1_FIXTURE = ("def f(parts, x):\n    r = g(parts[0])\n    for p in parts[1:]:\n        r += g(p)\n        return r\n",
                 "def f(parts, x):\n    r = g(parts[0])\n    for p in parts[1:]:\n        r += g(p)\n    return r\n")


def _loops_cut_short(tree: ast.AST):
    """Loops whose body ends with an unconditional `return` (not nested in an if / try): they never run a second iteration."""
    for n in ast.walk(tree):
        if isinstance(n, (ast.For, ast.While)) and n.body and isinstance(n.body[-1], ast.Return) and len(n.body) > 1:
            yield n


def loop_once(prog: Program, res: Result) -> None:
    """MTTKRP of composite data accumulates over ALL parts / components: an accumulation loop whose body ends with an unconditional return
    stops after the first pass (the sum tensor's MTTKRP would ignore every part after the second).  No such loop on the reviewed tree
    (fixtures keep the rule alive); scanned in every module that implements an mttkrp."""
    if len(list(_loops_cut_short(ast.parse(LOOP1_FIXTURE[0])))) != 1 or list(_loops_cut_short(ast.parse(LOOP1_FIXTURE[1]))):
        raise AnalysisError("LOOP-acc fixtures not recognised")
    for q, fi in sorted(prog.functions.items()):
        if fi.parent or fi.name not in ("mttkrp", "mttkrps", "innerprod", "norm", "full"):
            continue
        for lp in _loops_cut_short(fi.node):
            res.bad("LOOP-acc", fi.short, "accumulation loops run over every part / component", prog.loc(fi, lp.body[-1]),
                    f"`{ast.unparse(lp.body[-1])[:50]}` ends the body of `for {ast.unparse(lp.target) if isinstance(lp, ast.For) else '...'} in "
                    f"{ast.unparse(lp.iter)[:40] if isinstance(lp, ast.For) else ''}`: the loop returns in its first pass, the remaining parts are never added")


def check(prog: Program, res: Result, tier: str) -> None:
    res.explanation = __doc__.split("\n\n", 1)[1]
    res.assumptions = ["ktensor.arrange() normalises columns and sorts components (C08); innerprod / norm mean what they say (C02)"]
    res.floors = {"NORMAL": 1, "FIT": 5, "GRAM": 3, "LOOP": 2, "INIT": 1}
    normal(prog, res)
    fit(prog, res)
    gram(prog, res)
    loop_and_init(prog, res)
    loop_once(prog, res)
