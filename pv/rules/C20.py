"""C20 — generators and aggregating constructors build what they advertise.

Decided (structural facts of the generator functions):
  GEN-fill   tenones / tenzeros / tenrand hand tensor.from_function a generator that returns np.ones / np.zeros /
             np.random.uniform(low=0, high=1) of the requested shape, and pass the requested shape on unchanged;
             from_function gives the generated data and the parsed shape to the F-reshaping constructor
  GEN-uniq   the subscripts sptensor.from_function hands to the constructor descend from np.unique(axis=0) through
             prefix slicing only (pairwise distinct), on every path
  GEN-cnt    ... and the values are generated for exactly as many rows as subscripts were kept (symbolic row counts)
  DIAG       sptendiag / tendiag tile one subscript column per mode of the constructed shape, and the constructed
             shape is max(len(elements), requested extent) per mode
  IX-agg     from_aggregator (and the copying sptenmat constructor) reduce values with the inverse index of the
             np.unique call that produced the stored subscripts, and filter subscripts and values with ONE nonzero index
  RNG        random draws come only from the global legacy stream np.random.<fn> (reproducible under np.random.seed);
             no default_rng / RandomState / time-derived seeds anywhere in pyttb
  INTKIND    parse_shape (where every generator reads its `shape`) recognises integers by the same types for a scalar shape and for the
             entries of a sequence (sibling tests of one function must agree: numpy integer sizes such as `idx.max() + 1`)
Not decided: entry values themselves, identity action of teneye, density rounding.
"""
from __future__ import annotations

import ast

from ..model import AnalysisError, Program, dotted, kwarg, const, walk_no_nested, arg_or_kw
from ..report import Result
from .. import rows as R
from . import ix_common as I
from .C06 import ix_agg, agg_every_path

RNG_OK_PREFIX = ("np.random.", "numpy.random.")
RNG_FORBIDDEN = ("default_rng", "RandomState", "Generator", "SeedSequence", "seed")


def rng_rule(prog: Program, res: Result, rule: str = "RNG") -> int:
    n = 0
    for q, fi in sorted(prog.functions.items()):
        for c in walk_no_nested(fi.node):
            if not isinstance(c, ast.Call):
                continue
            nm = dotted(c.func) or ""
            parts = nm.split(".")
            base = parts[-1]
            is_random_mod = (len(parts) >= 2 and parts[0] == "random") or "random" in parts[:-1]
            if not is_random_mod and base not in RNG_FORBIDDEN[:4]:
                continue
            n += 1
            desc = f"random draw uses the global numpy stream: {nm}"
            where = prog.loc(fi, c)
            if base in RNG_FORBIDDEN:
                res.bad(rule, fi.short, desc, where,
                        f"{nm} creates / re-seeds a private stream: results are no longer reproducible under the caller's np.random.seed")
            elif nm.startswith(RNG_OK_PREFIX):
                res.ok(rule, fi.short, desc, where)
            else:
                res.bad(rule, fi.short, desc, where, f"{nm} is not the global numpy legacy stream (python's random module or a private generator)")
    return n


_MODULE_DEFS: dict = {}


def _nested_return_call(fi_node: ast.FunctionDef):
    """(generator definition, the call whose value it returns): the generator is a nested function, or a module-level function that is
    handed to from_function by name (a closure without free variables moved out of its only user)."""
    cands = [n for n in fi_node.body if isinstance(n, ast.FunctionDef)]
    for c in ast.walk(fi_node):
        if isinstance(c, ast.Call) and (dotted(c.func) or "").endswith("from_function") and c.args and isinstance(c.args[0], ast.Name):
            d = _MODULE_DEFS.get(c.args[0].id)
            if d is not None and d not in cands:
                cands.append(d)
    for n in cands:
        if isinstance(n, ast.FunctionDef):
            for r in ast.walk(n):
                if isinstance(r, ast.Return) and isinstance(r.value, ast.Call):
                    return n, r.value
                if isinstance(r, ast.Return) and isinstance(r.value, ast.Name):
                    for a in ast.walk(n):
                        if isinstance(a, ast.Assign) and isinstance(a.targets[0], ast.Name) and a.targets[0].id == r.value.id and isinstance(a.value, ast.Call):
                            return n, a.value
    return None, None


def gen_fill(prog: Program, res: Result) -> None:
    _MODULE_DEFS.clear()
    for q, f_ in prog.functions.items():
        if not f_.parent and not f_.cls and f_.module in ("pyttb.tensor", "pyttb.sptensor"):
            _MODULE_DEFS[f_.name] = f_.node
    want = {"tenones": ("ones", {}), "tenzeros": ("zeros", {}), "tenrand": ("uniform", {"low": 0, "high": 1})}
    for name, (fn, kws) in want.items():
        fi = prog.func(f"tensor.{name}")
        inner, call = _nested_return_call(fi.node)
        desc = f"{name} generates np.{fn} entries of the requested shape"
        if call is None:
            res.undecided("GEN-fill", fi.short, desc, prog.loc(fi))
            continue
        base = (dotted(call.func) or "").split(".")[-1]
        problems = []
        if base != fn:
            problems.append(f"generator returns {dotted(call.func)}(...)")
        for k, v in kws.items():
            a = kwarg(call, k)
            pos = {"low": 0, "high": 1}[k]
            if a is None and len(call.args) > pos:
                a = call.args[pos]
            if a is None:
                if (k, v) not in (("low", 0), ("high", 1)):
                    problems.append(f"{k} not given")
            elif const(a) != v:
                problems.append(f"{k}={ast.unparse(a)} (entries must lie in [0, 1))")
        # shape forwarded
        ff = [c for c in ast.walk(fi.node) if isinstance(c, ast.Call) and (dotted(c.func) or "").endswith("from_function")]
        if not ff or len(ff[0].args) < 2 or not (isinstance(ff[0].args[1], ast.Name) and ff[0].args[1].id == fi.params()[0]):
            problems.append("the requested shape is not passed on to from_function unchanged")
        if ff and not (isinstance(ff[0].args[0], ast.Name) and inner is not None and ff[0].args[0].id == inner.name):
            problems.append("from_function does not receive the generator")
        if problems:
            res.bad("GEN-fill", fi.short, desc, prog.loc(fi, call), "; ".join(problems))
        else:
            res.ok("GEN-fill", fi.short, desc, prog.loc(fi, call))
    fi = prog.func("tensor.tensor.from_function")
    desc = "from_function passes the generated data and the parsed shape to the F-reshaping constructor"
    ok = None
    for c in ast.walk(fi.node):
        if isinstance(c, ast.Call) and isinstance(c.func, ast.Name) and c.func.id == "cls" and len(c.args) >= 2:
            ok = isinstance(c.args[0], ast.Name) and isinstance(c.args[1], ast.Name) and c.args[1].id == "shape"
            data_name = c.args[0].id if isinstance(c.args[0], ast.Name) else None
            gen = [a for a in ast.walk(fi.node) if isinstance(a, ast.Assign) and isinstance(a.targets[0], ast.Name) and a.targets[0].id == data_name
                   and isinstance(a.value, ast.Call) and isinstance(a.value.func, ast.Name) and a.value.func.id == "function_handle"
                   and a.value.args and isinstance(a.value.args[0], ast.Name) and a.value.args[0].id == "shape"]
            ok = ok and bool(gen)
    if ok:
        res.ok("GEN-fill", fi.short, desc, prog.loc(fi))
    elif ok is False:
        res.bad("GEN-fill", fi.short, desc, prog.loc(fi), "generated data / shape are not what reaches the constructor")
    else:
        res.undecided("GEN-fill", fi.short, desc, prog.loc(fi))


def gen_sparse(prog: Program, res: Result) -> None:
    fi = prog.func("sptensor.sptensor.from_function")
    ev = R.RowEval(prog)
    seen = []

    def hook(st, env, subst):
        for c in ast.walk(st):
            if isinstance(c, ast.Call) and isinstance(c.func, ast.Name) and c.func.id == "cls" and len(c.args) >= 2:
                seen.append((c, R._subst(ev.ev(c.args[0], env), subst), R._subst(ev.ev(c.args[1], env), subst)))

    ev.run(fi, on_stmt=hook)
    d1 = "subscripts handed to the constructor are pairwise distinct (np.unique lineage, prefix slicing only)"
    d2 = "values are generated for exactly as many rows as subscripts are kept"
    if not seen:
        res.undecided("GEN-uniq", fi.short, d1, prog.loc(fi), "constructor call not reached")
        res.undecided("GEN-cnt", fi.short, d2, prog.loc(fi))
        return
    c = seen[0][0]
    if all(isinstance(a, R.Arr) and a.unique for _c, a, _b in seen):
        res.ok("GEN-uniq", fi.short, d1, prog.loc(fi, c), f"{len(seen)} path(s)")
    elif any(isinstance(a, R.Arr) and not a.unique for _c, a, _b in seen):
        res.bad("GEN-uniq", fi.short, d1, prog.loc(fi, c),
                "on some path the subscripts no longer descend from np.unique(axis=0): duplicate subscripts can be stored")
    else:
        res.undecided("GEN-uniq", fi.short, d1, prog.loc(fi, c))
    verdicts = [R.compare_counts(a.rows, b.rows) if isinstance(a, R.Arr) and isinstance(b, R.Arr) else ("UNK", "untracked") for _c, a, b in seen]
    if any(v[0] == "NE" for v in verdicts):
        res.bad("GEN-cnt", fi.short, d2, prog.loc(fi, c), next(v[1] for v in verdicts if v[0] == "NE"))
    elif all(v[0] == "EQ" for v in verdicts):
        res.ok("GEN-cnt", fi.short, d2, prog.loc(fi, c), verdicts[0][1])
    else:
        res.undecided("GEN-cnt", fi.short, d2, prog.loc(fi, c), next(v[1] for v in verdicts if v[0] == "UNK"))
    # sptenrand delegates to from_function with the unit uniform generator
    fi2 = prog.func("sptensor.sptenrand")
    inner, call = _nested_return_call(fi2.node)
    desc = "sptenrand draws values from np.random.uniform(low=0, high=1)"
    lo = arg_or_kw(call, 0, "low") if call is not None else None
    hi = arg_or_kw(call, 1, "high") if call is not None else None
    if call is not None and (dotted(call.func) or "").split(".")[-1] == "uniform" and (lo is None or const(lo) == 0) \
            and (hi is None or const(hi) == 1):
        res.ok("GEN-fill", fi2.short, desc, prog.loc(fi2, call))
    elif call is None:
        res.undecided("GEN-fill", fi2.short, desc, prog.loc(fi2))
    else:
        res.bad("GEN-fill", fi2.short, desc, prog.loc(fi2, call), f"generator is {ast.unparse(call)[:80]}")


def _stride_idiom(fn: ast.AST):
    """Diagonal by linear index: positions k * sum(strides).  With the first subscript fastest (the library's numbering) the strides of a
    shape s are cumprod((1,) + s[:-1]); built from any other slice of the shape they address other entries for non-cubical shapes.
    Returns (ok, message, node) or None when no cumprod-of-shape idiom is present."""
    for c in ast.walk(fn):
        if isinstance(c, ast.Call) and (dotted(c.func) or "").split(".")[-1] == "cumprod" and c.args:
            a = c.args[0]
            parts = []
            if isinstance(a, ast.BinOp) and isinstance(a.op, ast.Add):
                parts = [a.left, a.right]
            elif isinstance(a, ast.Call) and (dotted(a.func) or "").split(".")[-1] in ("concatenate", "hstack", "append") and a.args:
                inner = a.args[0]
                parts = list(inner.elts) if isinstance(inner, (ast.Tuple, ast.List)) else list(a.args)
            elif isinstance(a, (ast.Tuple, ast.List)) and len(a.elts) == 2 and isinstance(a.elts[1], ast.Starred):
                parts = [ast.Tuple(elts=[a.elts[0]], ctx=ast.Load()), a.elts[1].value]          # (1, *shape[:-1])
            elif isinstance(a, ast.Call) and (dotted(a.func) or "").split(".")[-1] in ("array", "asarray", "tuple", "list") and a.args \
                    and isinstance(a.args[0], (ast.Tuple, ast.List)) and len(a.args[0].elts) == 2 and isinstance(a.args[0].elts[1], ast.Starred):
                parts = [ast.Tuple(elts=[a.args[0].elts[0]], ctx=ast.Load()), a.args[0].elts[1].value]
            if len(parts) != 2:
                continue
            one, sl = parts
            if isinstance(one, ast.Call) and one.args:
                one = one.args[0]
            if isinstance(sl, ast.Call) and sl.args:
                sl = sl.args[0]
            is_one = isinstance(one, (ast.Tuple, ast.List)) and len(one.elts) == 1 and const(one.elts[0]) == 1
            if not (is_one and isinstance(sl, ast.Subscript) and isinstance(sl.slice, ast.Slice)):
                continue
            lo, hi, st = sl.slice.lower, sl.slice.upper, sl.slice.step
            if lo is None and st is None and hi is not None and const(hi) == -1:
                return True, "", c
            return False, (f"strides are built from `{ast.unparse(sl)}`: the first-subscript-fastest strides of a shape are cumprod((1,) + shape[:-1]); "
                           "with another slice the positions leave the diagonal for every non-cubical shape"), c
    return None


STRIDE_FIXTURE = ("def f(N, shape):\n    X = zeros(shape)\n    X[np.arange(0, N) * int(np.sum(np.cumprod((1,) + shape[1:])))] = 1\n    return X\n",
                  "def f(N, shape):\n    X = zeros(shape)\n    X[np.arange(0, N) * int(np.sum(np.cumprod((1,) + shape[:-1])))] = 1\n    return X\n")


def diag(prog: Program, res: Result) -> None:
    bad_fx = _stride_idiom(ast.parse(STRIDE_FIXTURE[0]))
    ok_fx = _stride_idiom(ast.parse(STRIDE_FIXTURE[1]))
    if not (bad_fx and bad_fx[0] is False and ok_fx and ok_fx[0] is True):
        raise AnalysisError("DIAG stride idiom fixtures not recognised")
    for short in ("sptensor.sptendiag", "tensor.tendiag"):
        fi = prog.func(short)
        fn = fi.node
        # names: element count N (= len(<elements>)), constructed shape S (the shape handed to the constructor of the result)
        count_names = {n.targets[0].id for n in ast.walk(fn) if isinstance(n, ast.Assign) and len(n.targets) == 1 and isinstance(n.targets[0], ast.Name)
                       and isinstance(n.value, ast.Call) and (dotted(n.value.func) or "") == "len"}
        shape_name = None
        for c in ast.walk(fn):
            if isinstance(c, ast.Call):
                base = (dotted(c.func) or "").split(".")[-1]
                if base in ("tenzeros", "zeros") and c.args and isinstance(c.args[0], ast.Name):
                    shape_name = c.args[0].id
                if base in ("from_aggregator", "sptensor") and len(c.args) >= 3 and isinstance(c.args[2], ast.Name):
                    shape_name = c.args[2].id
        tile = [c for c in ast.walk(fn) if isinstance(c, ast.Call) and (dotted(c.func) or "").split(".")[-1] == "tile"]
        desc = "one diagonal subscript column per mode of the constructed shape"
        if not tile:
            v = _stride_idiom(fn)
            if v is None:
                res.undecided("DIAG", short, desc, prog.loc(fi))
            elif v[0]:
                res.ok("DIAG", short, desc, prog.loc(fi, v[2]), "linear indices k * sum(F-order strides)")
            else:
                res.bad("DIAG", short, desc, prog.loc(fi, v[2]), v[1])
        elif shape_name is None or not count_names:
            res.undecided("DIAG", short, desc, prog.loc(fi, tile[0]), "element count / constructed shape not identified")
        else:
            t = tile[0]
            src = fi.resolve(t.args[0]) if t.args else None
            reps = fi.resolve(t.args[1]) if len(t.args) > 1 else None
            # source: arange(N) (as a column or transposed row)
            ar = [c for c in ast.walk(src) if isinstance(c, ast.Call) and (dotted(c.func) or "").split(".")[-1] == "arange"] if src is not None else []
            def is_count(x):
                return (isinstance(x, ast.Name) and x.id in count_names) or (isinstance(x, ast.Call) and (dotted(x.func) or "") == "len")
            ar_ok = bool(ar) and is_count(ar[0].args[-1]) and (len(ar[0].args) == 1 or const(ar[0].args[0]) == 0)
            # repetitions: len(S) with the S of the constructor
            lens = [c for c in ast.walk(reps) if isinstance(c, ast.Call) and (dotted(c.func) or "") == "len" and c.args] if reps is not None else []
            shape_defs = {ast.unparse(d) for d in ([fi.single_defs()[shape_name]] if shape_name in fi.single_defs() else [])}
            rep_ok = bool(lens) and ((isinstance(lens[0].args[0], ast.Name) and lens[0].args[0].id == shape_name)
                                     or ast.unparse(lens[0].args[0]) in shape_defs)
            if ar_ok and rep_ok:
                res.ok("DIAG", short, desc, prog.loc(fi, t), f"tile({ast.unparse(src)}, {ast.unparse(reps)})")
            elif not rep_ok:
                res.bad("DIAG", short, desc, prog.loc(fi, t),
                        f"tile(.., {ast.unparse(reps) if reps is not None else ''}): the number of subscript columns is not the order of the constructed "
                        f"tensor `len({shape_name})`")
            else:
                res.bad("DIAG", short, desc, prog.loc(fi, t), f"the tiled column is `{ast.unparse(src)}`, not 0..N-1 for the N diagonal elements")
        if short.endswith("sptendiag"):
            zdesc = "user-supplied diagonal values reach the sparse result through a zero-dropping path (aggregating constructor or a != 0 filter)"
            ctor = [c for c in ast.walk(fn) if isinstance(c, ast.Call) and (dotted(c.func) or "").split(".")[-1] in ("from_aggregator", "sptensor")
                    and len(c.args) >= 2]
            filt = any(isinstance(c, ast.Compare) and isinstance(c.ops[0], ast.NotEq) and const(c.comparators[0]) == 0 for c in ast.walk(fn)) or \
                any(isinstance(c, ast.Call) and (dotted(c.func) or "").split(".")[-1] in ("nonzero", "flatnonzero") for c in ast.walk(fn))
            if not ctor:
                res.undecided("DIAG", short, zdesc, prog.loc(fi))
            elif (dotted(ctor[-1].func) or "").split(".")[-1] == "from_aggregator" or filt:
                res.ok("DIAG", short, zdesc, prog.loc(fi, ctor[-1]))
            else:
                res.bad("DIAG", short, zdesc, prog.loc(fi, ctor[-1]),
                        f"`{ast.unparse(ctor[-1])[:70]}` stores the given elements as they are: a zero among them becomes an explicit stored zero "
                        "(nnz too large, vals contains 0) - the plain constructor does no validation")
        desc = "constructed extent per mode is max(number of elements, requested extent); cubical of order N without a shape"
        gens = [n for n in ast.walk(fn) if isinstance(n, ast.Assign) and len(n.targets) == 1 and isinstance(n.targets[0], ast.Name)
                and n.targets[0].id == shape_name] if shape_name else []
        has_max = has_cube = False
        for g in gens:
            v = g.value
            for c in ast.walk(v):
                if isinstance(c, ast.Call) and (dotted(c.func) or "") == "max" and len(c.args) == 2:
                    names = {a.id for a in c.args if isinstance(a, ast.Name)}
                    if names & count_names and len(names) == 2:
                        has_max = True
            if isinstance(v, ast.BinOp) and isinstance(v.op, ast.Mult):
                tup, k = (v.left, v.right) if isinstance(v.left, ast.Tuple) else (v.right, v.left)
                if isinstance(tup, ast.Tuple) and len(tup.elts) == 1 and isinstance(tup.elts[0], ast.Name) and tup.elts[0].id in count_names \
                        and isinstance(k, ast.Name) and k.id in count_names:
                    has_cube = True
        if has_max and has_cube:
            res.ok("DIAG", short, desc, prog.loc(fi, gens[0]))
        elif gens:
            res.bad("DIAG", short, desc, prog.loc(fi, gens[0]), f"constructed shape computed as {[ast.unparse(g.value) for g in gens]}")
        else:
            res.undecided("DIAG", short, desc, prog.loc(fi))


def agg_drop(prog: Program, res: Result) -> None:
    fi = prog.func("sptensor.sptensor.from_aggregator")
    desc = "aggregated zeros are dropped: subscripts and values are filtered by the nonzero index of the aggregated values"
    nz = [a for a in ast.walk(fi.node) if isinstance(a, ast.Assign) and isinstance(a.value, ast.Call) and (dotted(a.value.func) or "").split(".")[-1] == "nonzero"]
    if not nz or not isinstance(nz[0].targets[0], ast.Name):
        res.bad("IX-agg", fi.short, desc, prog.loc(fi), "no np.nonzero filter on the aggregated values: explicit zeros are stored")
        return
    nm = nz[0].targets[0].id
    arg = ast.unparse(nz[0].value.args[0]) if nz[0].value.args else ""
    uses = [a for a in ast.walk(fi.node) if isinstance(a, ast.Assign) and isinstance(a.value, ast.Subscript) and isinstance(a.value.slice, ast.Name)
            and a.value.slice.id == nm]
    filtered = {ast.unparse(a.value.value) for a in uses}
    if "vals" in arg and len(filtered) >= 2:
        res.ok("IX-agg", fi.short, desc, prog.loc(fi, nz[0]), f"np.nonzero({arg}) filters {sorted(filtered)}")
    else:
        res.bad("IX-agg", fi.short, desc, prog.loc(fi, nz[0]), f"np.nonzero({arg}) filters only {sorted(filtered)}")


def int_kinds(prog: Program, res: Result) -> None:
    """parse_shape is the one place where every generator reads its `shape` argument.  It tells integers by isinstance in two places: a
    scalar shape (one mode) and the entries of a sequence.  The two tests must name the same types - an integer type that is accepted as an
    entry but not as a scalar makes `gen(n)` fail (or be read as a sequence) for exactly the sizes computed with numpy (`idx.max() + 1`)."""
    fi = prog.func("pyttb_utils.parse_shape")
    by_subject: Dict[str, Tuple[ast.Call, set]] = {}
    for c in ast.walk(fi.node):
        if isinstance(c, ast.Call) and dotted(c.func) == "isinstance" and len(c.args) == 2:
            ty = fi.resolve(c.args[1])
            if isinstance(ty, ast.Name) and ty.id in getattr(fi.node, "_pv_module_consts", {}):
                ty = fi.node._pv_module_consts[ty.id]
            names = {(dotted(t) or "?").split(".")[-1] for t in (ty.elts if isinstance(ty, ast.Tuple) else [ty])}
            if names & {"int", "integer", "Integral", "int64", "int32"}:
                # tests of one subject are read together (isinstance(x, int) or isinstance(x, np.integer))
                first, acc = by_subject.setdefault(ast.unparse(c.args[0]), (c, set()))
                acc |= names
    sets = [(c, frozenset(acc)) for c, acc in by_subject.values()]
    desc = "scalar shapes and shape entries are recognised as integers by the same types"
    if len(sets) < 2:
        res.undecided("INTKIND", fi.short, desc, prog.loc(fi), f"integer type tests on {len(sets)} subjects (2 on the reviewed tree: the shape, its entries)")
        return
    ref = max((s_ for _c, s_ in sets), key=len)
    odd = [(c, s_) for c, s_ in sets if s_ != ref]
    plain = {"int", "integer"}
    if odd and not all(s_ < ref and ref <= plain for _c, s_ in odd):
        res.undecided("INTKIND", fi.short, desc, prog.loc(fi, odd[0][0]), f"type sets {sorted(odd[0][1])} and {sorted(ref)} are not comparable by name")
    elif odd:
        c, s_ = odd[0]
        res.bad("INTKIND", fi.short, desc, prog.loc(fi, c),
                f"`{ast.unparse(c.args[0])}` is tested against {sorted(s_)} while another value of the function is tested against {sorted(ref)}: a size of "
                f"type {sorted(ref - s_)} is an integer in one place and not in the other")
    else:
        res.ok("INTKIND", fi.short, desc, prog.loc(fi, sets[0][0]), f"{len(sets)} subjects over {sorted(ref)}")


def check(prog: Program, res: Result, tier: str) -> None:
    res.explanation = __doc__.split("\n\n", 1)[1]
    res.assumptions = ["a generator callable applied to a shape returns an array of that shape (documented contract of from_function)",
                       "np.unique(axis=0) returns pairwise distinct rows; prefix slicing keeps them distinct"]
    res.floors = {"GEN-fill": 5, "GEN-uniq": 1, "GEN-cnt": 1, "DIAG": 5, "IX-agg": 3, "RNG": 8, "INTKIND": 1}
    gen_fill(prog, res)
    gen_sparse(prog, res)
    diag(prog, res)
    ix_agg(prog, res)
    agg_every_path(prog, res)
    agg_drop(prog, res)
    int_kinds(prog, res)
    rng_rule(prog, res)
