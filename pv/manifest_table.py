"""Per-property MANIFEST entries (consumed by tools/gen_manifest.py)."""

CLAIMED = {
    "C12": {
        "technique": "static analysis: source terms of the ten loss/gradient pairs translated from the AST to sympy, "
                     "symbolic d/dmodel compared by normal form; registry exhaustiveness; affine domain bound; "
                     "symbolic per-entry evaluation of evaluate/estimate (function branch differentiates to gradient branch)",
        "level": "Decides, for every registered objective and all values in its domain, that the gradient handle is the "
                 "derivative of the loss handle (term rewriting, not sampling), that every enum member is dispatched with "
                 "the same extra parameter on both handles, that log/power arguments are positive at the lower bound, and "
                 "that the weighted / corrected per-entry objective term differentiates to the per-entry gradient term in "
                 "fg.evaluate and fg_est.estimate. Does not decide MTTKRP numerics or sampled==exact.",
        "note": "Trusted: sympy's differentiation and simplification; the AST->term translation in pv/terms.py; numpy "
                "element-wise functions have textbook derivatives; comparison masks are piecewise constant.",
    },
}

CLAIMED["C14"] = {
    "technique": "static analysis: eigen-API typestate (abstract interpretation of every acyclic path of the four nvecs: "
                 "solver kind, which axis is permuted, sort direction and key provenance, truncation axis), sign-rule "
                 "pattern, sibling agreement of the solver switch",
    "level": "Decides on every path of tensor/sptensor/ktensor/ttensor.nvecs that the returned matrix is the eigenvector "
             "matrix of a symmetric solver with columns (not rows) permuted by a descending argsort keyed on the same "
             "call's eigenvalues and truncated to r columns, that the sign rule pivots per column on |v| and flips the "
             "column, and that the four siblings switch solver under the same condition. Does not decide that the Gram "
             "matrix is the mode-n Gram matrix, nor subspace equality across representations.",
    "note": "Trusted: scipy's eigh/eigsh/eig/eigs result conventions as written in pv/eigen.py; path enumeration unrolls "
            "loops once.",
}
CLAIMED["C16"] = {
    "technique": "static analysis: writer/reader agreement between export_data.py and import_data.py (printf precision of "
                 "default formats, subscript offset vs index_base, enumeration-order tags per kind, L/N field-sequence "
                 "comparison per kind, entry-line field order)",
    "level": "Decides that every default float format reaching tofile keeps >= 17 significant digits, that the export "
             "offset equals the importer's default index_base which is subtracted and forwarded, that each kind is "
             "written and rebuilt in the same enumeration order (F/F dense, C/C factors and matrices), that the sequence "
             "of text lines and numeric blocks written per kind equals the sequence read, that sparse entry lines are "
             "subscripts-then-value on both sides, and that the entry count in the sparse header is the number of stored "
             "entries like the loop that writes them. Does not decide run-time parsing of extreme exponents.",
    "note": "Trusted: numpy tofile/fromfile text-mode contracts; a double round-trips through 17 significant digits.",
}

CLAIMED["C13"] = {
    "technique": "static analysis: per-call attribute init-before-use typestate over solve()'s call closure (MRO-resolved "
                 "inlining), keyed-slot restoration on all exits, projection/bounds pattern on every update_step sibling, "
                 "best-model synchronisation roles in the epoch loop, affine index-vs-slice coverage of the traces, symbolic "
                 "row-count algebra of the sampler triples",
    "level": "Decides that no solver attribute mutated during solve() is read before solve() re-initialises it (reuse), that "
             "the L-BFGS-B callback slot never keeps the per-solve monitor, that every returned factor is max(lower_bound, .) "
             "and the bound is forwarded end to end, that a failed epoch is 'new > previous' with copy-based rollback/commit of "
             "the best model, that the returned trace prefix covers the last written index, and that each sampler returns "
             "subs/vals/weights with provably equal row counts. Does not decide weight totals or objective comparisons.",
    "note": "Trusted: loops of solve() run at least once; operands well-formed (rows(subs)==rows(vals)==nnz); numpy shape "
            "contracts in pv/rows.py.",
}

CLAIMED["C05"] = {
    "technique": "static analysis: flow-sensitive alias / ownership / mutation-effect dataflow over every function "
                 "(abstract values = kind + identity roots + storage roots + unknown-mediated roots with copy-flag guards), "
                 "function summaries to a whole-program fixpoint, numpy/scipy view-vs-copy API table, counterfactual "
                 "re-analysis to attribute a finding to the function where it originates",
    "level": "Decides for all ~330 public operations, on every code path and therefore for every parameter value "
             "(identity permutations, size-preserving reshapes, copy flags), that no statement can write storage reachable "
             "from an operand unless the operation is documented in-place (then only the receiver), that no chain of "
             "view-preserving operations connects an operand's storage to the result, that in-place operations copy values in "
             "rather than keep references, and that constructors with copying enabled store fresh values. Violations are "
             "reported only when every step of the chain is a modelled operation; anything else is UNDECIDED and listed.",
    "note": "Trusted: the numpy/scipy view-vs-copy contracts in pv/npapi.py, Python augmented-assignment semantics, parameter "
            "kinds from annotations and isinstance narrowing. May-analysis: does not prove bit-for-bit equality, only absence "
            "of writes / of sharing.",
}

CLAIMED["C19"] = {
    "technique": "static analysis: guard-obligation extraction (canonical signed atoms of the path condition of every raise / "
                 "assert, DNF, locals inlined, loop variables positional), comparison against a reviewed table with subset "
                 "semantics, delegation through callees with parameter binding, early-exit (bypass) detection, acceptance-"
                 "predicate monotonicity for boolean validators, path-sensitive store-before-raise ordering",
    "level": "Decides that each of the ~330 reviewed precondition guards is still enforced on the current tree (same or stronger "
             "condition, in the function or a callee, not bypassed by a new normal exit), that the boolean validators accept no "
             "more than before, that validating helper calls are still made with the same operands, and that receiver-mutating "
             "operations cannot reject after their first write. Deleting a check, changing its comparator or bound, adding a "
             "conjunct, swallowing it in try/except or returning early in front of it are all reported. Does not decide that a "
             "guard's arithmetic is right for all sizes.",
    "note": "Trusted: the reviewed table tables/c19_guards.json (+ c19_review.json) as the statement of which conditions are "
            "preconditions; default interpreter mode (asserts on); canonicalisation in pv/guards.py.",
}

_EO_NOTE = ("Trusted: numpy's default orders and transpose semantics; the reviewed list of order-irrelevant sites "
            "(tables/eo_sites.json); the row-helper contracts; canonical text of expressions (locals inlined).")
CLAIMED["C01"] = {
    "technique": "static analysis: enumeration-order typing of every reshape/ravel/flatten/ind2sub/sub2ind site on the conversion "
                 "paths (explicit-order discipline + pairing of listings), Khatri-Rao convention, inverse-permutation pairing, "
                 "paired-selector comparison for (de)matricisation, def-use completeness of representation reads, symbolic row counts",
    "level": "Decides necessary structural conditions of every conversion: F order at each layout-changing call, listings paired in "
             "one order, argsort inverse in tenmat->tensor, identical selectors for shape entries and subscript columns (row part <-> "
             "column 0 / rdims, column part <-> column 1 / cdims on both sides), every defining component read by full/double/"
             "to_tensor, equal row counts at sparse constructors. A C-order reshape, a forward permutation used as inverse or "
             "differing selectors move entries for every non-degenerate shape. Element-for-element equality is not decided.",
    "note": _EO_NOTE,
}
CLAIMED["C07"] = {
    "technique": "static analysis: enumeration-order typing of reshape sites, paired-selector comparison (subscript columns vs shape "
                 "entries, part by part for concatenations), forward-convention agreement of the four permute() siblings",
    "level": "Decides that dense reshape is F-ordered and sparse reshape goes through the F index pair, that sparse permute/reshape/"
             "squeeze apply one selector to subscripts and shape, that all four permute implementations select by the order argument "
             "itself (an argsort in one is the forward/inverse slip) and that Tucker permute uses one order for core and factors. "
             "Values and round trips are not decided.",
    "note": _EO_NOTE,
}
CLAIMED["C15"] = {
    "technique": "static analysis: listing-order tag propagation (ravel/flatten/reshape vs tt_ind2sub/tt_sub2ind enumerations) with "
                 "an agreement check at every element-wise pairing, accumarray(index, value) and reshape-back, in both algorithm "
                 "versions; presence of the group guards",
    "level": "Decides that wherever symmetrize / issymmetric combine two listings of the tensor's entries, both are in the same "
             "order (the C-vs-F slip corrupts exactly the proper-subgroup cases the suite never runs), and that the group size / "
             "overlap guards exist. Averaging numerics, idempotence and agreement of the two versions are not decided.",
    "note": _EO_NOTE,
}
CLAIMED["C17"] = {
    "technique": "static analysis: parameter-forwarding and default agreement of the index pair, sort/argsort value tags in "
                 "tt_dimscheck, axis placement of the Khatri-Rao fold, order discipline in both modules",
    "level": "Decides that tt_sub2ind/tt_ind2sub forward one F-default order to numpy's mutually inverse pair, that tt_dimscheck "
             "returns sorted modes and the argsort (or the sorted modes) as multiplicand index under the right condition with the "
             "right complement, and that khatrirao reverses iff asked and folds new factors onto the fast axis. The set-algebra laws "
             "of the row helpers are NOT decided (trusted elsewhere).",
    "note": _EO_NOTE,
}

_IX_NOTE = ("Trusted: the documented contracts of the row helpers (tt_intersect_rows / tt_ismember_rows / tt_setdiff_rows) for "
            "duplicate-free lists, operands well-formed (rows(subs)==rows(vals)==nnz), numpy shape contracts in pv/rows.py and "
            "pv/ix.py. Path-sensitive with branch-consistency pruning; loops unrolled once.")
CLAIMED["C03"] = {
    "technique": "static analysis: index-provenance / row-alignment typing of the sparse operators (path-sensitive), scalar-collapse "
                 "typestate of dense lookups, finite operator tables (converse comparisons, count predicates of the logical "
                 "aggregations, complement fills of division, zero-retention test), symbolic row counts at result constructors",
    "level": "Decides that values of two sparse operands are combined only when aligned by construction and indices address the list "
             "they were computed for (order independence of *, /, ==, !=, comparisons, logical ops), that single-entry dense lookups "
             "are normalised before use, that the four rich comparisons pass the right converse / zero flag, that and/or/xor use count "
             "== 2 / >= 1 / == 1, that entries are dropped only when zero and that division fills x/0, 0/x, 0/0 like dense division. "
             "Result values and sparse/dense division at doubly-zero positions are not decided.",
    "note": _IX_NOTE,
}
CLAIMED["C04"] = {
    "technique": "static analysis: index-provenance / layout typing of the sparse write paths, enumeration-order discipline of linear "
                 "<-> subscript conversions, dispatch exhaustiveness over the IndexVariant enum, growth-by-zeros pattern",
    "level": "Decides necessary conditions of the read/write paths: change/delete/insert groups built from aligned masks and entries "
             "addressed by their position in self.subs, F numbering at every linear-index conversion, every indexing variant handled "
             "or rejected in both classes, dense growth padding with zeros. The history semantics itself (last writer wins over "
             "arbitrary sequences, dense == sparse) is NOT decided: an unbounded relation between states.",
    "note": _IX_NOTE,
}
CLAIMED["C06"] = {
    "technique": "static analysis: index-provenance / row-alignment typing over all of sptensor.py and sptenmat.py (IX-dom, IX-seq, "
                 "IX-pair, IX-kind), symbolic row-count algebra at every sparse constructor site, unique/aggregator pairing",
    "level": "Decides that no two coordinate lists are ever paired by position unless aligned by construction (the static form of "
             "order independence), that index arrays and masks are applied only to the lists they belong to, that constructors receive "
             "aligned and equally long subscripts and values, and that the aggregating constructors reduce with the inverse index of "
             "their own np.unique call. Absence of explicit zeros after arithmetic and range of user subscripts are not decided.",
    "note": _IX_NOTE,
}
CLAIMED["C20"] = {
    "technique": "static analysis: generator call patterns, unique-lineage and symbolic row counts of the random sparse generator, "
                 "tiling pattern of the diagonal generators, aggregator pairing, RNG who-may-call over all modules",
    "level": "Decides that ones/zeros/uniform generators produce the named fill for the requested shape and reach the F-reshaping "
             "constructor, that random sparse subscripts stay pairwise distinct and values are drawn for exactly the kept count, "
             "that diagonal generators tile one column per mode of a max(N, extent) shape, that aggregation pairs values with its own "
             "unique index and drops zeros, and that all randomness comes from the global numpy stream. Entry values are not decided.",
    "note": _IX_NOTE,
}

CLAIMED["C18"] = {
    "technique": "static analysis: presentation taint (parameters printitn / printinneritn / verbosity / _printitn and locals derived "
                 "only from them), control-dependence regions, order-aware def-use reachability into branch conditions, backward "
                 "slice of the returned model, effect summaries of callees from the alias engine, RNG who-may-call",
    "level": "Decides for all 32 printing regions of the seven algorithms that code control-dependent on a presentation setting "
             "neither defines a value that can reach a later branch/loop condition, nor rebinds or writes (other than by a Kruskal "
             "re-parameterisation) anything in the slice of the returned model, nor draws random numbers, nor transfers control; and "
             "that every random draw in pyttb uses the global numpy stream. Dense-vs-sparse agreement, scaling and relabelling "
             "equivariance are relations between runs and are not decided.",
    "note": "Trusted: print/logging/formatting are effect-free; normalize/arrange/redistribute/fixsigns only re-parameterise (C08). "
            "A positive fixture must fire on every run.",
}

CLAIMED["C02"] = {
    "technique": "static analysis: multiplicand-index discipline at the tt_dimscheck sites (def-use of vidx / dims / the multiplicand "
                 "container), Khatri-Rao convention, enumeration-order discipline in the dense kernels, Kruskal-weights rule with "
                 "constant propagation in get_mttkrp_factors, fold coverage of sumtensor kernels, representation reads, scalar-collapse",
    "level": "Decides necessary structural conditions of the kernels: multiplicands addressed only through vidx[j] and modes through "
             "dims[j] (same j), reverse Khatri-Rao over ascending lists, F reshapes, a Kruskal operand's weights applied in every "
             "MTTKRP (absorbed into a non-skipped factor), every sumtensor part folded in, every defining component of Kruskal / Tucker "
             "/ sparse receivers read, single-entry look-ups normalised. Numbers and the densification switch are not decided.",
    "note": "Trusted: tt_dimscheck / khatrirao contracts (structurally checked under C17); numpy default orders.",
}
CLAIMED["C08"] = {
    "technique": "static analysis: parity abstract domain with refinement on mod-2 tests over all paths of fixsigns, selector agreement "
                 "(weights vs factor columns) in arrange / extract / normalize(sort) / + / -, writer/reader agreement of tovec vs "
                 "from_vector / update, absorb-then-reset pairing",
    "level": "Decides that every sign-flip loop runs an even number of times on every path (so a component keeps its sign), that the "
             "negative-weight repair negates exactly one factor with the weight, that one selector permutes weights and all factors, that "
             "+ / - concatenate in one operand order, that tovec and its inverses agree on prefix and F order, and that absorbed weights are "
             "reset. Unit norms, sortedness and numerical invariance of full() are not decided.",
    "note": "Trusted: breakpt + 1 is the count of negatively correlated modes; integer-valuedness of floor/int.",
}
CLAIMED["C09"] = {
    "technique": "static analysis: must-pass-through ordering over all returning paths (arrange after last update, fixsigns after "
                 "arrange), closed-form conformance of the fit / residual expressions by term rewriting (sympy), Gram-cache refresh "
                 "pattern, loop bounds, identity of the returned guess",
    "level": "Decides that the returned model was arranged after its last update on every path, that both fit expressions (iteration "
             "and print-time recomputation, zero-norm and regular branch) equal the property's formula as terms over nX, nM, <X,M>, "
             "that <X,M> uses the last mode's saved MTTKRP with weights, that the Gram cache is refreshed after each assignment and "
             "excludes the solved mode, that the loop is range(maxiters) and that the returned guess is the copied one. Monotone fit, "
             "stationarity and numerics are not decided.",
    "note": "Trusted: sympy normal forms; arrange / norm / innerprod mean what C08 / C02 check structurally.",
}
CLAIMED["C10"] = {
    "technique": "static analysis: closed-form conformance of the threshold and fit formulas (sympy), index-vs-count unit typing of the "
                 "rank and the eigenvector slice, eigen typestate on hosvd's eigh, transposed-projection pattern on every ttm call",
    "level": "Decides that the threshold is tol^2 ||X||^2 / d, that the number of eigenvectors kept is a COUNT on every reaching "
             "definition of the rank (the off-by-one class), that stored factors are descending-sorted eigenvector columns of eigh, that "
             "all four projections use the transposed factor and that Tucker-ALS's fit equals the formula with the current core's norm. "
             "The error bound itself and monotonicity are not decided.",
    "note": "Trusted: scipy.linalg.eigh contract; sympy normal forms.",
}
CLAIMED["C11"] = {
    "technique": "static analysis: projection-after-step pattern in the row line search, ordering of final normalisation / objective / "
                 "return in the three solvers, affine index-vs-slice coverage of the diagnostics, loop bounds, copy-of-guess pattern",
    "level": "Decides that every line-search candidate is projected onto the non-negative orthant before use, that the reported objective "
             "is evaluated for the returned model after the final normalisation with no later write, that each diagnostic array has one "
             "entry per outer iteration, that KKT violations are max |.| and that loops respect maxiters / maxinneriters. This is a thin "
             "clause set: non-negativity of the multiplicative update, likelihood values and 'at least as likely as the start' are "
             "relations between floating-point quantities and are not decided.",
    "note": "Trusted: normalize only re-parameterises; tt_loglikelihood evaluates the Poisson log-likelihood of its arguments.",
}

NOT_APPLICABLE = {}
