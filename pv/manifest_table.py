"""Per-property MANIFEST entries (consumed by tools/gen_manifest.py)."""

CLAIMED = {
    "C12": {
        "technique": "static analysis: source terms of the ten loss/gradient pairs translated from the AST to sympy, "
                     "symbolic d/dmodel compared by normal form; registry exhaustiveness; affine domain bound; "
                     "symbolic per-entry evaluation of evaluate/estimate (function branch differentiates to gradient branch)",
        "level": "Decides, for every registered objective and all values in its domain, that the gradient handle is the "
                 "derivative of the loss handle (term rewriting, not sampling), that every enum member is dispatched with "
                 "the same extra parameter on both handles, that log/power arguments are positive at the lower bound, and "
                 "that the weighted / corrected per-entry objective term differentiates to the per-entry gradient term in "
                 "fg.evaluate and fg_est.estimate. Does not decide MTTKRP numerics or sampled==exact.",
        "note": "Trusted: sympy's differentiation and simplification; the AST->term translation in pv/terms.py; numpy "
                "element-wise functions have textbook derivatives; comparison masks are piecewise constant.",
    },
}

NOT_APPLICABLE = {}
