"""E0: program model — parses every module under <repo>/pyttb on every run.

Nothing here imports or executes pyttb; all facts come from `ast`.
"""
from __future__ import annotations

import ast
import os
import re
from dataclasses import dataclass, field
from typing import Dict, Iterator, List, Optional, Tuple

REPO = os.environ.get("PV_REPO", "/repo")

TENSOR_CLASSES = ("tensor", "sptensor", "ktensor", "ttensor", "sumtensor", "tenmat", "sptenmat")


class AnalysisError(Exception):
    """Raised when the analysis itself cannot be carried out (exit 2)."""


@dataclass
class FuncInfo:
    qualname: str  # e.g. pyttb.tensor.tensor.permute or pyttb.hosvd.hosvd
    module: str  # pyttb.tensor
    cls: Optional[str]  # tensor
    name: str
    node: ast.FunctionDef
    path: str
    decorators: List[str] = field(default_factory=list)
    parent: Optional[str] = None  # enclosing function qualname for nested defs

    @property
    def short(self) -> str:
        q = self.qualname
        return q[len("pyttb."):] if q.startswith("pyttb.") else q

    @property
    def is_classmethod(self) -> bool:
        return "classmethod" in self.decorators

    @property
    def is_staticmethod(self) -> bool:
        return "staticmethod" in self.decorators

    @property
    def is_property(self) -> bool:
        return "property" in self.decorators

    def single_defs(self) -> Dict[str, ast.expr]:
        """Locals assigned exactly once (plain name targets, not parameters, not loop variables): name -> value expression."""
        if getattr(self, "_single", None) is None:
            counts: Dict[str, int] = {}
            defs: Dict[str, ast.expr] = {}
            loopvars = set()
            for n in walk_no_nested(self.node):
                if isinstance(n, ast.Assign):
                    for t in n.targets:
                        for x in ast.walk(t):
                            if isinstance(x, ast.Name) and isinstance(x.ctx, ast.Store):
                                counts[x.id] = counts.get(x.id, 0) + (1 if x is t else 2)
                                if x is t:
                                    defs[x.id] = n.value
                elif isinstance(n, ast.AnnAssign) and isinstance(n.target, ast.Name) and n.value is not None:
                    counts[n.target.id] = counts.get(n.target.id, 0) + 1
                    defs[n.target.id] = n.value
                elif isinstance(n, ast.AugAssign) and isinstance(n.target, ast.Name):
                    counts[n.target.id] = counts.get(n.target.id, 0) + 2
                elif isinstance(n, (ast.For, ast.comprehension)):
                    for x in ast.walk(n.target):
                        if isinstance(x, ast.Name):
                            loopvars.add(x.id)
                elif isinstance(n, ast.With):
                    for it in n.items:
                        if isinstance(it.optional_vars, ast.Name):
                            counts[it.optional_vars.id] = 2
            ps = set(self.params())
            object.__setattr__(self, "_single", {k: v for k, v in defs.items() if counts.get(k) == 1 and k not in ps and k not in loopvars})
        return self._single  # type: ignore

    def resolve(self, e: ast.AST, depth: int = 4, keep=()) -> ast.AST:
        """A copy of e with single-assignment locals replaced by their definitions (undoes 'extract variable')."""
        import copy
        single = {k: v for k, v in self.single_defs().items() if k not in keep}

        class T(ast.NodeTransformer):
            def __init__(self, d):
                self.d = d

            def visit_Name(self, n):
                if isinstance(n.ctx, ast.Load) and n.id in single and self.d > 0:
                    return T(self.d - 1).visit(copy.deepcopy(single[n.id]))
                return n
        return T(depth).visit(copy.deepcopy(e))

    def rtext(self, e: ast.AST) -> str:
        return ast.unparse(self.resolve(e))

    def params(self) -> List[str]:
        a = self.node.args
        out = [x.arg for x in a.posonlyargs + a.args]
        if a.vararg:
            out.append(a.vararg.arg)
        out += [x.arg for x in a.kwonlyargs]
        if a.kwarg:
            out.append(a.kwarg.arg)
        return out

    def param_defaults(self) -> Dict[str, ast.expr]:
        a = self.node.args
        pos = a.posonlyargs + a.args
        out: Dict[str, ast.expr] = {}
        for p, d in zip(pos[len(pos) - len(a.defaults):], a.defaults):
            out[p.arg] = d
        for p, d in zip(a.kwonlyargs, a.kw_defaults):
            if d is not None:
                out[p.arg] = d
        return out

    def annotation(self, param: str) -> Optional[ast.expr]:
        a = self.node.args
        for x in a.posonlyargs + a.args + a.kwonlyargs:
            if x.arg == param:
                return x.annotation
        return None

    def docstring(self) -> str:
        return ast.get_docstring(self.node) or ""


@dataclass
class ClassInfo:
    qualname: str
    module: str
    name: str
    node: ast.ClassDef
    bases: List[str]
    methods: Dict[str, FuncInfo] = field(default_factory=dict)


@dataclass
class ModuleInfo:
    name: str
    path: str
    source: str
    tree: ast.Module
    imports: Dict[str, str] = field(default_factory=dict)  # local name -> dotted target


class Program:
    def __init__(self, repo: str = REPO):
        self.repo = repo
        self.pkg = os.path.join(repo, "pyttb")
        self.modules: Dict[str, ModuleInfo] = {}
        self.functions: Dict[str, FuncInfo] = {}
        self.classes: Dict[str, ClassInfo] = {}
        self._load()

    # ------------------------------------------------------------------
    def _load(self) -> None:
        if not os.path.isdir(self.pkg):
            raise AnalysisError(f"package directory missing: {self.pkg}")
        for root, dirs, files in os.walk(self.pkg):
            dirs[:] = sorted(d for d in dirs if d != "__pycache__")
            for f in sorted(files):
                if not f.endswith(".py"):
                    continue
                path = os.path.join(root, f)
                rel = os.path.relpath(path, self.repo)[:-3]
                name = rel.replace(os.sep, ".")
                if name.endswith(".__init__"):
                    name = name[: -len(".__init__")]
                with open(path, encoding="utf-8") as fh:
                    src = fh.read()
                try:
                    tree = ast.parse(src, filename=path)
                except SyntaxError as e:  # the tree must compile
                    raise AnalysisError(f"cannot parse {path}: {e}") from e
                if os.environ.get("PV_NO_INLINE") != "1":
                    from . import inline
                    self.inlined_calls = getattr(self, "inlined_calls", 0) + inline.apply(tree, name)
                if os.environ.get("PV_NO_NORMAL") != "1":
                    from . import normal
                    self.normalised = getattr(self, "normalised", 0) + normal.apply(tree)
                if os.environ.get("PV_NO_ROLES") != "1":
                    from . import roles
                    self.renamed_locals = getattr(self, "renamed_locals", 0) + roles.apply(tree, name)
                # module-level constants (NAME = literal / tuple of names): readable from every function of the module
                consts = {}
                for node in tree.body:
                    tgt = None
                    if isinstance(node, ast.Assign) and len(node.targets) == 1 and isinstance(node.targets[0], ast.Name):
                        tgt, val = node.targets[0].id, node.value
                    elif isinstance(node, ast.AnnAssign) and isinstance(node.target, ast.Name) and node.value is not None:
                        tgt, val = node.target.id, node.value
                    if tgt and isinstance(val, (ast.Constant, ast.Tuple, ast.List, ast.Set)) and all(
                            isinstance(x, (ast.Constant, ast.Name, ast.Attribute, ast.Tuple, ast.List, ast.Set, ast.Load, ast.UnaryOp, ast.USub))
                            for x in ast.walk(val)):
                        consts[tgt] = val
                for node in ast.walk(tree):
                    if isinstance(node, (ast.FunctionDef, ast.AsyncFunctionDef)):
                        node._pv_module_consts = consts
                mi = ModuleInfo(name, path, src, tree)
                self.modules[name] = mi
                self._index_module(mi)
        if len(self.modules) < 20:
            raise AnalysisError(f"only {len(self.modules)} modules parsed under {self.pkg}")

    def _index_module(self, mi: ModuleInfo) -> None:
        for node in mi.tree.body:
            if isinstance(node, ast.Import):
                for al in node.names:
                    mi.imports[al.asname or al.name.split(".")[0]] = al.name
            elif isinstance(node, ast.ImportFrom) and node.module:
                for al in node.names:
                    mi.imports[al.asname or al.name] = f"{node.module}.{al.name}"
        for node in mi.tree.body:
            if isinstance(node, (ast.FunctionDef, ast.AsyncFunctionDef)):
                self._add_func(mi, None, node, None)
            elif isinstance(node, ast.ClassDef):
                ci = ClassInfo(
                    f"{mi.name}.{node.name}", mi.name, node.name, node,
                    [ast.unparse(b) for b in node.bases],
                )
                self.classes[ci.qualname] = ci
                for sub in node.body:
                    if isinstance(sub, (ast.FunctionDef, ast.AsyncFunctionDef)):
                        fi = self._add_func(mi, node.name, sub, None)
                        # property setter shares the name; keep getter under the name
                        if sub.name in ci.methods and any(
                            "setter" in d for d in fi.decorators
                        ):
                            continue
                        ci.methods[sub.name] = fi

    def _add_func(self, mi, cls, node, parent) -> FuncInfo:
        q = f"{mi.name}.{cls}.{node.name}" if cls else f"{mi.name}.{node.name}"
        if parent:
            q = f"{parent}.<locals>.{node.name}"
        decos = []
        for d in node.decorator_list:
            decos.append(ast.unparse(d))
        if any("setter" in d for d in decos):
            q = q + ".setter"
        fi = FuncInfo(q, mi.name, cls, node.name, node, mi.path, decos, parent)
        self.functions[q] = fi
        for sub in ast.walk(node):
            if sub is not node and isinstance(sub, (ast.FunctionDef, ast.AsyncFunctionDef)):
                # nested defs (one level is all the repo uses)
                if self._direct_parent(node, sub):
                    self._add_func(mi, cls, sub, q)
        return fi

    @staticmethod
    def _direct_parent(outer, inner) -> bool:
        # inner is nested directly (not inside another nested def)
        for n in ast.walk(outer):
            if n is outer:
                continue
            if isinstance(n, (ast.FunctionDef, ast.AsyncFunctionDef)) and n is not inner:
                for m in ast.walk(n):
                    if m is inner:
                        return False
        return True

    # ------------------------------------------------------------------
    def func(self, short: str) -> FuncInfo:
        """Look a function up by name relative to pyttb (e.g. 'tensor.tensor.permute')."""
        q = short if short.startswith("pyttb.") else "pyttb." + short
        if q not in self.functions:
            raise AnalysisError(f"anchor function vanished: {q}")
        return self.functions[q]

    def has_func(self, short: str) -> bool:
        q = short if short.startswith("pyttb.") else "pyttb." + short
        return q in self.functions

    def cls(self, short: str) -> ClassInfo:
        q = short if short.startswith("pyttb.") else "pyttb." + short
        if q not in self.classes:
            raise AnalysisError(f"anchor class vanished: {q}")
        return self.classes[q]

    def tensor_class(self, name: str) -> Optional[ClassInfo]:
        """The pyttb class called `name` (tensor, sptensor, ...)."""
        return self.classes.get(f"pyttb.{name}.{name}")

    def rel(self, path: str) -> str:
        return os.path.relpath(path, self.repo)

    def loc(self, fi: FuncInfo, node: Optional[ast.AST] = None) -> str:
        ln = getattr(node, "lineno", None) if node is not None else fi.node.lineno
        return f"{self.rel(fi.path)}:{ln}"

    # ------------------------------------------------------------------
    def public_surface(self) -> Dict[str, FuncInfo]:
        """pyttb.__all__ ∪ entities named by autodoc directives ∪ their public members."""
        pub_classes, pub_funcs, pub_modules = set(), set(), set()
        init = self.modules.get("pyttb")
        if init is None:
            raise AnalysisError("pyttb/__init__.py missing")
        exported = set()
        for node in ast.walk(init.tree):
            if isinstance(node, ast.Assign) and any(
                isinstance(t, ast.Name) and t.id == "__all__" for t in node.targets
            ):
                for e in ast.walk(node.value):
                    if isinstance(e, ast.Attribute) and e.attr == "__name__" and isinstance(e.value, ast.Name):
                        exported.add(e.value.id)
                    elif isinstance(e, ast.Constant) and isinstance(e.value, str):
                        exported.add(e.value)
        for nm in exported:
            tgt = init.imports.get(nm)
            if not tgt:
                continue
            if tgt in self.classes:
                pub_classes.add(tgt)
            elif tgt in self.functions:
                pub_funcs.add(tgt)
        docs = os.path.join(self.repo, "docs", "source")
        pat = re.compile(r"^\.\.\s+auto(function|class|module)::\s+(\S+)", re.M)
        if os.path.isdir(docs):
            for root, _d, files in os.walk(docs):
                for f in files:
                    if f.endswith(".rst"):
                        with open(os.path.join(root, f), encoding="utf-8") as fh:
                            for kind, target in pat.findall(fh.read()):
                                if kind == "module":
                                    pub_modules.add(target)
                                else:
                                    nm = target.split(".")[-1]
                                    tgt = init.imports.get(nm)
                                    if tgt in self.classes:
                                        pub_classes.add(tgt)
                                    elif tgt in self.functions:
                                        pub_funcs.add(tgt)
        out: Dict[str, FuncInfo] = {}
        for q, fi in self.functions.items():
            if fi.parent:
                continue
            if fi.cls:
                cq = f"{fi.module}.{fi.cls}"
                is_pub_cls = cq in pub_classes or (fi.module in pub_modules and not fi.cls.startswith("_"))
                if not is_pub_cls:
                    continue
                if fi.name.startswith("_") and not (fi.name.startswith("__") and fi.name.endswith("__")):
                    continue
                out[q] = fi
            else:
                if q in pub_funcs or (fi.module in pub_modules and not fi.name.startswith("_")):
                    out[q] = fi
        return out


# ----------------------------------------------------------------------
# small AST helpers shared by the engines

def dotted(node: ast.AST) -> Optional[str]:
    """'np.linalg.norm' for Attribute/Name chains, else None."""
    parts = []
    while isinstance(node, ast.Attribute):
        parts.append(node.attr)
        node = node.value
    if isinstance(node, ast.Name):
        parts.append(node.id)
        return ".".join(reversed(parts))
    return None


def call_name(call: ast.Call) -> Optional[str]:
    return dotted(call.func)


def last_attr(call: ast.Call) -> Optional[str]:
    f = call.func
    if isinstance(f, ast.Attribute):
        return f.attr
    if isinstance(f, ast.Name):
        return f.id
    return None


def kwarg(call: ast.Call, name: str) -> Optional[ast.expr]:
    for k in call.keywords:
        if k.arg == name:
            return k.value
    return None


def arg_or_kw(call: ast.Call, pos: int, name: str) -> Optional[ast.expr]:
    k = kwarg(call, name)
    if k is not None:
        return k
    if len(call.args) > pos and not any(isinstance(a, ast.Starred) for a in call.args[: pos + 1]):
        return call.args[pos]
    return None


def const(node: Optional[ast.AST]):
    """Python constant of a literal node, or the sentinel NOCONST."""
    if isinstance(node, ast.Constant):
        return node.value
    if isinstance(node, ast.UnaryOp) and isinstance(node.op, ast.USub) and isinstance(node.operand, ast.Constant):
        v = node.operand.value
        if isinstance(v, (int, float)):
            return -v
    return NOCONST


class _NoConst:
    def __repr__(self):
        return "NOCONST"


NOCONST = _NoConst()


def walk_no_nested(node: ast.AST) -> Iterator[ast.AST]:
    """ast.walk that does not descend into nested function/class/lambda bodies."""
    stack = [node]
    first = True
    while stack:
        n = stack.pop()
        if not first and isinstance(n, (ast.FunctionDef, ast.AsyncFunctionDef, ast.ClassDef, ast.Lambda)):
            continue
        first = False
        yield n
        stack.extend(reversed(list(ast.iter_child_nodes(n))))


def calls_in(node: ast.AST, nested: bool = False) -> List[ast.Call]:
    it = ast.walk(node) if nested else walk_no_nested(node)
    out = [n for n in it if isinstance(n, ast.Call)]
    out.sort(key=lambda c: (c.lineno, c.col_offset))
    return out


def norm_text(node: ast.AST) -> str:
    """Formatting-independent text of a node."""
    return ast.unparse(node)


def names_in(node: ast.AST) -> set:
    return {n.id for n in ast.walk(node) if isinstance(n, ast.Name)}
