"""python3-vt -m pv check C05 [--tier quick|thorough] [--repo /repo] [--replay file]"""
from __future__ import annotations

import argparse
import importlib
import json
import os
import sys
import time
import traceback

from . import model, report


def run_rules(pid: str, repo: str, tier: str) -> report.Result:
    prog = model.Program(repo)
    mod = importlib.import_module(f"pv.rules.{pid}")
    res = report.Result(pid)
    res.analysed["modules"] = len(prog.modules)
    res.analysed["functions"] = len(prog.functions)
    res.analysed["locals_renamed_to_reviewed_names"] = getattr(prog, "renamed_locals", 0)
    mod.check(prog, res, tier)
    res.tree_functions = {q[len("pyttb."):] if q.startswith("pyttb.") else q for q in prog.functions}
    return res


def main(argv=None) -> int:
    ap = argparse.ArgumentParser(prog="pv")
    sub = ap.add_subparsers(dest="cmd", required=True)
    c = sub.add_parser("check")
    c.add_argument("property")
    c.add_argument("--tier", default=os.environ.get("VERIF_TIER", "quick"))
    c.add_argument("--repo", default=os.environ.get("PV_REPO", "/repo"))
    c.add_argument("--replay", default=None)
    c.add_argument("--no-selftest", action="store_true")
    a = ap.parse_args(argv)
    t0 = time.time()
    seed = int(os.environ.get("VERIF_SEED", "0") or 0)
    pid = a.property
    if a.replay:
        with open(a.replay) as fh:
            print(json.dumps(json.load(fh), indent=1))
    try:
        res = run_rules(pid, a.repo, a.tier)
        st = None
        if a.tier == "thorough" and not a.no_selftest:
            from . import selftest

            st = selftest.run(pid, a.repo, seed)
        return report.finish(res, a.tier, seed, t0, st)
    except model.AnalysisError as e:
        print(f"ANALYSIS-ERROR property={pid} {e}")
        return 2
    except Exception:  # internal failure must never look like a violation
        traceback.print_exc()
        print(f"ANALYSIS-ERROR property={pid} internal exception in the checker")
        return 2


if __name__ == "__main__":
    sys.exit(main())
