"""E5: guard obligations.

For every function: the raising statements (raise / assert False / assert T) with the
canonical path condition under which they raise (a set of signed atoms), the early normal
exits that precede each guard, and calls through which a guard can be delegated to a helper.
"""
from __future__ import annotations

import ast
import re
import copy
import itertools
from dataclasses import dataclass, field
from typing import Dict, FrozenSet, List, Optional, Set, Tuple

from .model import Program, FuncInfo, dotted, walk_no_nested, const

Atom = str  # canonical text, e.g. "eq(len(shape), ndims(self))" or "!isinstance(other, tensor)"


def _flip(op):
    return {ast.Lt: ast.Gt, ast.Gt: ast.Lt, ast.LtE: ast.GtE, ast.GtE: ast.LtE}.get(type(op), type(op))


def strip_locals(key: str) -> str:
    """Nested `local<...>` placeholders compare as the bare word `local` (keeps names short and bracket-balanced)."""
    out, i, n = [], 0, len(key)
    while i < n:
        if key.startswith("local<", i):
            depth, j = 0, i + 5
            while j < n:
                if key[j] == "<":
                    depth += 1
                elif key[j] == ">":
                    depth -= 1
                    if depth == 0:
                        break
                j += 1
            out.append("local")
            i = j + 1
        else:
            out.append(key[i])
            i += 1
    return "".join(out)


class Canon:
    """Canonical text of expressions inside one function (locals inlined, loop variables positional)."""

    def __init__(self, fn: ast.FunctionDef, bindings: Optional[Dict[str, ast.expr]] = None):
        self.fn = fn
        self.bindings = bindings or {}
        self.params = {a.arg for a in fn.args.posonlyargs + fn.args.args + fn.args.kwonlyargs}
        if fn.args.vararg:
            self.params.add(fn.args.vararg.arg)
        if fn.args.kwarg:
            self.params.add(fn.args.kwarg.arg)
        # single-assignment locals
        counts: Dict[str, int] = {}
        defs: Dict[str, ast.expr] = {}
        self.loopvars: Dict[str, str] = {}  # scoped: filled while a walker is inside the loop
        self.loopnames: Set[str] = set()
        self.with_defs: Dict[str, ast.expr] = {}
        self.pos_text: Dict[str, str] = {}     # positional loop indices: text used when they appear outside a subscript
        self.loop_order: Dict[str, int] = {}   # loop variable -> ordinal of its first loop (name-independent placeholder)
        self.loop_first: Dict[str, tuple] = {}  # loop variable -> (target, iterable) of its first loop
        self._outside_busy: Set[str] = set()
        self._loopstack: List[Dict[str, str]] = []
        for n in walk_no_nested(fn):
            if isinstance(n, ast.Assign):
                for t in n.targets:
                    if isinstance(t, ast.Name):
                        counts[t.id] = counts.get(t.id, 0) + 1
                        defs[t.id] = n.value
                    elif isinstance(t, (ast.Tuple, ast.List)):
                        for i, e in enumerate(t.elts):
                            if isinstance(e, ast.Name):
                                counts[e.id] = counts.get(e.id, 0) + 1
                                defs[e.id] = ast.Subscript(value=n.value, slice=ast.Constant(value=i), ctx=ast.Load())
            elif isinstance(n, (ast.AugAssign, ast.AnnAssign)) and isinstance(n.target, ast.Name):
                counts[n.target.id] = counts.get(n.target.id, 0) + (1 if isinstance(n, ast.AnnAssign) and n.value is not None else 2)
                if isinstance(n, ast.AnnAssign) and n.value is not None:
                    defs[n.target.id] = n.value
            elif isinstance(n, ast.For):
                for x in ast.walk(n.target):
                    if isinstance(x, ast.Name):
                        self.loopnames.add(x.id)
                        self.loop_order.setdefault(x.id, len(self.loop_order))
                        self.loop_first.setdefault(x.id, (n.target, n.iter))
            elif isinstance(n, ast.With):
                for it in n.items:
                    if isinstance(it.optional_vars, ast.Name):
                        counts[it.optional_vars.id] = 2
                        self.with_defs.setdefault(it.optional_vars.id, it.context_expr)
        self.single = {k: v for k, v in defs.items() if counts.get(k) == 1 and k not in self.params and k not in self.loopnames
                       and not isinstance(v, (ast.List, ast.Dict, ast.Set, ast.ListComp, ast.DictComp))}
        # module-level constants read like their value (a private _DEFAULT = "..." / _SUPPORTED = (a, b) introduced by a clean-up)
        for k, v in getattr(fn, "_pv_module_consts", {}).items():
            if k not in self.params and counts.get(k, 0) == 0 and k not in self.loopnames and (k.startswith("_") or k.isupper()):
                self.single.setdefault(k, v)
        # a parameter re-bound exactly once, unconditionally and before any other use, by an expression of itself (order = parse_one_d(order)):
        # later reads mean that expression of the ARGUMENT, whatever name it is bound to (parsed = parse_one_d(order) reads the same)
        self.rebound_params: Dict[str, ast.expr] = {}
        for idx, st in enumerate(fn.body):
            if isinstance(st, ast.Assign) and len(st.targets) == 1 and isinstance(st.targets[0], ast.Name) and st.targets[0].id in self.params \
                    and counts.get(st.targets[0].id) == 1:
                pname = st.targets[0].id
                reads_self = any(isinstance(x, ast.Name) and x.id == pname for x in ast.walk(st.value))
                earlier = any(isinstance(x, ast.Name) and x.id == pname for prev in fn.body[:idx] for x in ast.walk(prev)
                              if not (isinstance(prev, ast.Expr) and isinstance(prev.value, ast.Constant)))
                if reads_self and not earlier and isinstance(st.value, ast.Call):
                    self.rebound_params[pname] = st.value
                    for x in ast.walk(st.value):
                        if isinstance(x, ast.Name) and x.id == pname:
                            x._pv_raw = True          # inside its own re-binding the name still means the argument (survives deepcopy)
        self._param_busy: Set[str] = set()
        # a local whose only definitions are the arms of one if / elif / else (x = A if c else B written as a statement) reads as that
        # conditional expression
        def arm_value(block, name):
            """The value bound to `name` by the ONE top-level assignment to it in `block` (other statements of the arm may surround it)."""
            hits = [st for st in block if isinstance(st, ast.Assign) and len(st.targets) == 1 and isinstance(st.targets[0], ast.Name)
                    and st.targets[0].id == name]
            nested = [x for st in block if st not in hits for x in ast.walk(st)
                      if isinstance(x, ast.Name) and x.id == name and isinstance(x.ctx, ast.Store)]
            # the arm must consist of that assignment alone: an arm that also validates / computes other things is a branch of the
            # algorithm, not a two-way definition (its local keeps the `local<..>` name, like on the reviewed tree)
            return hits[0].value if len(hits) == 1 and not nested and len(block) == 1 else None

        def arms(node, name):
            """(IfExp, number of assignments) when `node` is an if / elif / else chain whose every arm binds `name` exactly once."""
            if not (isinstance(node, ast.If) and node.orelse):
                return None
            b = arm_value(node.body, name)
            if b is None:
                return None
            o = arm_value(node.orelse, name)
            if o is not None:
                return ast.IfExp(test=node.test, body=b, orelse=o), 2
            if len(node.orelse) == 1:
                sub = arms(node.orelse[0], name)
                if sub is not None:
                    return ast.IfExp(test=node.test, body=b, orelse=sub[0]), 1 + sub[1]
            return None
        for n in walk_no_nested(fn):
            if isinstance(n, ast.If) and n.orelse:
                for st in n.body:
                    if isinstance(st, ast.Assign) and len(st.targets) == 1 and isinstance(st.targets[0], ast.Name):
                        nm = st.targets[0].id
                        if nm in self.single or counts.get(nm, 0) < 2 or nm in self.params or nm in self.loopnames:
                            continue
                        got = arms(n, nm)
                        # re-bindings that only wrap the value (x = int(x)) do not count
                        all_defs = [a.value for a in walk_no_nested(fn) if isinstance(a, ast.Assign) and len(a.targets) == 1
                                    and isinstance(a.targets[0], ast.Name) and a.targets[0].id == nm]
                        plain = [d for d in all_defs if not any(isinstance(x, ast.Name) and x.id == nm for x in ast.walk(d))]
                        if got is not None and len(plain) == got[1] and counts.get(nm) == len(all_defs):
                            self.single[nm] = got[0]
        # locals assigned more than once: named after their FIRST definition, so that renaming them changes no key
        self.multi_first: Dict[str, ast.expr] = {}
        self.multi_defs: Dict[str, List[ast.expr]] = {}
        for n in walk_no_nested(fn):
            if isinstance(n, ast.Assign):
                for t in n.targets:
                    if isinstance(t, ast.Name):
                        self.multi_defs.setdefault(t.id, []).append(n.value)
            elif isinstance(n, ast.AnnAssign) and isinstance(n.target, ast.Name) and n.value is not None:
                self.multi_defs.setdefault(n.target.id, []).append(n.value)
        order_seen: Dict[str, ast.expr] = {}
        for n in walk_no_nested(fn):
            if isinstance(n, ast.Assign):
                for t in n.targets:
                    if isinstance(t, ast.Name) and t.id not in order_seen:
                        order_seen[t.id] = n.value
            elif isinstance(n, ast.AnnAssign) and isinstance(n.target, ast.Name) and n.value is not None and n.target.id not in order_seen:
                order_seen[n.target.id] = n.value
        for k, v in order_seen.items():
            if counts.get(k, 0) >= 2 and k not in self.params and k not in self.loopnames:
                self.multi_first[k] = v
            elif counts.get(k, 0) == 1 and k not in self.params and k not in self.loopnames and k not in self.single:
                self.multi_first[k] = v       # single definition that is not inlined (list / dict / comprehension): named after it
        for k, v in self.with_defs.items():
            if k not in self.params and k not in self.loopnames:
                self.multi_first.setdefault(k, v)
        self._busy: Set[str] = set()
        self._names: Dict[str, str] = {}
        # parameters bound to caller expressions (delegated guards are expressed in the caller's vocabulary)
        for k, v in self.bindings.items():
            if counts.get(k, 0) == 0:
                self.single[k] = v
        self._cache: Dict[str, str] = {}

    def definition(self, name: str) -> Optional[ast.expr]:
        """The defining expression of a local that reads like one: singly assigned, or with exactly one definition that does not mention
        the local itself (x = e; ...; x = int(x))."""
        if name in self.loopvars or name in self.params and name not in self.single:
            return None
        if name in self.single:
            return self.single[name]
        base = [d for d in self.multi_defs.get(name, []) if not self._mentions(d, name)]
        if len(base) == 1 and name not in self.with_defs and name not in self.loopnames:
            return base[0]
        return None

    def _mentions(self, d: ast.AST, name: str, depth: int = 3) -> bool:
        """d reads `name`, directly or through single-assignment locals (x = f(name); y = g(x)  =>  y mentions name)."""
        for x in ast.walk(d):
            if isinstance(x, ast.Name) and isinstance(x.ctx, ast.Load):
                if x.id == name:
                    return True
                if depth > 0 and x.id in self.single and self._mentions(self.single[x.id], name, depth - 1):
                    return True
        return False

    def push_loop(self, target, it) -> None:
        self._loopstack.append(dict(self.loopvars))
        self._bind_loop(target, it)

    def pop_loop(self) -> None:
        self.loopvars = self._loopstack.pop()

    def _bind_loop(self, target, it):
        """Loop variables are named by what they range over, independent of the looping idiom:
             for x in A                     x  -> each(A)
             for i in range(len(A))         A[i], B[i] -> each(A), each(B)      (i itself -> each(range(..)))
             for a, b in zip(A, B)          a -> each(A), b -> each(B)
             for i, a in enumerate(A)       a -> each(A), X[i] -> each(X)
        """
        for _ in range(4):
            if isinstance(it, ast.Name) and it.id in self.single and it.id not in self.loopvars and isinstance(self.single[it.id], ast.Call) \
                    and (dotted(self.single[it.id].func) or "") in ("tuple", "list"):
                it = self.single[it.id]
            if isinstance(it, ast.Call) and (dotted(it.func) or "") in ("tuple", "list") and len(it.args) == 1 and not it.keywords:
                it = it.args[0]          # iterating tuple(X) / list(X) visits the elements of X
            else:
                break
        base = it
        fn = (dotted(it.func) or "") if isinstance(it, ast.Call) else ""
        if fn == "zip" and isinstance(target, (ast.Tuple, ast.List)) and len(target.elts) == len(it.args):
            for e, a in zip(target.elts, it.args):
                self._bind_loop(e, a)
            return
        if fn == "enumerate" and isinstance(target, (ast.Tuple, ast.List)) and len(target.elts) == 2 and it.args:
            if isinstance(target.elts[0], ast.Name):
                self.loopvars[target.elts[0].id] = "#pos"
                self.pos_text[target.elts[0].id] = "each(range(" + self.text(ast.Call(func=ast.Name(id="len", ctx=ast.Load()), args=[it.args[0]], keywords=[])) + "))"
            self._bind_loop(target.elts[1], it.args[0])
            return
        if fn == "range" and isinstance(target, ast.Name) and it.args:
            stop = it.args[-1] if len(it.args) <= 2 else None
            lo = it.args[0] if len(it.args) == 2 else None
            if isinstance(stop, ast.Name):
                # n = len(X); for i in range(n)
                d_ = self.single.get(stop.id)
                if d_ is None:
                    base_defs = [d for d in self.multi_defs.get(stop.id, []) if not self._mentions(d, stop.id)]
                    d_ = base_defs[0] if len({ast.unparse(x) for x in base_defs}) == 1 else None
                if d_ is not None:
                    stop = d_
            if stop is not None and (lo is None or const(lo) == 0):
                sized = None
                if isinstance(stop, ast.Call) and (dotted(stop.func) or "") in ("len",) and stop.args:
                    sized = stop.args[0]
                elif isinstance(stop, ast.Attribute) and stop.attr in ("size", "ndims", "ncomponents"):
                    sized = stop
                elif isinstance(stop, ast.Subscript) and isinstance(stop.value, ast.Attribute) and stop.value.attr == "shape":
                    sized = stop
                if sized is not None:
                    self.loopvars[target.id] = "#pos"
                    self.pos_text[target.id] = f"each(range({self.text(stop)}))"
                    return
        txt = self.text(it)
        if isinstance(target, ast.Name):
            self.loopvars[target.id] = f"each({txt})"
        elif isinstance(target, (ast.Tuple, ast.List)):
            for i, e in enumerate(target.elts):
                if isinstance(e, ast.Name):
                    self.loopvars[e.id] = f"each{i}({txt})"

    def text(self, e: ast.expr, depth: int = 0) -> str:
        e2 = self._inline(copy.deepcopy(e), depth)
        return ast.unparse(e2)

    def _inline(self, e: ast.AST, depth: int) -> ast.AST:
        canon = self

        class T(ast.NodeTransformer):
            def visit_Name(self, n):
                if isinstance(n.ctx, ast.Load):
                    if n.id in canon.rebound_params and n.id not in canon._param_busy and depth < 4 and not getattr(n, "_pv_raw", False):
                        canon._param_busy.add(n.id)
                        try:
                            return canon._inline(copy.deepcopy(canon.rebound_params[n.id]), depth + 1)
                        finally:
                            canon._param_busy.discard(n.id)
                    if n.id in canon.loopvars:
                        return ast.Name(id=canon._loop_text(n.id, depth), ctx=ast.Load())
                    if n.id in canon.loop_order and n.id not in canon.params:
                        # a loop variable seen outside a walker's loop scope: positional placeholder, independent of its name
                        # ... named by what its (first) loop ranges over, like inside the loop: each(<iterable>)
                        if n.id in canon.loop_first and n.id not in canon._outside_busy and depth < 4:
                            canon._outside_busy.add(n.id)
                            saved = dict(canon.loopvars)
                            try:
                                tg, it = canon.loop_first[n.id]
                                canon._bind_loop(tg, it)
                                if n.id in canon.loopvars:
                                    return ast.Name(id=canon._loop_text(n.id, depth), ctx=ast.Load())
                            finally:
                                canon.loopvars = saved
                                canon._outside_busy.discard(n.id)
                        return ast.Name(id=f"loopvar{canon.loop_order[n.id]}", ctx=ast.Load())
                    if n.id in canon.single and depth < 4:
                        return canon._inline(copy.deepcopy(canon.single[n.id]), depth + 1)
                    if n.id in canon.multi_first and n.id not in canon._busy and n.id in canon._names:
                        return ast.Name(id=canon._names[n.id], ctx=ast.Load())      # one text per local, whatever the nesting of its use
                    if n.id in canon.multi_first and n.id not in canon._busy:
                        d0 = 1          # a fixed depth: the name of a local does not depend on where it is used
                        canon._busy.add(n.id)
                        try:
                            alts = sorted({strip_locals(ast.unparse(canon._inline(copy.deepcopy(d), d0 + 2)))[:60]
                                           for d in canon.multi_defs.get(n.id, [canon.multi_first[n.id]])
                                           if not canon._mentions(d, n.id)} or
                                          {strip_locals(ast.unparse(canon._inline(copy.deepcopy(canon.multi_first[n.id]), d0 + 2)))[:60]})
                        finally:
                            canon._busy.discard(n.id)
                        # named after ALL its (non-self-referential) definitions, in sorted order: re-ordering branches or dropping a
                        # re-binding that only wraps the value does not change the name; with a single such definition the local
                        # reads like that definition itself (x = e; if c: x = (x,)  ~  x = e)
                        base_defs = [d for d in canon.multi_defs.get(n.id, []) if not canon._mentions(d, n.id)]
                        if len({ast.unparse(x) for x in base_defs}) == 1 and len(alts) == 1 and d0 < 3 and n.id not in canon.with_defs:
                            canon._busy.add(n.id)
                            try:
                                return canon._inline(copy.deepcopy(base_defs[0]), d0 + 1)
                            finally:
                                canon._busy.discard(n.id)
                        canon._names[n.id] = "local<" + " | ".join(alts[:3]) + ">"
                        return ast.Name(id=canon._names[n.id], ctx=ast.Load())
                return n

            def visit_Subscript(self, n):
                # X[i] with i a positional loop index: the element of X at the current position
                sl = n.slice
                if isinstance(sl, ast.Name) and canon.loopvars.get(sl.id) == "#pos" and isinstance(n.ctx, ast.Load):
                    inner = ast.unparse(self.visit(copy.deepcopy(n.value)))
                    return ast.Name(id=f"each({inner})", ctx=ast.Load())
                return self.generic_visit(n)

            def visit_Attribute(self, n):
                n = self.generic_visit(n)
                if isinstance(n, ast.Attribute) and n.attr in ("ndim", "ndims") and isinstance(n.ctx, ast.Load):
                    # the number of modes has one spelling: X.ndim (arrays) ~ X.ndims (tensor classes) ~ len(X.shape)
                    return ast.Call(func=ast.Name(id="len", ctx=ast.Load()), args=[ast.Attribute(value=n.value, attr="shape", ctx=ast.Load())], keywords=[])
                return n

            def visit_Call(self, n):
                n = self.generic_visit(n)
                fname = dotted(n.func) or ""
                # parse_one_d(x) is x as a 1-D array: the same operand for the purpose of naming a guard (that the normalising call is made is
                # a reviewed obligation of its own, GD-call)
                if fname.split(".")[-1] == "parse_one_d" and len(n.args) == 1 and not n.keywords:
                    return n.args[0]
                # np.any / np.all as functions:  (A != B).any() ~ np.any(A != B)
                if isinstance(n.func, ast.Attribute) and n.func.attr in ("any", "all") and not n.args and not n.keywords \
                        and isinstance(n.func.value, (ast.Compare, ast.BinOp, ast.BoolOp, ast.UnaryOp)):
                    n = ast.Call(func=ast.Attribute(value=ast.Name(id="np", ctx=ast.Load()), attr=n.func.attr, ctx=ast.Load()), args=[n.func.value], keywords=[])
                    fname = dotted(n.func) or ""
                # range(0, x) ~ range(x), np.arange(0, x) ~ np.arange(x);  X.transpose() ~ X.T
                if fname in ("range", "np.arange", "numpy.arange") and len(n.args) == 2 and not n.keywords and const(n.args[0]) == 0 \
                        and isinstance(n.args[0], ast.Constant) and n.args[0].value is not False:
                    n.args = [n.args[1]]
                if fname in ("np.any", "np.all", "numpy.any", "numpy.all") and len(n.args) == 1 and isinstance(n.args[0], ast.Compare) \
                        and len(n.args[0].ops) == 1 and isinstance(n.args[0].ops[0], (ast.Eq, ast.NotEq)):
                    cmp_ = n.args[0]
                    if ast.unparse(cmp_.left) > ast.unparse(cmp_.comparators[0]):
                        n.args = [ast.Compare(left=cmp_.comparators[0], ops=cmp_.ops, comparators=[cmp_.left])]
                # np.array([range(n)]) / np.array(range(n)) / np.array(list(range(n)))  ~  np.arange(n)   (same entries)
                if fname in ("np.array", "numpy.array", "np.asarray") and len(n.args) == 1 and not n.keywords:
                    a0 = n.args[0]
                    if isinstance(a0, ast.List) and len(a0.elts) == 1:
                        a0 = a0.elts[0]
                    if isinstance(a0, ast.Call) and (dotted(a0.func) or "") == "list" and len(a0.args) == 1:
                        a0 = a0.args[0]
                    if isinstance(a0, ast.Call) and (dotted(a0.func) or "") == "range" and not a0.keywords and 1 <= len(a0.args) <= 2:
                        return ast.Call(func=ast.Attribute(value=ast.Name(id="np", ctx=ast.Load()), attr="arange", ctx=ast.Load()), args=a0.args, keywords=[])
                if fname == "len" and len(n.args) == 1 and not n.keywords:
                    a0 = n.args[0]
                    while isinstance(a0, ast.Call) and (dotted(a0.func) or "") in ("tuple", "list") and len(a0.args) == 1 and not a0.keywords:
                        a0 = a0.args[0]          # len(tuple(X)) ~ len(list(X)) ~ len(X)
                    if isinstance(a0, ast.GeneratorExp):
                        a0 = ast.ListComp(elt=a0.elt, generators=a0.generators)
                    n.args = [a0]
                if isinstance(n.func, ast.Attribute) and n.func.attr == "transpose" and not n.args and not n.keywords:
                    return ast.Attribute(value=n.func.value, attr="T", ctx=ast.Load())
                return n

            def visit_Compare(self, n):
                n = self.generic_visit(n)
                # np.sum(B, axis=k) > 0  ~  np.any(B, axis=k)   for a boolean array B (a count of True entries is positive iff there is one)
                if isinstance(n, ast.Compare) and len(n.ops) == 1:
                    l, op, r = n.left, n.ops[0], n.comparators[0]
                    cnt = None
                    if isinstance(op, (ast.Gt, ast.NotEq)) and const(r) == 0 and isinstance(r, ast.Constant) and r.value is not False:
                        cnt = l
                    elif isinstance(op, (ast.Lt, ast.NotEq)) and const(l) == 0 and isinstance(l, ast.Constant) and l.value is not False:
                        cnt = r
                    if isinstance(cnt, ast.Call) and (dotted(cnt.func) or "") in ("np.sum", "numpy.sum", "np.count_nonzero", "numpy.count_nonzero") \
                            and cnt.args and _boolean_valued(cnt.args[0]):
                        return ast.Call(func=ast.Attribute(value=ast.Name(id="np", ctx=ast.Load()), attr="any", ctx=ast.Load()),
                                        args=cnt.args, keywords=cnt.keywords)
                return n

            def visit_ListComp(self, n):
                return canon._alpha(n, self)

            visit_GeneratorExp = visit_ListComp
            visit_SetComp = visit_ListComp

            def visit_Lambda(self, n):
                return n

        return T().visit(e)

    def _loop_text(self, name: str, depth: int) -> str:
        v = self.loopvars[name]
        return self.pos_text.get(name, "each(range)") if v == "#pos" else v

    def _alpha(self, comp, tr):
        comp = copy.deepcopy(comp)
        ren: Dict[str, str] = {}
        k = 0
        for g in comp.generators:
            for n in ast.walk(g.target):
                if isinstance(n, ast.Name):
                    ren[n.id] = f"_c{k}"
                    k += 1
        for n in ast.walk(comp):
            if isinstance(n, ast.Name) and n.id in ren:
                n.id = ren[n.id]
        # inline inside (names other than comprehension vars)
        for g in comp.generators:
            g.iter = tr.visit(g.iter)
            g.ifs = [tr.visit(c) for c in g.ifs]
        if hasattr(comp, "elt"):
            comp.elt = tr.visit(comp.elt)
        return comp


def atoms_of(test: ast.expr, truth: bool, c: Canon) -> List[FrozenSet[Atom]]:
    """DNF of (test == truth) as a list of conjunct sets of canonical atoms."""
    if isinstance(test, ast.UnaryOp) and isinstance(test.op, ast.Not):
        return atoms_of(test.operand, not truth, c)
    if isinstance(test, ast.BoolOp):
        is_and = isinstance(test.op, ast.And)
        parts = [atoms_of(v, truth, c) for v in test.values]
        if is_and == truth:
            # conjunction: cross product
            out = [frozenset()]
            for p in parts:
                out = [a | b for a in out for b in p]
                if len(out) > 64:
                    return [frozenset({_lit(test, truth, c)})]
            return out
        # disjunction
        out = []
        for p in parts:
            out.extend(p)
        return out
    if isinstance(test, ast.Call) and isinstance(test.func, ast.Name) and test.func.id in ("all", "any") and len(test.args) == 1 \
            and not test.keywords and isinstance(test.args[0], (ast.GeneratorExp, ast.ListComp)) and len(test.args[0].generators) == 1 \
            and not test.args[0].generators[0].ifs and (test.func.id == "any") != truth:
        # universal reading:  all(P(x) for x in X)  ~  not any(not P(x) ..)  :  forall(<P of each(X)>), one atom per conjunct of P
        comp = test.args[0]
        g = comp.generators[0]
        names = [x.id for x in ast.walk(g.target) if isinstance(x, ast.Name)]
        if not any(nm in c.params for nm in names):
            c.push_loop(g.target, g.iter)
            try:
                inner = atoms_of(comp.elt, test.func.id == "all", c)
            finally:
                c.pop_loop()
            if len(inner) == 1 and inner[0]:
                return [frozenset(f"forall({a})" for a in inner[0])]
    if isinstance(test, ast.Call) and isinstance(test.func, ast.Name) and test.func.id in ("all", "any") and len(test.args) == 1 \
            and not test.keywords and isinstance(test.args[0], (ast.GeneratorExp, ast.ListComp)) and len(test.args[0].generators) == 1 \
            and not test.args[0].generators[0].ifs and (test.func.id == "any") == truth:
        # existential reading:  not all(P(x) for x in X)  ~  any(not P(x) for x in X)  ~  `for x in X: if not P(x): ...`
        comp = test.args[0]
        g = comp.generators[0]
        names = [x.id for x in ast.walk(g.target) if isinstance(x, ast.Name)]
        if not any(nm in c.params for nm in names):
            c.push_loop(g.target, g.iter)
            try:
                return atoms_of(comp.elt, truth, c)
            finally:
                c.pop_loop()
    if isinstance(test, ast.Compare) and len(test.ops) > 1:
        # chained comparison = conjunction of pairwise comparisons
        items = [test.left] + list(test.comparators)
        comps = [ast.Compare(left=items[i], ops=[test.ops[i]], comparators=[items[i + 1]]) for i in range(len(test.ops))]
        return atoms_of(ast.BoolOp(op=ast.And(), values=comps), truth, c)
    if isinstance(test, ast.Name) and test.id in c.single and isinstance(c.single[test.id], (ast.BoolOp, ast.Compare, ast.UnaryOp, ast.Call)) \
            and _depth_ok(c, test.id):
        return atoms_of(c.single[test.id], truth, c)
    if isinstance(test, ast.Compare) and len(test.ops) == 1:
        # an operand defined by a conditional expression (x = a if t else b): split into its two cases, so that
        # `x == k` reads  (t and a == k) or (not t and b == k)  whatever name the intermediate has
        for side in ("left", "right"):
            operand = test.left if side == "left" else test.comparators[0]
            ife = operand if isinstance(operand, ast.IfExp) else (
                c.single.get(operand.id) if isinstance(operand, ast.Name) and isinstance(c.single.get(operand.id), ast.IfExp) else None)
            if ife is not None:
                def cmp_with(v):
                    return ast.Compare(left=v if side == "left" else test.left, ops=test.ops,
                                       comparators=[test.comparators[0] if side == "left" else v])
                expanded = ast.BoolOp(op=ast.Or(), values=[
                    ast.BoolOp(op=ast.And(), values=[ife.test, cmp_with(ife.body)]),
                    ast.BoolOp(op=ast.And(), values=[ast.UnaryOp(op=ast.Not(), operand=ife.test), cmp_with(ife.orelse)])])
                return atoms_of(expanded, truth, c)
        # names of literal constants (module-level _KIND = "random") compare like the literal
        def lit(e):
            if isinstance(e, ast.Name) and isinstance(c.single.get(e.id), ast.Constant) and e.id not in c.loopvars:
                return c.single[e.id]
            return e
        if isinstance(test.left, ast.Name) or any(isinstance(x, ast.Name) for x in test.comparators):
            test = ast.Compare(left=lit(test.left), ops=test.ops, comparators=[lit(x) for x in test.comparators])
        folded = _fold_constant_compare(test)
        if folded is not None:
            return [frozenset({f"const({folded == truth})"})] if (folded == truth) else []
    # a conditional expression anywhere inside the test (directly, or through a local that is defined by one): two cases
    split = _split_conditional(test, c)
    if split is not None:
        # (cond and T[first arm]) or (not cond and T[second arm]), for T and for not-T alike: the two cases stay disjoint
        cond, if_true, if_false = split
        out = []
        for cc in atoms_of(cond, True, c):
            for tt in atoms_of(if_true, truth, c):
                if _consistent(cc | tt):
                    out.append(cc | tt)
        for cc in atoms_of(cond, False, c):
            for tt in atoms_of(if_false, truth, c):
                if _consistent(cc | tt):
                    out.append(cc | tt)
        return out[:64]
    # x in (A, B)  ~  x == A or x == B ;  x not in (A, B)  ~  x != A and x != B      (short literal collections)
    coll = test.comparators[0] if isinstance(test, ast.Compare) and len(test.ops) == 1 else None
    if isinstance(coll, ast.Name) and coll.id in c.single and isinstance(c.single[coll.id], (ast.Tuple, ast.List, ast.Set)) and coll.id not in c.loopvars:
        coll = c.single[coll.id]          # a named collection (supported = (a, b, c))
    if isinstance(test, ast.Compare) and len(test.ops) == 1 and isinstance(test.ops[0], (ast.In, ast.NotIn)) \
            and isinstance(coll, (ast.Tuple, ast.List, ast.Set)) and 1 <= len(coll.elts) <= 5 \
            and not any(isinstance(x, ast.Starred) for x in coll.elts):
        eqs = [ast.Compare(left=test.left, ops=[ast.Eq()], comparators=[x]) for x in coll.elts]
        pos = ast.BoolOp(op=ast.Or(), values=eqs) if len(eqs) > 1 else eqs[0]
        return atoms_of(pos, truth == isinstance(test.ops[0], ast.In), c)
    # np.all(A == B)  ~  not np.any(A != B)   (exact complement, also with NaN); one polarity for both
    dual = _all_as_any(test, c)
    if dual is not None:
        return atoms_of(dual, not truth, c)
    lit = _lit(test, truth, c)
    # not isinstance(x, (A, B))  ~  not isinstance(x, A) and not isinstance(x, B)
    m = re.fullmatch(r"!isinstance\((.*), ([A-Za-z_0-9|]+)\)", lit)
    if m and "|" in m.group(2):
        return [frozenset(f"!isinstance({m.group(1)}, {t})" for t in m.group(2).split("|"))]
    # counts are non-negative integers:  1 < n  ~  n != 0 and n != 1 ;  not (1 < n)  ~  n == 0 or n == 1   (likewise n < 2)
    m = re.fullmatch(r"(!?)lt\(1, (.*)\)", lit)
    if m and _nonneg(m.group(2)):
        t = m.group(2)
        return [frozenset({f"!eq(0, {t})", f"!eq(1, {t})"})] if not m.group(1) else [frozenset({f"eq(0, {t})"}), frozenset({f"eq(1, {t})"})]
    m = re.fullmatch(r"(!?)lt\((.*), 2\)", lit)
    if m and _nonneg(m.group(2)):
        t = m.group(2)
        return [frozenset({f"eq(0, {t})"}), frozenset({f"eq(1, {t})"})] if not m.group(1) else [frozenset({f"!eq(0, {t})", f"!eq(1, {t})"})]
    return [frozenset({lit})]


def _split_conditional(test: ast.expr, c: "Canon"):
    """(condition, test with the conditional replaced by its first arm, ... by its second arm) for the first conditional expression
    inside `test`, directly or inside the definition of a singly-assigned local it reads (lambdas / comprehensions excluded);
    None when there is none."""
    if isinstance(test, ast.IfExp):
        return None      # a conditional AS the test is handled by its truthiness

    def has_cond(e, depth=0, seen=()):
        for n in ast.walk(e):
            if isinstance(n, ast.IfExp):
                return True
            if depth < 3 and isinstance(n, ast.Name) and isinstance(n.ctx, ast.Load) and n.id not in seen:
                d = c.definition(n.id)
                if d is not None and has_cond(d, depth + 1, seen + (n.id,)):
                    return True
        return False

    if not has_cond(test):
        return None

    class Expand(ast.NodeTransformer):
        def __init__(self, depth=0, seen=()):
            self.depth, self.seen = depth, seen

        def visit_Name(self, n):
            if self.depth < 3 and isinstance(n.ctx, ast.Load) and n.id not in self.seen:
                d = c.definition(n.id)
                if d is not None and has_cond(d, self.depth + 1, self.seen + (n.id,)):
                    return Expand(self.depth + 1, self.seen + (n.id,)).visit(copy.deepcopy(d))
            return n

        def visit_Lambda(self, n):
            return n

        visit_ListComp = visit_GeneratorExp = visit_SetComp = visit_DictComp = visit_Lambda

    work = Expand().visit(copy.deepcopy(test))
    found = []

    def find(n):
        if found or isinstance(n, (ast.Lambda, ast.ListComp, ast.GeneratorExp, ast.SetComp, ast.DictComp)):
            return
        if isinstance(n, ast.IfExp):
            found.append(n)
            return
        for ch in ast.iter_child_nodes(n):
            find(ch)
    if isinstance(work, ast.IfExp):
        return None
    find(work)
    if not found:
        return None
    node = found[0]

    def replaced(arm):
        class R(ast.NodeTransformer):
            def visit(self, n):
                if n is node:
                    return copy.deepcopy(arm)
                return self.generic_visit(n)
        # `work` is private to this call; replace on a structural copy made by the transformer itself
        saved = copy.deepcopy(arm)

        def rebuild(n):
            if n is node:
                return copy.deepcopy(saved)
            if isinstance(n, ast.AST):
                kw = {}
                for fld, val in ast.iter_fields(n):
                    if isinstance(val, list):
                        kw[fld] = [rebuild(x) for x in val]
                    else:
                        kw[fld] = rebuild(val)
                new = type(n)(**kw)
                return ast.copy_location(new, n) if hasattr(n, "lineno") else new
            return n
        return rebuild(work)
    return node.test, replaced(node.body), replaced(node.orelse)


def _all_as_any(test: ast.expr, c: "Canon") -> Optional[ast.expr]:
    """np.all(A == B) / (A == B).all() / np.array_equal-free forms  ->  np.any(A != B)  (to be read with the opposite truth value)."""
    t = test
    if isinstance(t, ast.Name) and t.id in c.single and isinstance(c.single[t.id], ast.Call) and _depth_ok(c, t.id):
        t = c.single[t.id]
    if not isinstance(t, ast.Call) or t.keywords:
        return None
    inner = None
    name = dotted(t.func) or ""
    if name in ("np.all", "numpy.all") and len(t.args) == 1:
        inner = t.args[0]
    elif isinstance(t.func, ast.Attribute) and t.func.attr == "all" and not t.args:
        inner = t.func.value
    if name in ("np.array_equal", "numpy.array_equal") and len(t.args) == 2:
        # same shape and all entries equal: as a guard it rejects at least whenever some entry differs
        inner = ast.Compare(left=t.args[0], ops=[ast.Eq()], comparators=[t.args[1]])
    if inner is None:
        return None
    if isinstance(inner, ast.Name) and inner.id in c.single and _depth_ok(c, inner.id):
        inner = c.single[inner.id]
    if isinstance(inner, ast.Compare) and len(inner.ops) == 1 and isinstance(inner.ops[0], (ast.Eq, ast.NotEq)):
        lhs, rhs = inner.left, inner.comparators[0]
        if c.text(lhs) > c.text(rhs):
            lhs, rhs = rhs, lhs          # == / != are symmetric: one operand order
        flipped = ast.Compare(left=lhs, ops=[ast.NotEq() if isinstance(inner.ops[0], ast.Eq) else ast.Eq()], comparators=[rhs])
        return ast.Call(func=ast.Attribute(value=ast.Name(id="np", ctx=ast.Load()), attr="any", ctx=ast.Load()), args=[flipped], keywords=[])
    return None


def _fold_constant_compare(test: ast.Compare) -> Optional[bool]:
    """Comparisons between literals decide themselves: None == 'random' -> False, None in ('a', 'b') -> False."""
    l, op, r = test.left, test.ops[0], test.comparators[0]
    if isinstance(l, ast.Constant) and isinstance(r, ast.Constant):
        try:
            if isinstance(op, ast.Eq):
                return l.value == r.value
            if isinstance(op, ast.NotEq):
                return l.value != r.value
            if isinstance(op, ast.Is):
                return l.value is r.value
            if isinstance(op, ast.IsNot):
                return l.value is not r.value
        except Exception:
            return None
    if isinstance(l, ast.Constant) and isinstance(r, (ast.Tuple, ast.List, ast.Set)) and all(isinstance(x, ast.Constant) for x in r.elts):
        vals = [x.value for x in r.elts]
        if isinstance(op, ast.In):
            return l.value in vals
        if isinstance(op, ast.NotIn):
            return l.value not in vals
    return None


def _depth_ok(c: Canon, name: str, seen=None) -> bool:
    # guard against cyclic single definitions
    seen = seen or set()
    if name in seen:
        return False
    seen.add(name)
    for n in ast.walk(c.single[name]):
        if isinstance(n, ast.Name) and n.id in c.single and not _depth_ok(c, n.id, seen):
            return False
    return True


def _lit(test: ast.expr, truth: bool, c: Canon) -> Atom:
    if isinstance(test, ast.Compare) and len(test.ops) == 1:
        a, op, b = c.text(test.left), test.ops[0], c.text(test.comparators[0])
        t = type(op)
        if t in (ast.Eq, ast.NotEq):
            x, y = sorted((a, b))
            pos = (t is ast.Eq) == truth
            return f"{'' if pos else '!'}eq({x}, {y})"
        if t in (ast.Lt, ast.LtE, ast.Gt, ast.GtE):
            # one relation only: a <= b is !(b < a); polarity in the sign, so that a test and its negation are syntactic opposites
            if t in (ast.Gt, ast.GtE):
                a, b = b, a
                t = ast.Lt if t is ast.Gt else ast.LtE
            if t is ast.LtE:
                a, b = b, a
                truth = not truth
            # sizes are never negative:  0 < n  ~  n != 0,   n < 1  ~  n == 0   (one spelling for both)
            if a == "0" and _nonneg(b):
                return f"{'!' if truth else ''}eq(0, {b})"
            if b == "1" and _nonneg(a):
                return f"{'' if truth else '!'}eq(0, {a})"
            return f"{'' if truth else '!'}lt({a}, {b})"
        if t in (ast.In, ast.NotIn):
            pos = (t is ast.In) == truth
            return f"{'' if pos else '!'}in({a}, {b})"
        if t in (ast.Is, ast.IsNot):
            pos = (t is ast.Is) == truth
            return f"{'' if pos else '!'}is({a}, {b})"
    if isinstance(test, ast.Call) and isinstance(test.func, ast.Name) and test.func.id == "isinstance" and len(test.args) == 2:
        ty = test.args[1]
        if isinstance(ty, ast.Name) and isinstance(c.definition(ty.id), ast.Tuple):
            ty = c.definition(ty.id)          # a named tuple of accepted classes
        names = sorted((dotted(x) or ast.unparse(x)).split(".")[-1] for x in (ty.elts if isinstance(ty, ast.Tuple) else [ty]))
        return f"{'' if truth else '!'}isinstance({c.text(test.args[0])}, {'|'.join(names)})"
    if isinstance(test, ast.Constant):
        return f"const({bool(test.value) == truth})"
    txt = c.text(test)
    if _nonneg(txt):
        return f"{'!' if truth else ''}eq(0, {txt})"         # `if x.size:`  ~  `if x.size != 0:`
    return f"{'' if truth else '!'}truthy({txt})"


def _boolean_valued(e: ast.AST) -> bool:
    """An element-wise truth value: comparisons and their combinations with | & ~ / np.logical_* / np.isin / np.isnan ..."""
    if isinstance(e, ast.Compare):
        return True
    if isinstance(e, ast.BinOp) and isinstance(e.op, (ast.BitOr, ast.BitAnd, ast.BitXor)):
        return _boolean_valued(e.left) and _boolean_valued(e.right)
    if isinstance(e, ast.UnaryOp) and isinstance(e.op, (ast.Invert, ast.Not)):
        return _boolean_valued(e.operand)
    if isinstance(e, ast.Call):
        return (dotted(e.func) or "").split(".")[-1] in ("logical_and", "logical_or", "logical_not", "logical_xor", "isin", "isnan", "isinf",
                                                         "isfinite", "equal", "not_equal", "less", "greater", "less_equal", "greater_equal")
    return False


def _nonneg(t: str) -> bool:
    """The text denotes a count (never negative): len(..), X.size, X.ndim(s), X.nnz, X.ncomponents, X.shape[k]."""
    if t.startswith("len(") and t.endswith(")"):
        depth = 0
        for i, ch in enumerate(t):
            depth += ch == "("
            depth -= ch == ")"
            if depth == 0 and i >= 3:
                return i == len(t) - 1
    if re.search(r"\.(size|ndim|ndims|nnz|ncomponents)$", t):
        return True
    return bool(re.search(r"\.shape\[\d+\]$", t))


@dataclass
class Raise:
    function: str
    conds: FrozenSet[Atom]  # raises when all of these hold
    line: int
    exc: str
    order: int  # position in traversal
    exits_before: List[str] = field(default_factory=list)
    in_loop: bool = False
    msg: str = ""

    def key(self) -> str:
        return " & ".join(sorted(self.conds)) or "unconditional"


@dataclass
class Exit:
    conds: FrozenSet[Atom]
    expr: str
    line: int
    order: int

    def key(self) -> str:
        return "exit when " + (" & ".join(sorted(self.conds)) or "always")


@dataclass
class CallSite:
    conds: FrozenSet[Atom]
    call: ast.Call
    order: int
    line: int


class GuardScan:
    """Walks one function; collects raises, exits and calls with their path conditions."""

    def __init__(self, fi: FuncInfo, bindings: Optional[Dict[str, ast.expr]] = None):
        self.fi = fi
        self.c = Canon(fi.node, bindings)
        self.raises: List[Raise] = []
        self.exits: List[Exit] = []
        self.calls: List[CallSite] = []
        self.stores: List[Tuple[int, FrozenSet[Atom], ast.stmt, bool]] = []  # stores to the receiver
        self._n = 0
        self._walk(fi.node.body, [frozenset()], False)
        for r in self.raises:
            r.exits_before = sorted({e.key() for e in self.exits if e.order < r.order and _compatible(e.conds, r.conds)})

    def _tick(self) -> int:
        self._n += 1
        return self._n

    def _walk(self, body: List[ast.stmt], pcs: List[FrozenSet[Atom]], in_loop: bool) -> List[FrozenSet[Atom]]:
        """pcs: alternative path conditions reaching this block. Returns the pcs that fall through."""
        for st in body:
            if not pcs:
                break
            if isinstance(st, (ast.FunctionDef, ast.AsyncFunctionDef, ast.ClassDef)):
                continue
            if isinstance(st, ast.If):
                tdnf = atoms_of(st.test, True, self.c)
                fdnf = atoms_of(st.test, False, self.c)
                self._calls_in(st.test, pcs)
                tp = _cross(pcs, tdnf)
                fp = _cross(pcs, fdnf)
                out_t = self._walk(st.body, tp, in_loop)
                out_f = self._walk(st.orelse, fp, in_loop)
                # only the NESTING conditions are kept: after the statement the incoming conditions apply again
                # (an early exit in a branch is recorded as an Exit and shows up in exits_before)
                if not out_t and not out_f:
                    pcs = []
                elif in_loop and not st.orelse and st.body and isinstance(st.body[-1], ast.Continue) \
                        and not any(isinstance(x, (ast.Return, ast.Raise)) for b in st.body for x in ast.walk(b)):
                    # `if C: continue` - the rest of the loop body runs under not-C, exactly like `if not C: <rest>`
                    pcs = fp
                continue
            if isinstance(st, ast.Assert):
                if isinstance(st.test, ast.Constant) and st.test.value is False:
                    for pc in pcs:
                        self._raise(pc, st, "AssertionError", in_loop, st.msg)
                    pcs = []
                    continue
                self._calls_in(st.test, pcs)
                for alt in atoms_of(st.test, False, self.c):
                    for pc in pcs:
                        if _consistent(pc | alt):
                            self._raise(pc | alt, st, "AssertionError", in_loop, st.msg)
                continue
            if isinstance(st, ast.Raise):
                exc = ""
                if st.exc is not None:
                    exc = (dotted(st.exc.func) if isinstance(st.exc, ast.Call) else dotted(st.exc)) or ""
                for pc in pcs:
                    self._raise(pc, st, exc, in_loop, st.exc.args[0] if isinstance(st.exc, ast.Call) and st.exc.args else None)
                pcs = []
                continue
            if isinstance(st, ast.Return):
                if st.value is not None:
                    self._calls_in(st.value, pcs)
                for pc in pcs:
                    self.exits.append(Exit(simplify(pc), self.c.text(st.value) if st.value is not None else "None", st.lineno, self._tick()))
                pcs = []
                continue
            if isinstance(st, (ast.For, ast.While)):
                self._calls_in(st.iter if isinstance(st, ast.For) else st.test, pcs)
                body_pcs = list(pcs)
                if isinstance(st, ast.For):
                    # for x in [v for v in R if c(v)]  ~  for x in R: if c(x): ...      (also through a local that names the list)
                    it = st.iter
                    if isinstance(it, ast.Name) and it.id in self.c.single and isinstance(self.c.single[it.id], (ast.ListComp, ast.GeneratorExp)) \
                            and it.id not in self.c.loopvars:
                        it = self.c.single[it.id]
                    elif isinstance(it, ast.Name) and it.id in self.c.multi_first and len(self.c.multi_defs.get(it.id, [])) == 1 \
                            and isinstance(self.c.multi_first[it.id], (ast.ListComp, ast.GeneratorExp)):
                        it = self.c.multi_first[it.id]
                    if isinstance(it, (ast.ListComp, ast.GeneratorExp)) and len(it.generators) == 1 and isinstance(it.generators[0].target, ast.Name) \
                            and isinstance(it.elt, ast.Name) and it.elt.id == it.generators[0].target.id and isinstance(st.target, ast.Name):
                        g = it.generators[0]
                        self.c.push_loop(st.target, g.iter)
                        for cond in g.ifs:
                            cc = copy.deepcopy(cond)
                            for x in ast.walk(cc):
                                if isinstance(x, ast.Name) and x.id == g.target.id:
                                    x.id = st.target.id
                            body_pcs = _cross(body_pcs, atoms_of(cc, True, self.c))
                    else:
                        self.c.push_loop(st.target, st.iter)
                self._walk(st.body, body_pcs, True)
                if isinstance(st, ast.For):
                    self.c.pop_loop()
                self._walk(st.orelse, list(pcs), in_loop)
                continue
            if isinstance(st, ast.With):
                for it in st.items:
                    self._calls_in(it.context_expr, pcs)
                pcs = self._walk(st.body, pcs, in_loop)
                continue
            if isinstance(st, ast.Try):
                swallow = any((h.type is None or (dotted(h.type) or "") in ("Exception", "BaseException", "AssertionError", "ValueError"))
                              and not any(isinstance(x, ast.Raise) for x in ast.walk(h)) for h in st.handlers)
                n_before = len(self.raises)
                p1 = self._walk(st.body, list(pcs), in_loop)
                if swallow:
                    del self.raises[n_before:]  # raised and swallowed: not a rejection
                for h in st.handlers:
                    self._walk(h.body, list(pcs), in_loop)
                p1 = self._walk(st.orelse, p1, in_loop)
                pcs = self._walk(st.finalbody, p1 or list(pcs), in_loop)
                continue
            self._calls_in(st, pcs)
            self._store(st, pcs, in_loop)
        return pcs

    def _raise(self, pc, st, exc, in_loop, msg):
        m = ""
        if msg is not None:
            try:
                m = ast.unparse(msg)[:80]
            except Exception:
                m = ""
        self.raises.append(Raise(self.fi.short, simplify(pc), st.lineno, exc, self._tick(), [], in_loop, m))

    def _calls_in(self, node: ast.AST, pcs) -> None:
        for n in walk_no_nested(node) if not isinstance(node, ast.expr) else ast.walk(node):
            if isinstance(n, ast.Call):
                for pc in pcs[:4]:
                    self.calls.append(CallSite(pc, n, self._tick(), n.lineno))

    def _store(self, st: ast.stmt, pcs, in_loop) -> None:
        if not self.fi.cls or not self.fi.params():
            return
        me = self.fi.params()[0]
        targets = []
        if isinstance(st, ast.Assign):
            targets = st.targets
        elif isinstance(st, (ast.AugAssign, ast.AnnAssign)):
            targets = [st.target]
        hit = False
        for t in targets:
            for e in (t.elts if isinstance(t, ast.Tuple) else [t]):
                base = e
                while isinstance(base, (ast.Subscript, ast.Attribute)):
                    if isinstance(base, ast.Attribute) and isinstance(base.value, ast.Name) and base.value.id == me:
                        hit = True
                    base = base.value
        if isinstance(st, ast.Expr) and isinstance(st.value, ast.Call) and isinstance(st.value.func, ast.Attribute):
            f = st.value.func
            if isinstance(f.value, ast.Name) and f.value.id == me and f.attr in (
                    "normalize", "arrange", "redistribute", "fixsigns", "update", "_set_subscripts", "_set_subtensor", "_set_linear"):
                hit = True
        if hit:
            for pc in pcs[:4]:
                self.stores.append((self._tick(), pc, st, in_loop))


def simplify(conds: FrozenSet[Atom]) -> FrozenSet[Atom]:
    """Drop `!eq(K, s)` / `!isinstance(s, A)` when a positive atom on the same subject is present (elif chains
    over mutually exclusive cases): re-ordering such branches must not change a guard's key."""
    pos_eq, pos_inst = {}, set()
    for a in conds:
        if a.startswith("eq(") and ", " in a:
            x, y = _split2(a[3:-1])
            pos_eq.setdefault(y, set()).add(x)
            pos_eq.setdefault(x, set()).add(y)
        elif a.startswith("isinstance("):
            pos_inst.add(_split2(a[len("isinstance("):-1])[0])
    out = set()
    for a in conds:
        if a.startswith("!eq("):
            x, y = _split2(a[4:-1])
            # only for a SUBJECT compared with two different constants (s == 1 excludes s == 2); a shared constant says nothing
            # (len(shape) == 0 and data.size != 0 are independent)
            if (_constant_like(x) and not _constant_like(y) and y in pos_eq and any(_constant_like(k) and k != x for k in pos_eq[y])) or \
                    (_constant_like(y) and not _constant_like(x) and x in pos_eq and any(_constant_like(k) and k != y for k in pos_eq[x])):
                continue
        if a.startswith("!isinstance("):
            subj = _split2(a[len("!isinstance("):-1])[0]
            if subj in pos_inst:
                continue            # (the positive atom on the same subject is narrowed below)
        if a == "const(True)":
            continue
        out.add(a)
    # isinstance(s, A|B|C) together with not isinstance(s, A): the positive atom keeps the types that are left
    excluded: Dict[str, Set[str]] = {}
    for a in conds:
        if a.startswith("!isinstance("):
            subj, ty = _split2(a[len("!isinstance("):-1])
            excluded.setdefault(subj, set()).update(ty.split("|"))
    if excluded:
        narrowed = set()
        for a in out:
            if a.startswith("isinstance("):
                subj, ty = _split2(a[len("isinstance("):-1])
                left = [t for t in ty.split("|") if t not in excluded.get(subj, ())]
                if left and len(left) < len(ty.split("|")):
                    a = f"isinstance({subj}, {'|'.join(left)})"
            narrowed.add(a)
        out = narrowed
    return frozenset(out)


def _constant_like(t: str) -> bool:
    """A literal or an enumeration member / module constant (dotted name whose last component is upper case)."""
    if re.fullmatch(r"-?\d+(\.\d*)?(e-?\d+)?|None|True|False|'[^']*'|\"[^\"]*\"", t):
        return True
    return bool(re.fullmatch(r"[A-Za-z_][\w.]*", t)) and t.split(".")[-1].isupper()


def _split2(t: str) -> Tuple[str, str]:
    """Split 'a, b' at the top-level comma."""
    depth = 0
    for i, ch in enumerate(t):
        if ch in "([{":
            depth += 1
        elif ch in ")]}":
            depth -= 1
        elif ch == "," and depth == 0 and t[i + 1:i + 2] == " ":
            return t[:i], t[i + 2:]
    return t, ""


PYTTB_TYPES = {"tensor", "sptensor", "ktensor", "ttensor", "tenmat", "sptenmat", "sumtensor"}
PLAIN_TYPES = {"int", "float", "bool", "str", "list", "tuple", "ndarray", "generic", "integer", "floating", "complex", "slice", "dict", "bytes"}


def _split_args(inner: str) -> List[str]:
    out, depth, cur = [], 0, ""
    for ch in inner:
        if ch in "([{":
            depth += 1
        elif ch in ")]}":
            depth -= 1
        if ch == "," and depth == 0:
            out.append(cur.strip())
            cur = ""
        else:
            cur += ch
    if cur.strip():
        out.append(cur.strip())
    return out


def _atom_parts(a: str):
    neg = a.startswith("!")
    body = a[1:] if neg else a
    i = body.find("(")
    if i < 0 or not body.endswith(")"):
        return neg, body, []
    return neg, body[:i], _split_args(body[i + 1:-1])


def contradicts(a: Atom, b: Atom) -> bool:
    """Two atoms that cannot hold together (beyond a literal and its negation)."""
    na, fa, xa = _atom_parts(a)
    nb, fb, xb = _atom_parts(b)
    if fa == fb and xa == xb:
        return na != nb
    # a < b  vs  b < a ; a < b vs a == b
    if fa == "lt" and fb == "lt" and not na and not nb and len(xa) == 2 and xa == xb[::-1]:
        return True
    if {fa, fb} == {"lt", "eq"} and not na and not nb and len(xa) == 2 and sorted(xa) == sorted(xb):
        return True
    # isinstance(x, pyttb classes) vs isinstance(x, plain types) ; x is None vs isinstance(x, T)
    if fa == "isinstance" and fb == "isinstance" and not na and not nb and xa and xb and xa[0] == xb[0]:
        ta, tb = set(xa[1].split("|")), set(xb[1].split("|"))
        if not (ta & tb) and ((ta <= PYTTB_TYPES and tb <= PLAIN_TYPES) or (tb <= PYTTB_TYPES and ta <= PLAIN_TYPES) or (ta <= PYTTB_TYPES and tb <= PYTTB_TYPES)):
            return True
    for (n1, f1, x1), (n2, f2, x2) in (((na, fa, xa), (nb, fb, xb)), ((nb, fb, xb), (na, fa, xa))):
        if f1 == "is" and not n1 and len(x1) == 2 and "None" in x1 and f2 == "isinstance" and not n2 and x2 and x2[0] in x1:
            return True
    return False


# concrete types no two of which have a common instance (bool < int, np.float64 < float and the numpy scalar hierarchy are NOT here)
DISJOINT_TYPES = {"int", "str", "list", "tuple", "dict", "set", "ndarray", "slice", "tensor", "sptensor", "ktensor", "ttensor", "tenmat",
                  "sptenmat", "sumtensor", "StratifiedCount", "spmatrix", "coo_matrix"}


def implies(a: Atom, b: Atom) -> bool:
    """Atom a implies atom b: equal, or isinstance over a subset of the types (and the contrapositive)."""
    if a == b:
        return True
    na, fa, xa = _atom_parts(a)
    nb, fb, xb = _atom_parts(b)
    # s == K1 implies s != K2 for two different constants
    if fa == fb == "eq" and not na and nb and len(xa) == 2 and len(xb) == 2:
        for s1, k1 in ((xa[0], xa[1]), (xa[1], xa[0])):
            for s2, k2 in ((xb[0], xb[1]), (xb[1], xb[0])):
                if s1 == s2 and not _constant_like(s1) and _constant_like(k1) and _constant_like(k2) and k1 != k2:
                    return True
    # isinstance(s, A|B) implies not isinstance(s, C) when C is known to share no instances with A and B
    if fa == fb == "isinstance" and not na and nb and len(xa) == 2 and len(xb) == 2 and xa[0] == xb[0]:
        ta, tb = set(xa[1].split("|")), set(xb[1].split("|"))
        if ta <= DISJOINT_TYPES and tb <= DISJOINT_TYPES and not (ta & tb):
            return True
    if fa == fb == "isinstance" and na == nb and len(xa) == 2 and len(xb) == 2 and xa[0] == xb[0]:
        ta, tb = set(xa[1].split("|")), set(xb[1].split("|"))
        return ta <= tb if not na else tb <= ta
    return False


def implied_by(small: FrozenSet[Atom], big: FrozenSet[Atom]) -> bool:
    """Every atom of `small` follows from some atom of `big` (big describes a sub-case of small)."""
    return all(any(implies(b, a) for b in big) for a in small)


def _consistent(s: FrozenSet[Atom]) -> bool:
    items = list(s)
    for a in items:
        if a.startswith("!") and a[1:] in s:
            return False
        if a == "const(False)":
            return False
    for i, a in enumerate(items):
        for b in items[i + 1:]:
            if contradicts(a, b):
                return False
    # forall(P(each(X))) together with atoms that deny P for an element of X
    for a in items:
        if a.startswith("forall(") and a.endswith(")"):
            rest = frozenset(x for x in s if x != a)
            if rest and not _consistent(rest | {a[len("forall("):-1]}):
                return False
    # isinstance(x, A|B) with every one of its types excluded
    for a in items:
        if a.startswith("isinstance("):
            subj, types = _split2(a[len("isinstance("):-1])
            if all(f"!isinstance({subj}, {t})" in s for t in types.split("|")):
                return False
    return True


def _compatible(a: FrozenSet[Atom], b: FrozenSet[Atom]) -> bool:
    return _consistent(a | b)


def _cross(pcs, dnf):
    out = []
    for pc in pcs:
        for alt in dnf:
            s = pc | alt
            if _consistent(s):
                out.append(s)
    return _dedupe(out)[:32]


def _dedupe(pcs):
    seen, out = set(), []
    for p in pcs:
        if p not in seen:
            seen.add(p)
            out.append(p)
    return out


# ---------------------------------------------------------------------- acceptance predicates
def _always_leaves(body: List[ast.stmt]) -> bool:
    if not body:
        return False
    last = body[-1]
    if isinstance(last, (ast.Return, ast.Raise)):
        return True
    if isinstance(last, ast.If):
        return _always_leaves(last.body) and _always_leaves(last.orelse)
    return False


def accept_alternatives(fi: FuncInfo) -> Optional[List[FrozenSet[Atom]]]:
    """For a bool-returning validator: the alternative condition sets under which it answers True."""
    c = Canon(fi.node)
    alts: List[FrozenSet[Atom]] = []
    flag_true: Dict[str, List[FrozenSet[Atom]]] = {}
    returned_flags: Set[str] = set()
    ok = [True]

    def walk(body, pcs):
        for st in body:
            if isinstance(st, ast.If):
                walk(st.body, _cross(pcs, atoms_of(st.test, True, c)))
                walk(st.orelse, _cross(pcs, atoms_of(st.test, False, c)))
                # a branch that always leaves: what follows runs under the other outcome of the test
                if _always_leaves(st.body) and not _always_leaves(st.orelse):
                    pcs = _cross(pcs, atoms_of(st.test, False, c))
                elif _always_leaves(st.orelse) and not _always_leaves(st.body):
                    pcs = _cross(pcs, atoms_of(st.test, True, c))
            elif isinstance(st, ast.Assign) and len(st.targets) == 1 and isinstance(st.targets[0], ast.Name) \
                    and isinstance(st.value, ast.Constant) and isinstance(st.value.value, bool):
                if st.value.value:
                    flag_true.setdefault(st.targets[0].id, []).extend(pcs)
                else:
                    flag_true.setdefault(st.targets[0].id, [])
            elif isinstance(st, ast.Return) and st.value is not None:
                v = st.value
                if isinstance(v, ast.Call) and isinstance(v.func, ast.Name) and v.func.id == "bool" and v.args:
                    v = v.args[0]
                if isinstance(v, ast.Name) and v.id in flag_true:
                    returned_flags.add(v.id)
                elif isinstance(v, ast.Constant) and isinstance(v.value, bool):
                    if v.value:
                        alts.extend(pcs)
                elif isinstance(v, (ast.Compare, ast.BoolOp, ast.UnaryOp, ast.Call, ast.Name)):
                    alts.extend(_cross(pcs, atoms_of(v, True, c)))
                else:
                    ok[0] = False
            elif isinstance(st, (ast.For, ast.While, ast.With, ast.Try)):
                inner = st.body
                walk(inner, pcs)

    walk(fi.node.body, [frozenset()])
    for f in returned_flags:
        alts.extend(flag_true[f])
    if not ok[0] or not alts:
        return None
    return _dedupe(alts)
