"""E4: index provenance and row alignment (IX-dom / IX-seq / IX-pair).

Every array value carries a row-identity class `rows` (arrays with the same class are aligned
row by row); an integer index array additionally carries `dom`, the class whose rows its VALUES
address.  Facts come from the trusted contracts of the row helpers (DESIGN §1, valid for
duplicate-free row lists):
  tt_intersect_rows(A, B) -> values index A, positions follow B's order
  tt_ismember_rows(S, T)  -> (mask aligned with S, index aligned with S whose values index T)
  tt_setdiff_rows(A, B)   -> values index A (own order)
Checked:
  IX-dom   X[i]           needs dom(i) == rows(X)          (mask: rows(mask) == rows(X))
  IX-seq   a <op> b       needs rows(a) == rows(b)         (element-wise arithmetic / comparison / assignment)
  IX-pair  sptensor(subs, vals, ..) needs rows(subs) == rows(vals)
A violation is reported only when BOTH classes are known and differ; at control-flow joins a fact
survives only if it is the same on every incoming path.
"""
from __future__ import annotations

import ast
import itertools
from dataclasses import dataclass
from typing import Dict, List, Optional, Tuple

from .model import Program, FuncInfo, dotted, kwarg, const, NOCONST

_ids = itertools.count()


@dataclass(frozen=True)
class IV:
    kind: str = "unk"  # arr | idx | mask | obj | scalar | tuple | unk
    rows: Optional[str] = None
    dom: Optional[str] = None
    elts: Tuple = ()
    obj: Optional[str] = None  # access path of a tensor object
    shp: Optional[str] = None  # 'vec' (n,) | 'col' (n,1) | 'mat' (n,d) | None
    cls: Optional[str] = None  # class of a tensor object when known
    ms: bool = False  # "maybe scalar": tensor[subs] collapses to a Python float when exactly one element is selected


UNK = IV()
SCALAR = IV("scalar")
SEP = " || "


def alts(r: Optional[str]) -> set:
    return set(r.split(SEP)) if r else set()


def rel(a: Optional[str], b: Optional[str]) -> Optional[bool]:
    """True: same class on every reaching definition; False: different on every one; None: undecided."""
    if not a or not b:
        return None
    A, B = alts(a), alts(b)
    if len(A) == 1 and A == B:
        return True
    if not (A & B):
        return False
    # one side has a single class on every path, the other has a reaching definition of another class:
    # on that definition the two are mismatched whatever the path (no correlation is possible)
    if (len(A) == 1 and not B <= A) or (len(B) == 1 and not A <= B):
        return False
    return None


def merge(a: Optional[str], b: Optional[str]) -> Optional[str]:
    if not a or not b:
        return None
    return SEP.join(sorted(alts(a) | alts(b)))


@dataclass
class Finding:
    rule: str
    desc: str
    detail: str
    node: ast.AST
    ok: bool


class IxWalk:
    def __init__(self, prog: Program, fi: FuncInfo):
        self.prog = prog
        self.fi = fi
        self.findings: List[Finding] = []
        self.unique_inputs: List = []
        self.undecided = 0
        self.env: Dict[str, IV] = {}
        params = fi.params()
        for i, p in enumerate(params):
            if i == 0 and fi.cls:
                self.env[p] = IV("obj", obj=p, cls=fi.cls)
            else:
                ann = fi.annotation(p)
                t = ast.unparse(ann) if ann is not None else ""
                if "sptensor" in t or "tensor" in t or p in ("other", "B", "W"):
                    self.env[p] = IV("obj", obj=p)
                elif t in ("int", "float", "bool", "str") or t.startswith(("Optional[int", "Optional[float")):
                    self.env[p] = SCALAR
                elif "ndarray" in t:
                    self.env[p] = IV("arr", rows="args" if p in ("subs", "vals") else f"{p}")
                else:
                    self.env[p] = UNK
        self.count_src: Dict[str, ast.expr] = {}
        for n in ast.walk(fi.node):
            if isinstance(n, ast.Assign) and len(n.targets) == 1 and isinstance(n.targets[0], ast.Name) and isinstance(n.value, ast.Subscript) \
                    and isinstance(n.value.value, ast.Attribute) and n.value.value.attr == "shape" and const(n.value.slice) == 0:
                self.count_src[n.targets[0].id] = n.value
        self.mode = "join"
        self.n_paths = 0
        init_env = dict(self.env)
        try:
            from .paths import enumerate_paths, PathLimit
            paths = enumerate_paths(fi.node.body, limit=3000)
            self.mode = "paths"
        except Exception:
            paths = None
        if paths is None:
            self.block(fi.node.body, self.env)
        else:
            self._run_paths(paths, init_env)

    def _run_paths(self, paths, init_env):
        from . import guards as G
        canon = G.Canon(self.fi.node)
        rebound = set()
        for n in ast.walk(self.fi.node):
            if isinstance(n, (ast.Assign, ast.AugAssign, ast.AnnAssign, ast.For)):
                tg = n.targets if isinstance(n, ast.Assign) else [n.target]
                for t in tg:
                    for x in ast.walk(t):
                        if isinstance(x, ast.Name):
                            rebound.add(x.id)
        seen: Dict[Tuple, Finding] = {}
        for items, end in paths:
            known = set()
            feasible = True
            for kind, st in items:
                if kind in ("if-true", "if-false"):
                    names = {x.id for x in ast.walk(st.test) if isinstance(x, ast.Name)}
                    if names & rebound:
                        continue
                    dnf = G.atoms_of(st.test, kind == "if-true", canon)
                    if len(dnf) == 1:
                        if not G._consistent(frozenset(known | dnf[0])):
                            feasible = False
                            break
                        known |= dnf[0]
                    elif dnf and all(not G._consistent(frozenset(known | a)) for a in dnf):
                        feasible = False
                        break
            if not feasible:
                continue
            self.n_paths += 1
            env = dict(init_env)
            self.findings = []
            for kind, st in items:
                if kind in ("if-true", "if-false"):
                    self.ev(st.test, env)
                    self.narrow(st.test, kind == "if-true", env)
                elif kind == "loop-enter" and isinstance(st, ast.For):
                    self.ev(st.iter, env)
                    for n in ast.walk(st.target):
                        if isinstance(n, ast.Name):
                            env[n.id] = UNK
                elif kind in ("stmt", "return"):
                    self.stmt(st, env)
            for f in self.findings:
                k = (f.rule, getattr(f.node, "lineno", 0), getattr(f.node, "col_offset", 0), f.desc)
                if k not in seen or (seen[k].ok and not f.ok):
                    seen[k] = f
        self.findings = list(seen.values())

    # ------------------------------------------------------------ bookkeeping
    def note(self, rule, desc, detail, node, ok):
        if ok is None:
            self.undecided += 1
            return
        self.findings.append(Finding(rule, desc, detail, node, ok))

    def fresh(self, tag: str, node: ast.AST) -> str:
        # stable within one analysis run: keyed by source position and tag
        return f"{tag}@{getattr(node, 'lineno', 0)}:{getattr(node, 'col_offset', 0)}"

    # ------------------------------------------------------------ statements
    def block(self, body, env):
        for st in body:
            self.stmt(st, env)

    def join(self, a: Dict[str, IV], b: Dict[str, IV]) -> Dict[str, IV]:
        out = {}
        for k in set(a) | set(b):
            x, y = a.get(k), b.get(k)
            if x == y and x is not None:
                out[k] = x
            elif x is not None and y is not None and x.kind == y.kind:
                out[k] = IV(x.kind, merge(x.rows, y.rows), merge(x.dom, y.dom), (), x.obj if x.obj == y.obj else None,
                            x.shp if x.shp == y.shp else None)
            else:
                out[k] = UNK
        return out

    def stmt(self, st, env):
        if isinstance(st, ast.Assign):
            v = self.ev(st.value, env)
            for t in st.targets:
                self.assign(t, v, env, st)
        elif isinstance(st, ast.AnnAssign) and st.value is not None:
            self.assign(st.target, self.ev(st.value, env), env, st)
        elif isinstance(st, ast.AugAssign):
            v = self.ev(st.value, env)
            if isinstance(st.target, ast.Name):
                cur = env.get(st.target.id, UNK)
                self.elementwise(cur, v, st, ast.unparse(st)[:80])
            elif isinstance(st.target, ast.Subscript):
                tv = self.ev(st.target, env)
                self.elementwise(tv, v, st, ast.unparse(st)[:80])
        elif isinstance(st, ast.Expr):
            self.ev(st.value, env)
        elif isinstance(st, ast.Return):
            if st.value is not None:
                self.ev(st.value, env)
        elif isinstance(st, ast.If):
            self.ev(st.test, env)
            e1, e2 = dict(env), dict(env)
            self.block(st.body, e1)
            self.block(st.orelse, e2)
            t1 = bool(st.body) and isinstance(st.body[-1], (ast.Return, ast.Raise))
            t2 = bool(st.orelse) and isinstance(st.orelse[-1], (ast.Return, ast.Raise))
            new = e2 if t1 and not t2 else e1 if t2 and not t1 else self.join(e1, e2)
            env.clear(); env.update(new)
        elif isinstance(st, (ast.For, ast.While)):
            e1 = dict(env)
            if isinstance(st, ast.For):
                self.ev(st.iter, e1)
                for n in ast.walk(st.target):
                    if isinstance(n, ast.Name):
                        e1[n.id] = UNK
            self.block(st.body, e1)
            new = self.join(env, e1)
            env.clear(); env.update(new)
        elif isinstance(st, ast.With):
            self.block(st.body, env)
        elif isinstance(st, ast.Try):
            self.block(st.body, env)
            self.block(st.orelse, env)
            self.block(st.finalbody, env)
        elif isinstance(st, ast.Assert):
            self.ev(st.test, env)

    def assign(self, t, v: IV, env, st):
        if isinstance(t, ast.Name):
            env[t.id] = v
        elif isinstance(t, (ast.Tuple, ast.List)):
            if v.kind == "tuple" and len(v.elts) == len(t.elts):
                for a, b in zip(t.elts, v.elts):
                    self.assign(a, b, env, st)
            else:
                for a in t.elts:
                    self.assign(a, UNK, env, st)
        elif isinstance(t, ast.Subscript):
            # A[i] = v : positions of i and rows of v must be aligned; values of i must address A
            base = self.ev(t.value, env)
            # a buffer whose columns are written from a Khatri-Rao / meshgrid enumeration lists a key region in its own order:
            # its rows are a listing of their own (not aligned with any stored entries)
            if isinstance(t.value, ast.Name) and base.kind == "arr" and not base.rows and isinstance(t.slice, ast.Tuple) and t.slice.elts \
                    and isinstance(t.slice.elts[0], ast.Slice) and any(
                        isinstance(c, ast.Call) and (dotted(c.func) or "").split(".")[-1] in ("khatrirao", "meshgrid", "indices", "unravel_index")
                        for c in ast.walk(st.value)):
                env[t.value.id] = IV("arr", rows=self.fresh("enum", st.value), shp=base.shp)
                return
            sel = self.selector(t.slice, env)
            if sel is not None and base.rows:
                self.check_dom(base, sel, t, f"{ast.unparse(t)[:60]} = ...")
                if v.kind in ("arr", "idx", "mask") and v.rows and sel.rows:
                    first = t.slice.elts[0] if isinstance(t.slice, ast.Tuple) and t.slice.elts else t.slice
                    expect = sel.rows if sel.kind == "idx" else f"{base.rows}|{sel.rows}#{self._mask_id(first)}"
                    ok = rel(v.rows, expect)
                    self.note("IX-seq", f"stored values are aligned with the positions they are stored at: {ast.unparse(t)[:50]} = {ast.unparse(st.value)[:50]}",
                              f"positions follow `{sel.rows}`, values follow `{v.rows}`", st, ok)
        elif isinstance(t, ast.Attribute):
            # fields of the object under construction / being updated: subs and vals must stay aligned
            if isinstance(t.value, ast.Name) and self.fi.cls and self.fi.params() and t.value.id == self.fi.params()[0] and t.attr in ("subs", "vals"):
                env[f"<field>{t.attr}"] = v
                oname = "vals" if t.attr == "subs" else "subs"
                other = env.get("<field>" + oname)
                pending = env.get("<pending>")
                # stores come in pairs: the pair is complete when the partner field is the pending one
                complete = pending is not None and pending.obj == oname
                env["<pending>"] = None if complete else IV("scalar", obj=t.attr)
                if env["<pending>"] is None:
                    env.pop("<pending>")
                if complete and other is not None and v.kind in ("arr", "idx", "mask") and other.kind in ("arr", "idx", "mask") and v.rows and other.rows:
                    a, b = (v, other) if t.attr == "subs" else (other, v)
                    self.note("IX-pair", f"the stored subscripts and values are aligned: self.subs / self.vals in {self.fi.name}",
                              f"subscripts follow `{a.rows}`, values follow `{b.rows}`", st, rel(a.rows, b.rows))

    # ------------------------------------------------------------ expressions
    def selector(self, sl: ast.expr, env) -> Optional[IV]:
        first = sl.elts[0] if isinstance(sl, ast.Tuple) and sl.elts else sl
        if isinstance(first, (ast.Slice, ast.Constant)):
            return None
        v = self.ev(first, env)
        if v.kind == "tuple" and v.elts and v.elts[0].kind in ("idx", "mask"):
            v = v.elts[0]  # X[np.nonzero(m)] : the tuple of index arrays selects rows by its first member
        return v if v.kind in ("idx", "mask") else None

    def check_dom(self, base: IV, sel: IV, node, text):
        if sel.kind == "idx" and sel.dom and base.rows:
            ok = rel(sel.dom, base.rows)
            self.note("IX-dom", f"index values address the array they subscript: {text}",
                      f"index values point into `{sel.dom}`, the array's rows are `{base.rows}`", node, ok)
        elif sel.kind == "mask" and sel.rows and base.rows:
            ok = rel(sel.rows, base.rows)
            self.note("IX-dom", f"mask is aligned with the array it filters: {text}",
                      f"mask follows `{sel.rows}`, the array's rows are `{base.rows}`", node, ok)

    def elementwise(self, a: IV, b: IV, node, text) -> IV:
        arrs = [x for x in (a, b) if x.kind in ("arr", "idx", "mask")]
        if len(arrs) == 2 and a.rows and b.rows:
            self.note("IX-seq", f"element-wise operands are aligned row by row: {text}",
                      f"left follows `{a.rows}`, right follows `{b.rows}`", node, rel(a.rows, b.rows))
        if len(arrs) == 2 and {a.shp, b.shp} == {"vec", "col"}:
            self.note("IX-kind", f"element-wise operands have the same layout (vector vs column): {text}",
                      f"a length-n vector combined with an (n,1) column broadcasts to an n-by-n table, not to n element-wise results "
                      f"(left is {a.shp}, right is {b.shp})", node, False)
        elif len(arrs) == 2 and a.shp and b.shp and a.shp == b.shp:
            self.note("IX-kind", f"element-wise operands have the same layout (vector vs column): {text}", f"both {a.shp}", node, True)
        if arrs:
            r = arrs[0].rows if len(arrs) == 1 or arrs[0].rows == arrs[1].rows else (arrs[0].rows or arrs[1].rows)
            shp = arrs[0].shp if len(arrs) == 1 or arrs[0].shp == arrs[1].shp else None
            return IV("arr", rows=r, shp=shp)
        return SCALAR if a.kind == b.kind == "scalar" else UNK

    def ev(self, e, env) -> IV:
        if isinstance(e, ast.Constant):
            return SCALAR
        if isinstance(e, ast.Name):
            return env.get(e.id, UNK)
        if isinstance(e, (ast.Tuple, ast.List)):
            return IV("tuple", elts=tuple(self.ev(x, env) for x in e.elts))
        if isinstance(e, ast.Attribute):
            b = self.ev(e.value, env)
            if b.kind == "obj" and b.obj:
                if e.attr in ("subs", "vals"):
                    if self.fi.cls and self.fi.params() and b.obj == self.fi.params()[0] and f"<field>{e.attr}" in env:
                        fv = env[f"<field>{e.attr}"]
                        if fv.kind in ("arr", "idx", "mask"):
                            return IV("arr", rows=fv.rows, shp=fv.shp or ("mat" if e.attr == "subs" else "col"))
                    return IV("arr", rows=b.obj, shp="mat" if e.attr == "subs" else "col")
                if e.attr in ("shape", "nnz", "ndims", "order", "size"):
                    return SCALAR
                return IV("obj", obj=f"{b.obj}.{e.attr}")
            if b.kind in ("arr", "idx", "mask"):
                if e.attr == "T":
                    return UNK
                if e.attr in ("size", "shape", "ndim", "dtype"):
                    return SCALAR
            return UNK
        if isinstance(e, ast.UnaryOp):
            v = self.ev(e.operand, env)
            if v.kind in ("arr", "mask", "idx"):
                return IV("mask" if isinstance(e.op, (ast.Not, ast.Invert)) else "arr", rows=v.rows, shp=v.shp)
            return v
        if isinstance(e, ast.BinOp):
            a, b = self.ev(e.left, env), self.ev(e.right, env)
            return self.elementwise(a, b, e, ast.unparse(e)[:90])
        if isinstance(e, ast.Compare):
            a, b = self.ev(e.left, env), self.ev(e.comparators[0], env)
            r = self.elementwise(a, b, e, ast.unparse(e)[:90])
            return IV("mask", rows=r.rows, shp=r.shp) if r.kind == "arr" else SCALAR
        if isinstance(e, ast.BoolOp):
            for v in e.values:
                self.ev(v, env)
            return UNK
        if isinstance(e, ast.IfExp):
            self.ev(e.test, env)
            a, b = self.ev(e.body, env), self.ev(e.orelse, env)
            return a if a == b else UNK
        if isinstance(e, ast.Subscript):
            return self.subscript(e, env)
        if isinstance(e, ast.Call):
            return self.call(e, env)
        if isinstance(e, (ast.ListComp, ast.GeneratorExp)):
            return UNK
        return UNK

    def subscript(self, e: ast.Subscript, env) -> IV:
        base = self.ev(e.value, env)
        sl = e.slice
        if base.kind == "tuple":
            c = const(sl)
            if isinstance(c, int) and -len(base.elts) <= c < len(base.elts):
                return base.elts[c]
            return UNK
        if base.kind == "obj":
            # tensor[subs] : one value per row of the subscript array
            k = self.ev(sl, env) if not isinstance(sl, (ast.Slice, ast.Tuple)) else UNK
            if k.kind in ("arr", "idx") and k.rows:
                # dense tensors answer a subscript array with a vector, sparse tensors with a column
                return IV("arr", rows=k.rows, shp={"tensor": "vec", "sptensor": "col"}.get(base.cls),
                          ms=base.cls in (None, "tensor", "sptensor"))
            return UNK
        if base.kind == "arr" and base.ms:
            self.note("SC", f"a tensor lookup that may collapse to a scalar is normalised before it is subscripted: {ast.unparse(e)[:70]}",
                      "tensor[subs] returns a Python float when the subscript array has exactly one row; subscripting it then raises "
                      "(use np.atleast_1d first)", e, False)
        if base.kind not in ("arr", "idx", "mask"):
            if not isinstance(sl, (ast.Slice,)):
                self.ev(sl.elts[0] if isinstance(sl, ast.Tuple) and sl.elts else sl, env)
            return UNK
        first = sl.elts[0] if isinstance(sl, ast.Tuple) and sl.elts else sl
        rest = sl.elts[1:] if isinstance(sl, ast.Tuple) else []
        if isinstance(first, ast.Slice):
            if first.lower is None and first.upper is None and first.step is None:
                # column selection / newaxis keeps the rows
                shp = base.shp
                if rest:
                    r0 = rest[0]
                    if isinstance(r0, ast.Constant) and r0.value is None:
                        shp = "col" if base.shp == "vec" else None
                    elif isinstance(r0, ast.Constant) and isinstance(r0.value, int):
                        shp = "vec"
                    elif isinstance(r0, ast.Slice):
                        shp = base.shp
                    else:
                        shp = "mat" if base.shp == "mat" else None
                return IV(base.kind, rows=base.rows, dom=base.dom, shp=shp)
            return IV(base.kind, rows=None, dom=base.dom, shp=base.shp)
        if isinstance(first, ast.Constant) and first.value is None:
            return base
        sel = self.ev(first, env)
        if sel.kind == "tuple" and sel.elts and sel.elts[0].kind in ("idx", "mask") and not rest:
            sel = sel.elts[0]
        if sel.kind in ("idx", "mask"):
            self.check_dom(base, sel, e, ast.unparse(e)[:70])
            if sel.kind == "idx":
                return IV(base.kind, rows=sel.rows, dom=base.dom, shp=base.shp)
            rid = f"{base.rows}|{sel.rows}#{self._mask_id(first)}" if base.rows and sel.rows else None
            return IV(base.kind, rows=rid, dom=base.dom, shp=base.shp)
        if sel.kind == "scalar":
            return SCALAR if not rest else UNK
        return IV(base.kind, rows=None, dom=base.dom)

    def narrow(self, test, truth: bool, env) -> None:
        if isinstance(test, ast.UnaryOp) and isinstance(test.op, ast.Not):
            return self.narrow(test.operand, not truth, env)
        if truth and isinstance(test, ast.Call) and isinstance(test.func, ast.Name) and test.func.id == "isinstance" and len(test.args) == 2 \
                and isinstance(test.args[0], ast.Name):
            t = test.args[1]
            if not isinstance(t, ast.Tuple):
                c = (dotted(t) or "").split(".")[-1]
                cur = env.get(test.args[0].id, UNK)
                if c in ("tensor", "sptensor", "ktensor", "ttensor", "sumtensor"):
                    env[test.args[0].id] = IV("obj", obj=cur.obj or test.args[0].id, cls=c)
                elif c in ("ndarray",):
                    env[test.args[0].id] = IV("arr", rows=cur.rows or test.args[0].id)

    def _count_dom(self, args, env) -> Optional[str]:
        """arange(X.nnz) / range(0, X.nnz) / arange(len(X.subs)) enumerate the rows of X."""
        last = args[-1] if len(args) <= 2 else args[1]
        if isinstance(last, ast.Attribute) and last.attr == "nnz":
            b = self.ev(last.value, env)
            return b.obj if b.kind == "obj" else None
        if isinstance(last, ast.Call) and isinstance(last.func, ast.Name) and last.func.id == "len" and last.args:
            v = self.ev(last.args[0], env)
            return v.rows if v.kind in ("arr", "idx", "mask") else None
        if isinstance(last, ast.Subscript) and isinstance(last.value, ast.Attribute) and last.value.attr == "shape" and const(last.slice) == 0:
            v = self.ev(last.value.value, env)
            return v.rows if v.kind in ("arr", "idx", "mask") else None
        return None

    def _mask_id(self, node) -> str:
        return ast.unparse(node)[:40]

    def call(self, e: ast.Call, env) -> IV:
        nm = dotted(e.func) or ""
        base = nm.split(".")[-1] if nm else (e.func.attr if isinstance(e.func, ast.Attribute) else "")
        args = e.args
        av = [self.ev(a, env) for a in args]
        for k in e.keywords:
            self.ev(k.value, env)

        def rows_of(v: IV):
            return v.rows if v.kind in ("arr", "idx", "mask") else None

        if (isinstance(e.func, ast.Name) and e.func.id in self.fi.params() and env.get(e.func.id, UNK) is UNK and len(av) == 2
                and not e.keywords and all(v.kind in ("arr", "idx", "mask") for v in av)):
            # a binary callable supplied by the caller (comparison operator, element function) applied to two arrays:
            # the operands are combined entry by entry
            r = self.elementwise(av[0], av[1], e, ast.unparse(e)[:90])
            return IV("arr", rows=r.rows, shp=r.shp)
        if base == "tt_intersect_rows" and len(av) == 2:
            a, b = rows_of(av[0]), rows_of(av[1])
            if a and b:
                return IV("idx", rows=f"common({'&'.join(sorted((a, b)))}) in order of {b}", dom=a, shp="vec")
            return IV("idx", rows=None, dom=a, shp="vec")
        if base == "tt_setdiff_rows" and len(av) == 2:
            a = rows_of(av[0])
            return IV("idx", rows=self.fresh("setdiff", e), dom=a, shp="vec")
        if base == "tt_ismember_rows" and len(av) == 2:
            s, t = rows_of(av[0]), rows_of(av[1])
            return IV("tuple", elts=(IV("mask", rows=s, shp="vec"), IV("idx", rows=s, dom=t, shp="vec")))
        if base == "tt_union_rows":
            return IV("arr", rows=self.fresh("union", e))
        if isinstance(e.func, ast.Attribute):
            recv = self.ev(e.func.value, env)
            if recv.kind == "obj" and recv.obj:
                if base == "find":
                    return IV("tuple", elts=(IV("arr", rows=recv.obj), IV("arr", rows=recv.obj)))
                if base == "allsubs":
                    return IV("arr", rows=f"allsubs({recv.obj})")
                if base in ("copy",):
                    return recv
                return UNK
            if recv.kind == "arr" and recv.ms and base in ("transpose", "dot", "reshape", "squeeze", "astype", "flatten", "ravel", "sum", "all", "any"):
                self.note("SC", f"a tensor lookup that may collapse to a scalar is normalised before `.{base}()`: {ast.unparse(e)[:70]}",
                          "tensor[subs] returns a Python float when the subscript array has exactly one row; a float has no such method "
                          "(use np.atleast_1d first)", e, False)
            if recv.kind in ("arr", "idx", "mask"):
                if base in ("astype", "copy", "conj", "round"):
                    return IV(recv.kind, rows=recv.rows, dom=recv.dom, shp=recv.shp)
                if base in ("squeeze", "flatten", "ravel") or (base == "reshape" and len(args) == 1 and const(args[0]) == -1):
                    return IV(recv.kind, rows=recv.rows, dom=recv.dom, shp="vec" if recv.shp in ("col", "vec") else None)
                if base == "transpose":
                    # an (n,1) column transposed and indexed by [0] is the vector of its entries
                    return IV("tuple", elts=(IV(recv.kind, rows=recv.rows, dom=recv.dom, shp="vec" if recv.shp == "col" else None),))
                if base in ("all", "any", "sum", "max", "min", "item", "dot"):
                    return SCALAR
                return UNK
        is_np = nm.startswith(("np.", "numpy."))
        if is_np:
            if base in ("where", "nonzero", "flatnonzero") and len(av) == 1:
                m = av[0]
                r = self.fresh("where", e) if True else None
                idx = IV("idx", rows=f"where({ast.unparse(args[0])[:40]})", dom=rows_of(m), shp="vec")
                return idx if base == "flatnonzero" else IV("tuple", elts=(idx, idx))
            if base in ("logical_and", "logical_or", "logical_xor") and len(av) == 2:
                r = self.elementwise(av[0], av[1], e, ast.unparse(e)[:90])
                return IV("mask", rows=r.rows, shp=r.shp)
            if base == "logical_not" and av:
                return IV("mask", rows=rows_of(av[0]), shp=av[0].shp)
            if base in ("vstack", "concatenate") and args and isinstance(args[0], (ast.Tuple, ast.List)):
                parts = [self.ev(x, env) for x in args[0].elts]
                ax = kwarg(e, "axis")
                if ax is not None and const(ax) == 1:
                    rs = {rows_of(p) for p in parts}
                    return IV("arr", rows=rs.pop() if len(rs) == 1 else None)
                if all(rows_of(p) for p in parts):
                    return IV("arr", rows="cat(" + ",".join(rows_of(p) for p in parts) + ")")
                return IV("arr")
            if base == "hstack" and args and isinstance(args[0], (ast.Tuple, ast.List)):
                parts = [self.ev(x, env) for x in args[0].elts]
                rs = {rows_of(p) for p in parts}
                return IV("arr", rows=rs.pop() if len(rs) == 1 else None)
            if base in ("ones", "zeros", "empty", "full"):
                # np.ones((X.shape[0], 1)): aligned with X when the row count is taken from X
                if args and isinstance(args[0], (ast.Tuple, ast.List)) and args[0].elts:
                    d0 = args[0].elts[0]
                    shp = "vec" if len(args[0].elts) == 1 else ("col" if len(args[0].elts) == 2 and const(args[0].elts[1]) == 1 else None)
                    if isinstance(d0, ast.Name) and d0.id in self.count_src:
                        d0 = self.count_src[d0.id]
                    if isinstance(d0, ast.Subscript) and isinstance(d0.value, ast.Attribute) and d0.value.attr == "shape" and const(d0.slice) == 0:
                        src = self.ev(d0.value.value, env)
                        if rows_of(src):
                            return IV("arr", rows=rows_of(src), shp=shp)  # constant array with as many rows as src: trivially aligned
                    return IV("arr", shp=shp)
                return IV("arr")
            if base in ("atleast_1d", "atleast_2d") and av and av[0].kind == "arr":
                if av[0].ms:
                    self.note("SC", f"a tensor lookup that may collapse to a scalar is normalised: {ast.unparse(e)[:70]}", f"np.{base}", e, True)
                return IV("arr", rows=av[0].rows, shp=(av[0].shp or "vec") if base == "atleast_1d" else None)
            if base in ("abs", "sqrt", "exp", "log", "sign", "isnan", "isinf", "isfinite", "atleast_1d", "array", "asarray", "squeeze",
                        "expand_dims", "ascontiguousarray", "multiply", "divide", "power", "maximum", "minimum", "float64", "nan_to_num"):
                if av and av[0].kind in ("arr", "idx", "mask"):
                    if len(av) >= 2 and base in ("multiply", "divide", "power", "maximum", "minimum"):
                        return self.elementwise(av[0], av[1], e, ast.unparse(e)[:90])
                    return IV(av[0].kind, rows=av[0].rows, dom=av[0].dom, shp=av[0].shp if base not in ("squeeze", "expand_dims", "atleast_1d") else None)
                return UNK
            if base == "unique" and av:
                self.unique_inputs.append((e, rows_of(av[0])))
                u = self.fresh("unique", e)
                outs = [IV("arr", rows=u)]
                for k in ("return_index", "return_inverse", "return_counts"):
                    kv = kwarg(e, k)
                    if kv is not None and const(kv) is True:
                        if k == "return_index":
                            outs.append(IV("idx", rows=u, dom=rows_of(av[0])))
                        elif k == "return_inverse":
                            outs.append(IV("idx", rows=rows_of(av[0]), dom=u))
                        else:
                            outs.append(IV("arr", rows=u))
                return outs[0] if len(outs) == 1 else IV("tuple", elts=tuple(outs))
            if base in ("setdiff1d", "intersect1d", "union1d") and len(av) >= 2:
                da = av[0].dom if av[0].kind == "idx" else None
                db = av[1].dom if av[1].kind == "idx" else None
                if da and db:
                    self.note("IX-dom", f"index sets combined by {base} address the same array: {ast.unparse(e)[:80]}",
                              f"first set indexes `{da}`, second set indexes `{db}`", e, rel(da, db))
                return IV("idx", rows=self.fresh(base, e), dom=da, shp="vec")
            if base in ("arange",):
                return IV("idx", rows=self.fresh("arange", e), dom=self._count_dom(args, env), shp="vec")
            if base == "expand_dims" and av and av[0].kind in ("arr", "idx", "mask"):
                ax = kwarg(e, "axis") or (args[1] if len(args) > 1 else None)
                return IV(av[0].kind, rows=av[0].rows, dom=av[0].dom, shp="col" if av[0].shp == "vec" and const(ax) == 1 else None)
            if base in ("sum", "all", "any", "max", "min", "prod", "isscalar", "array_equal"):
                return SCALAR
            return UNK
        if base == "accumarray" and len(av) >= 2:
            # group index vs values
            a, b = av[0], av[1]
            if rows_of(a) and rows_of(b):
                self.note("IX-seq", f"aggregated values are aligned with their group index: {ast.unparse(e)[:80]}",
                          f"group index follows `{rows_of(a)}`, values follow `{rows_of(b)}`", e, rel(rows_of(a), rows_of(b)))
            return IV("arr", rows=a.dom if a.kind == "idx" else None)
        if base in ("sptensor",) and len(av) >= 2:
            s, v = av[0], av[1]
            if rows_of(s) and rows_of(v):
                self.note("IX-pair", f"subscripts and values of the result are aligned: {ast.unparse(e)[:90]}",
                          f"subscripts follow `{rows_of(s)}`, values follow `{rows_of(v)}`", e, rel(rows_of(s), rows_of(v)))
            return IV("obj", obj=self.fresh("new", e))
        if base == "range" and args:
            return IV("idx", rows=self.fresh("range", e), dom=self._count_dom(args, env), shp="vec")
        if base in ("len", "int", "float", "prod", "max", "min", "sum", "isinstance", "range", "tuple", "list", "bool"):
            return SCALAR if base not in ("tuple", "list", "range") else UNK
        return UNK
