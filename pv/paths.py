"""E1-lite: enumeration of acyclic paths through a function body.

Each path is a list of (stmt, decision) items in execution order; loops are unrolled once
(body executed zero or one time is chosen by `loop_mode`).  Paths end at return / raise.
`assert False` and `raise` end a path as 'raise'.
"""
from __future__ import annotations

import ast
from typing import Iterator, List, Tuple, Optional

MAX_PATHS = 4096


class PathLimit(Exception):
    pass


def is_raise(st: ast.stmt) -> bool:
    if isinstance(st, ast.Raise):
        return True
    if isinstance(st, ast.Assert):
        t = st.test
        return isinstance(t, ast.Constant) and t.value is False
    return False


Item = Tuple[str, ast.AST]  # kind in {stmt, if-true, if-false, loop-enter, loop-skip, return, raise}


def enumerate_paths(body: List[ast.stmt], loop_zero: bool = False, limit: int = MAX_PATHS) -> List[Tuple[List[Item], str]]:
    """Return [(items, end)] with end in {'return','raise','fall'}."""
    out: List[Tuple[List[Item], str]] = []

    def go(stmts: List[ast.stmt], acc: List[Item], cont):
        """cont(acc) is called when stmts falls through."""
        if len(out) > limit:
            raise PathLimit()
        if not stmts:
            cont(acc)
            return
        st, rest = stmts[0], stmts[1:]
        if isinstance(st, ast.Return):
            out.append((acc + [("return", st)], "return"))
            return
        if is_raise(st):
            out.append((acc + [("raise", st)], "raise"))
            return
        if isinstance(st, ast.If):
            go(st.body, acc + [("if-true", st)], lambda a: go(rest, a, cont))
            go(st.orelse, acc + [("if-false", st)], lambda a: go(rest, a, cont))
            return
        if isinstance(st, (ast.For, ast.While)):
            go(st.body, acc + [("loop-enter", st)], lambda a: go(st.orelse + rest, a, cont))
            if loop_zero:
                go(st.orelse + rest, acc + [("loop-skip", st)], cont)
            return
        if isinstance(st, ast.With):
            go(st.body, acc + [("stmt", st)], lambda a: go(rest, a, cont))
            return
        if isinstance(st, ast.Try):
            go(st.body + st.orelse + st.finalbody, acc, lambda a: go(rest, a, cont))
            return
        if isinstance(st, (ast.Break, ast.Continue)):
            cont(acc)  # approximation: leave the loop body
            return
        go(rest, acc + [("stmt", st)], cont)

    go(body, [], lambda a: out.append((a, "fall")))
    return out
