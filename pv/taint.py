"""E10: presentation taint.

Presentation parameters (printitn, printinneritn, verbosity, self._printitn and locals derived from
them) may only influence what is printed / logged.  A statement that is control dependent on a tainted
test may not define a value used outside presentation code, mutate the model being computed, draw
random numbers, or transfer control.
"""
from __future__ import annotations

import ast
from dataclasses import dataclass, field
from typing import Dict, List, Optional, Set, Tuple

from .model import FuncInfo, dotted, walk_no_nested

PRESENTATION_PARAMS = {"printitn", "printinneritn", "verbosity", "_printitn", "disp", "iprint"}
REPARAM = {"normalize", "arrange", "redistribute", "fixsigns"}
PRINT_FUNCS = {"print", "info", "debug", "warning", "warn", "log", "format", "join", "str", "repr"}


@dataclass
class Region:
    node: ast.If
    test_names: Set[str]
    type_check_only: bool
    stmts: List[ast.stmt] = field(default_factory=list)


def _names(e: ast.AST) -> Set[str]:
    out = set()
    for n in ast.walk(e):
        if isinstance(n, ast.Name):
            out.add(n.id)
        elif isinstance(n, ast.Attribute) and isinstance(n.value, ast.Name) and n.value.id == "self":
            out.add(n.attr)
    return out


def tainted_names(fi: FuncInfo) -> Set[str]:
    t = {p for p in fi.params() if p in PRESENTATION_PARAMS}
    t |= {"_printitn"}
    changed = True
    while changed:
        changed = False
        for n in walk_no_nested(fi.node):
            if isinstance(n, ast.Assign) and len(n.targets) == 1 and isinstance(n.targets[0], ast.Name):
                nm = n.targets[0].id
                if nm not in t and (_names(n.value) & t):
                    # a local derived ONLY from presentation values and constants
                    others = {x for x in _names(n.value) if x not in t and x not in ("np", "int", "float", "bool", "len", "max", "min")}
                    if not others:
                        t.add(nm)
                        changed = True
    return t


def _type_check_only(test: ast.expr, tainted: Set[str]) -> bool:
    """True if every occurrence of a tainted name in the test is inside isinstance(...) / callable(...)."""
    ok_nodes = set()
    for n in ast.walk(test):
        if isinstance(n, ast.Call) and isinstance(n.func, ast.Name) and n.func.id in ("isinstance", "callable"):
            for x in ast.walk(n):
                ok_nodes.add(id(x))
    for n in ast.walk(test):
        if isinstance(n, ast.Name) and n.id in tainted and id(n) not in ok_nodes:
            return False
        if isinstance(n, ast.Attribute) and n.attr in tainted and id(n) not in ok_nodes:
            return False
    return True


def regions(fi: FuncInfo) -> Tuple[Set[str], List[Region]]:
    t = tainted_names(fi)
    out: List[Region] = []
    for n in walk_no_nested(fi.node):
        if isinstance(n, ast.If) and (_names(n.test) & t):
            out.append(Region(n, _names(n.test) & t, _type_check_only(n.test, t), list(n.body) + list(n.orelse)))
    return t, out
