"""numpy / scipy / builtin API contracts used by the alias engine (trusted base).

Each entry says what the RESULT may share with which argument and which argument is mutated.
A name that is not listed is *unknown* (the engine then reports UNDECIDED, never a violation).
"""

# functions np.<name>(...) / scipy...<name>(...) whose result never shares storage with an argument
FRESH = {
    "zeros", "ones", "empty", "full", "zeros_like", "ones_like", "empty_like", "full_like", "arange", "linspace",
    "eye", "identity", "diag", "dot", "matmul", "outer", "kron", "einsum", "tensordot", "inner", "vdot", "cross",
    "sum", "prod", "cumsum", "cumprod", "sort", "argsort", "unique", "nonzero", "flatnonzero", "argwhere",
    "concatenate", "vstack", "hstack", "stack", "column_stack", "row_stack", "dstack", "tile", "repeat",
    "abs", "absolute", "fabs", "sqrt", "exp", "log", "log2", "log10", "log1p", "expm1", "power", "square",
    "maximum", "minimum", "sign", "ceil", "floor", "rint", "trunc", "logical_and", "logical_or", "logical_not",
    "logical_xor", "isin", "in1d", "setdiff1d", "intersect1d", "union1d", "setxor1d", "all", "any", "max", "min",
    "amax", "amin", "argmax", "argmin", "mean", "median", "std", "var", "norm", "inv", "pinv", "solve", "lstsq",
    "svd", "qr", "eig", "eigh", "eigs", "eigsh", "eigvals", "eigvalsh", "det", "cholesky", "matrix_rank",
    "copy", "roll", "delete", "insert", "append", "isclose", "allclose", "array_equal", "array_equiv",
    "count_nonzero", "meshgrid", "indices", "unravel_index", "ravel_multi_index", "divide", "true_divide",
    "multiply", "add", "subtract", "mod", "remainder", "floor_divide", "negative", "reciprocal", "isnan", "isinf",
    "isfinite", "nan_to_num", "round", "around", "trace", "triu", "tril", "fromfile", "loadtxt", "genfromtxt",
    "bincount", "searchsorted", "lexsort", "take", "compress", "choose", "clip", "where", "select", "cumsum",
    "uniform", "rand", "randn", "randint", "random", "random_sample", "choice", "permutation", "normal", "poisson",
    "standard_normal", "seed", "shuffle_", "equal", "not_equal", "greater", "greater_equal", "less", "less_equal",
    "float64", "int64", "int32", "float32", "bool_", "intp", "fromiter", "frombuffer_", "histogram", "digitize",
    "nansum", "nanmax", "nanmin", "ptp", "average", "diff", "gradient", "convolve", "correlate", "polyfit",
    "khatrirao_", "issparse", "isscalar", "ndim", "shape", "size", "iscomplexobj", "isrealobj", "result_type",
    "can_cast", "dtype", "finfo", "iinfo", "prod_", "array_str", "array2string", "set_printoptions", "errstate",
    "broadcast_shapes", "sign", "heaviside", "hypot", "arctan2", "sin", "cos", "tan", "tanh", "sinh", "cosh",
    "floor_", "accumarray_", "tolist", "ix_", "block", "pad", "kron", "full", "logspace", "geomspace",
    "fmin_l_bfgs_b", "minimize", "perf_counter", "issubdtype", "asscalar", "spsolve", "expm", "sqrtm", "linalg",
    "toarray", "todense", "bmat", "accumarray", "ndindex", "tocoo",
}
# result MAY be a view of argument 0
VIEW0 = {
    "reshape", "ravel", "transpose", "swapaxes", "moveaxis", "rollaxis", "squeeze", "expand_dims", "atleast_1d",
    "atleast_2d", "atleast_3d", "asarray", "asanyarray", "ascontiguousarray", "asfortranarray", "flip", "flipud",
    "fliplr", "rot90", "broadcast_to", "real", "imag", "diagonal", "split", "array_split", "hsplit", "vsplit",
    "require", "conj", "conjugate", "asmatrix", "asarray_chkfinite", "positive", "view", "lib.stride_tricks.as_strided",
}
# np.array(x) copies by default; copy=False makes it VIEW0
ARRAY_CTOR = {"array"}
# scipy.sparse constructors: (data, (i, j)) form shares `data` unless copy=True
SPARSE_CTOR = {"coo_matrix", "coo_array", "csr_matrix", "csr_array", "csc_matrix", "csc_array"}

# ndarray methods
ND_VIEW = {"reshape", "ravel", "transpose", "squeeze", "swapaxes", "view", "conj", "conjugate", "diagonal", "newbyteorder"}
ND_FRESH = {
    "copy", "astype", "flatten", "sum", "prod", "dot", "max", "min", "argmax", "argmin", "argsort", "nonzero",
    "tolist", "item", "all", "any", "mean", "std", "var", "cumsum", "cumprod", "round", "tobytes", "tostring",
    "tofile", "dump", "repeat", "take", "compress", "choose", "clip", "trace", "ptp", "searchsorted", "__len__",
    "toarray", "todense", "tocsr", "tocsc", "tocoo_", "multiply", "power", "getnnz", "count_nonzero", "index", "count",
    "keys", "values", "items", "get", "format", "join", "split", "strip", "startswith", "endswith", "lower", "upper",
}
ND_MUTATE = {"fill", "sort", "put", "itemset", "resize", "partition", "setfield", "byteswap_inplace"}
ND_VIEW_ATTRS = {"T", "real", "imag", "flat", "mT", "base"}
ND_IMM_ATTRS = {"shape", "size", "ndim", "dtype", "nbytes", "itemsize", "flags", "strides"}

LIST_MUTATE = {"append", "extend", "insert", "pop", "remove", "clear", "sort", "reverse"}

# builtins
BUILTIN_IMM = {"len", "int", "float", "str", "bool", "isinstance", "issubclass", "type", "abs", "min", "max", "sum",
               "any", "all", "range", "print", "repr", "hash", "id", "round", "callable", "hasattr", "divmod", "pow",
               "ord", "chr", "format", "prod", "ceil", "floor", "sqrt", "log", "open", "iter_", "next_", "getattr_",
               "set", "frozenset", "dict", "slice", "complex", "bytes", "isinstance", "super_", "vars", "warn",
               "debug", "info", "warning", "error", "exception", "perf_counter", "time", "deepcopy", "partial_",
               "permutations", "combinations_with_replacement", "combinations", "product", "factorial", "signature", "get_args",
               "indent", "input", "TypedDict", "StratifiedCount", "ValueError", "TypeError", "IndexError", "AssertionError",
               "NotImplementedError", "RuntimeError", "KeyError", "Exception", "comb", "log2", "exp"}
BUILTIN_SHALLOW = {"list", "tuple", "sorted", "reversed", "enumerate", "zip", "map", "filter", "iter", "next", "copy_"}
